#!/bin/bash
# tools/mutest_wt.sh <patch> <ID> [tier] — like mutest.sh but in a private scratch worktree of /repo (parallel-safe).
P="$(realpath "$1")"; ID="$2"; T="${3:-quick}"
WT="$(mktemp -d /tmp/mwt.XXXXXX)"; rmdir "$WT"
git -C /repo worktree add -q --detach "$WT" HEAD || exit 9
( cd "$WT" && git apply "$P" ) || { echo "patch does not apply"; git -C /repo worktree remove --force "$WT"; exit 9; }
cd /verif && VERIF_REPO="$WT" ./vrun "$ID" "$T" > /tmp/mutest.$$.log 2>&1; rc=$?
git -C /repo worktree remove --force "$WT"
echo "patch=$(basename $(dirname $P))/$(basename $P) check=$ID tier=$T exit=$rc violations=$(grep -c '^VIOLATION' /tmp/mutest.$$.log)"
grep -m3 -A4 '^VIOLATION' /tmp/mutest.$$.log | head -12
grep -E "TOOL-ERROR|BUILD-ERROR" /tmp/mutest.$$.log | head -3
rm -f /tmp/mutest.$$.log
