#!/bin/bash
# tools/mutest.sh <patch> <ID> [tier]  — apply a patch to /repo, run the check, revert. Prints the verdict.
P="$1"; ID="$2"; T="${3:-quick}"
cd /repo || exit 9
git diff --quiet || { echo "/repo has uncommitted changes"; exit 9; }
git apply "$(realpath "$OLDPWD/$P" 2>/dev/null || echo "$P")" || { echo "patch does not apply"; exit 9; }
cd /verif && ./vrun "$ID" "$T" > /tmp/mutest.$$.log 2>&1; rc=$?
git -C /repo checkout -- . ; git -C /repo clean -fdq
echo "patch=$(basename $(dirname $P))/$(basename $P) check=$ID tier=$T exit=$rc violations=$(grep -c '^VIOLATION' /tmp/mutest.$$.log)"
grep -m3 -A4 '^VIOLATION' /tmp/mutest.$$.log | head -12
grep -E "TOOL-ERROR|BUILD-ERROR" /tmp/mutest.$$.log | head -3
rm -f /tmp/mutest.$$.log
