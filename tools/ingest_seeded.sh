#!/bin/bash
# tools/ingest_seeded.sh <candidate dir with patch.diff, demo_test.go, notes.md> <name> <property> <check IDs...>
# Confirms in a scratch worktree that the change (1) compiles, (2) passes the existing suite, (3) fails its
# demonstration, (4) the demonstration passes without it; then runs the named checks against it and files it
# under /verif/seeded/<name>/ with meta.json. Nothing is applied to /repo.
export GOFLAGS=-mod=mod GOPROXY=off GOSUMDB=off GOTOOLCHAIN=local
SRC="$(realpath "$1")"; NAME="$2"; PROP="$3"; shift 3; CHECKS="$*"
[ -f "$SRC/patch.diff" ] && [ -f "$SRC/demo_test.go" ] || { echo "missing patch.diff or demo_test.go in $SRC"; exit 9; }
WT="$(mktemp -d /tmp/iwt.XXXXXX)"; rmdir "$WT"
git -C /repo worktree add -q --detach "$WT" HEAD || exit 9
cleanup() { git -C /repo worktree remove --force "$WT" 2>/dev/null; }
trap cleanup EXIT
PKG="$(head -1 "$SRC/demo_test.go" | sed -n 's|^// copy to: *||p' | tr -d ' \r')"
[ -n "$PKG" ] || { echo "demo_test.go has no '// copy to:' header"; exit 9; }
cd "$WT"
# (4) demo passes without the change
cp "$SRC/demo_test.go" "$WT/$PKG/zz_seeded_demo_test.go"
go test -vet=off -count=1 -run 'Seed|Demo|Test' "./$PKG/" > /tmp/ing.$$.base 2>&1; base_rc=$?
# run only the demo's tests: find their names
NAMES="$(grep -o '^func Test[A-Za-z0-9_]*' "$SRC/demo_test.go" | sed 's/func //' | paste -sd'|')"
go test -vet=off -count=1 -run "^($NAMES)\$" "./$PKG/" > /tmp/ing.$$.base 2>&1; base_rc=$?
rm "$WT/$PKG/zz_seeded_demo_test.go"
git apply "$SRC/patch.diff" || { echo "RESULT $NAME: patch does not apply"; exit 1; }
go build ./... > /tmp/ing.$$.build 2>&1 || { echo "RESULT $NAME: does not compile"; cat /tmp/ing.$$.build; exit 1; }
go test -vet=off -count=1 -timeout 25m ./... > /tmp/ing.$$.suite 2>&1; suite_rc=$?
cp "$SRC/demo_test.go" "$WT/$PKG/zz_seeded_demo_test.go"
go test -vet=off -count=1 -timeout 10m -run "^($NAMES)\$" "./$PKG/" > /tmp/ing.$$.demo 2>&1; demo_rc=$?
rm "$WT/$PKG/zz_seeded_demo_test.go"
echo "RESULT $NAME: demo_without_change_rc=$base_rc suite_with_change_rc=$suite_rc demo_with_change_rc=$demo_rc"
if [ $base_rc -ne 0 ] || [ $suite_rc -ne 0 ] || [ $demo_rc -eq 0 ]; then
  echo "RESULT $NAME: NOT KEPT (needs: demo passes without, suite passes with, demo fails with)"
  tail -5 /tmp/ing.$$.suite; tail -5 /tmp/ing.$$.demo; tail -5 /tmp/ing.$$.base
  rm -f /tmp/ing.$$.*; exit 1
fi
# run the checks (worktree already has the change applied)
declare -A VERD
for id in $CHECKS; do
  ( cd /verif && VERIF_REPO="$WT" ./vrun "$id" quick > /tmp/ing.$$.chk.$id 2>&1 ); rc=$?
  nv=$(grep -c '^VIOLATION' /tmp/ing.$$.chk.$id)
  clause=$(grep -m1 '^  unit=' /tmp/ing.$$.chk.$id | grep -o 'check=[^ ]*' | sed 's/check=//')
  VERD[$id]="exit=$rc violations=$nv clause=$clause"
  echo "RESULT $NAME: check $id ${VERD[$id]}"
  grep -E "TOOL-ERROR|BUILD-ERROR" /tmp/ing.$$.chk.$id | head -2
done
D="/verif/seeded/$NAME"; mkdir -p "$D"
cp "$SRC/patch.diff" "$SRC/demo_test.go" "$D/"; [ -f "$SRC/notes.md" ] && cp "$SRC/notes.md" "$D/"
{
echo "{"
echo " \"name\": \"$NAME\","
echo " \"breaks_property\": \"$PROP\","
echo " \"origin\": \"written by a sub-agent that was given only the text of $PROP and its own scratch worktree\","
echo " \"demo_package\": \"$PKG\","
echo " \"confirmed\": {\"compiles\": true, \"existing_suite_with_change\": \"pass\", \"demo_with_change\": \"fail\", \"demo_without_change\": \"pass\"},"
echo " \"ran\": [\"go build ./...\", \"go test -vet=off -count=1 ./... (with the change)\", \"go test -run '^($NAMES)\$' ./$PKG/ (with and without the change)\", \"VERIF_REPO=<worktree> ./vrun <ID> quick\"],"
echo -n " \"checks\": {"
first=1; for id in $CHECKS; do [ $first -eq 1 ] || echo -n ", "; first=0; echo -n "\"$id\": \"${VERD[$id]}\""; done
echo "},"
echo " \"needs_to_manifest\": \"see notes.md\""
echo "}"
} > "$D/meta.json"
rm -f /tmp/ing.$$.*
echo "RESULT $NAME: kept in $D"
