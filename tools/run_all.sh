#!/bin/bash
# tools/run_all.sh [tier] — runs every claimed check against /repo and prints one line each.
cd "$(dirname "$0")/.."; T="${1:-quick}"
for id in $(python3 -c "import json;print(' '.join(c['property_id'] for c in json.load(open('MANIFEST.json'))['checks']))"); do
  s=$(date +%s); out=$(./vrun $id $T 2>&1); rc=$?; e=$(( $(date +%s) - s ))
  echo "$id rc=$rc ${e}s $(echo "$out" | grep -E "^$id $T:" | sed 's/.*units=/units=/')"
  echo "$out" | grep -E "VIOLATION|TOOL-ERROR|BUILD-ERROR|KNOWN-FINDING|cap:" | head -20
done
