#!/bin/bash
# tools/recheck_seeded.sh <name> [check IDs...] — re-runs the quick checks recorded in seeded/<name>/meta.json (or the given ones) and updates meta.json.
NAME="$1"; shift; D="/verif/seeded/$NAME"
[ -f "$D/patch.diff" ] || { echo "no such seeded change $NAME"; exit 9; }
CHECKS="$*"
[ -n "$CHECKS" ] || CHECKS="$(python3 -c "import json;print(' '.join(json.load(open('$D/meta.json'))['checks']))")"
WT="$(mktemp -d /tmp/rwt.XXXXXX)"; rmdir "$WT"
git -C /repo worktree add -q --detach "$WT" HEAD || exit 9
trap 'git -C /repo worktree remove --force "$WT" 2>/dev/null' EXIT
( cd "$WT" && git apply "$D/patch.diff" ) || { echo "patch does not apply"; exit 9; }
for id in $CHECKS; do
  ( cd /verif && VERIF_REPO="$WT" ./vrun "$id" quick > /tmp/rchk.$$.$id 2>&1 ); rc=$?
  nv=$(grep -c '^VIOLATION' /tmp/rchk.$$.$id)
  clause=$(grep -m1 '^  unit=' /tmp/rchk.$$.$id | grep -o 'check=[^ ]*' | sed 's/check=//')
  echo "RESULT $NAME: check $id exit=$rc violations=$nv clause=$clause"
  python3 - "$D/meta.json" "$id" "exit=$rc violations=$nv clause=$clause" <<'PY'
import json,sys
p,i,v=sys.argv[1:4]
m=json.load(open(p)); m['checks'][i]=v; json.dump(m,open(p,'w'),indent=1)
PY
  rm -f /tmp/rchk.$$.$id
done
