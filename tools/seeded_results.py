#!/usr/bin/env python3
"""Writes /verif/seeded/RESULTS.md from the meta.json files."""
import json, glob, os
rows=[]
for f in sorted(glob.glob('/verif/seeded/*/meta.json')):
    m=json.load(open(f))
    notes=os.path.join(os.path.dirname(f),'notes.md')
    first=''
    if os.path.exists(notes):
        for ln in open(notes):
            ln=ln.strip()
            if ln and not ln.startswith('#'):
                first=ln[:160]; break
    for cid,v in m['checks'].items():
        rows.append((m['name'],m['breaks_property'],cid,v,first))
out=["# Detection record for independently seeded changes","",
"Each change was written by a sub-agent that saw only the text of one property and its own scratch worktree.",
"Kept only after confirming: compiles, existing suite passes with it, its demonstration fails with it and passes without it.",
"`exit=1` = the check reported a VIOLATION; `exit=0` = not reported by that check (secondary checks are listed for information).","",
"| change | written against | check | verdict | what it is (first line of notes.md) |","|---|---|---|---|---|"]
for r in rows:
    out.append("| %s | %s | %s | %s | %s |"%r)
# summary: per change, is it reported by the check of the property it was written against / by any check
by={}
for name,prop,cid,v,first in rows:
    d=by.setdefault(name,{'prop':prop,'primary':False,'any':False})
    if v.startswith('exit=1'):
        d['any']=True
        if cid==prop: d['primary']=True
n=len(by); p_=sum(1 for d in by.values() if d['primary']); a_=sum(1 for d in by.values() if d['any'])
summary=["","## Summary","",f"{n} kept changes; {p_} reported by the check of the property they were written against; {a_} reported by at least one check.",""]
miss=[k for k,d in sorted(by.items()) if not d['primary']]
if miss:
    summary.append("Not reported by the check of their own property (see DESIGN.md 10.5): "+", ".join(miss))
out=out[:6]+summary+[""]+out[6:]
open('/verif/seeded/RESULTS.md','w').write("\n".join(out)+"\n")
print(len(rows),"rows")
