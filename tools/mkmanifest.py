#!/usr/bin/env python3
"""Regenerates /verif/MANIFEST.json from the table below (kept in one place so that it stays valid)."""
import json, os
V = os.path.dirname(os.path.dirname(os.path.abspath(__file__)))

CHECKS = {
 "C20": dict(cat="model_checking", ref="§3 C20, §2.3, §2.4",
   technique="stateless model checking of parallel.Execute under a controlled scheduler (DPOR, unbounded, all (n,m) in [0,5]x[1,4]; deviation-bounded on larger cases) + exhaustive enumeration of the (n,m) rectangle on the real code",
   text="Every (n,m) in [0,300]x[1,64] (thorough [0,2048]x[1,300]) and the NumCPU-default form are executed on the real Execute and the multiset of ranges is checked; every interleaving of caller and workers for n<=5, m<=4 is explored without bound (DPOR; cross-checked against reduction-free search) with a yielding work function, so 'returns only after every invocation has returned' is decided for all schedules of these harnesses, not sampled.",
   note="Scheduling points are the visible synchronisation operations; data-race freedom is a separate premise; m>=1."),
}
NOT_YET = {}

def main():
    props = [json.loads(l) for l in open(os.path.join(V, "properties.jsonl"))]
    checks, na = [], []
    for p in props:
        i = p["id"]
        if i in CHECKS:
            c = CHECKS[i]
            checks.append({
                "property_id": i,
                "quick_cmd": f"./vrun {i} quick",
                "thorough_cmd": f"./vrun {i} thorough",
                "evidence_file": f"/verif/evidence/{i}.json",
                "replay_cmd_template": f"./vrun {i} --replay {{path}}",
                "engine": "vcheck",
                "level_claimed": {"category": c["cat"], "text": c["text"], "design_ref": c["ref"]},
                "level_note": c["note"],
                "technique": c["technique"],
            })
        else:
            na.append({"property_id": i, "reason": NOT_YET.get(i, "check not built yet (work in progress; see DESIGN.md §3 for the planned bounded-exhaustive exploration)")})
    m = {
        "version": 1,
        "setup_cmd": "./vrun --setup",
        "hooks": {
            "guard": "verif (build tag on overlay-injected files only; nothing is committed to /repo for instrumentation)",
            "enable": "go build -tags verif -overlay <scratch>/overlay.json: the instrumenter (engine/instrument) rewrites go/chan/sync/runtime.NumCPU/map-range constructs of /repo's current working tree into the vsched shim and injects zz_verif_export.go files; see DESIGN.md §2.1-2.2",
            "baseline_off_cmd": "cd /repo && GOFLAGS=-mod=mod go test -vet=off -count=1 -timeout 25m ./...",
            "source_commits": [],
            "add_only": True,
        },
        "engines": [
            {"name": "vcheck", "path": "/verif/engine", "serves_properties": sorted(CHECKS),
             "kind_free_text": "hand-written stateless model checker for Go: controlled cooperative scheduler (vsched shim injected by overlay), deviation-bounded DFS and DPOR with sleep sets over the real implementation, explicit-state BFS over API histories, bounded-exhaustive input enumeration against an independent math/big reference model"},
        ],
        "checks": checks,
        "notes": "All checks run ./vrun, which re-instruments and rebuilds from /repo's current working tree on every invocation. Exit 0 = held, 1 = VIOLATION, 2 = BUILD-ERROR, 3 = TOOL-ERROR.",
        "not_applicable": na,
    }
    json.dump(m, open(os.path.join(V, "MANIFEST.json"), "w"), indent=1)
    print("wrote MANIFEST.json:", len(checks), "checks,", len(na), "not claimed")

main()
