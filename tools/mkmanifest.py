#!/usr/bin/env python3
"""Regenerates /verif/MANIFEST.json from the table below (kept in one place so that it stays valid)."""
import json, os
V = os.path.dirname(os.path.dirname(os.path.abspath(__file__)))

CHECKS = {
 "C01": dict(cat="exploration", ref="§3 C01",
   technique="bounded-exhaustive enumeration of opening statements x CPU counts on the real prover/verifier + exhaustive schedule exploration (DPOR) of the grouping fan-in",
   text="All index tuples over Z5^n (n<=3) x NumCPU {1,2,3,16,17}, all POLY^2 pairs, all representation pairs, all pointer-sharing partitions, a size sweep to 257 and 1025 openings, (NumCPU,GOMAXPROCS) pairs that differ, every call under a per-call time limit, the grouping seam for all (n,NumCPU) in [0,40]x[1,40] against a reference sum, and every arrival order of the worker fan-in (unbounded DPOR) are executed; each proof must verify on a fresh transcript with equal next challenge, a subset additionally against the reference verifier.",
   note="Alphabets instead of all of Fr^256; NumCPU through the overlay seam; reference verifier trusted via pinned vectors."),
 "C02": dict(cat="exploration", ref="§3 C02",
   technique="exhaustive single-component perturbation menu over honest proofs, decision compared with an independent reference verifier on the same tuple",
   text="For 8 (32 thorough) honest base proofs every perturbation of a fixed menu (each C_i, z_i, y_i, D, L_j, R_j, a, order, number, label, splices, re-representations, all shape errors), proofs forged through the prover API with mismatching polynomials, a 1025-opening statement with late and compensating false claims, and the challenge powers themselves are fed to CheckMultiProof / CheckIPAProof and to the reference verifier; decisions must agree, representation-only changes must stay accepted, value changes must be rejected, shapes must error without panic.",
   note="Agreement with the specification equation, not cryptographic soundness; valid group elements only."),
 "C03": dict(cat="exploration", ref="§3 C03",
   technique="proof bytes compared with an independent reference prover over an enumerated statement list x every configuration (NumCPU seam, real affinity/GOMAXPROCS child processes, representations, call history) + DPOR over MSM fan-in schedules + bounded enumeration of sync.Pool answers",
   text="Serialized proofs and post-proof challenges equal the reference prover's for every enumerated statement (incl. n>=11 openings) and IPA point; identical under every enumerated configuration and when the same argument objects are proved twice; one outcome over all schedules of the 2-/3-point MSM fan-in and over the explored schedules of whole proofs (DPOR, time cap); unchanged under every pool answer (<=2 deviations) with poisoned pooled objects.",
   note="Reference prover pinned by the two cross-implementation byte vectors; whole-proof schedule exploration only to the stated bounds."),
 "C04": dict(cat="exploration", ref="§3 C04",
   technique="bounded-exhaustive enumeration of (evaluation point, polynomial, claimed result) against coefficient-form evaluation by the reference",
   text="15 evaluation points incl. 254,255,256,257,2^64,r-1 (all 0..300 thorough) x 14 polynomials x 8 claimed results, re-proved under 8 CPU counts, proofs stored back to back in one buffer: CheckIPAProof accepts exactly result = p(point) computed by interpolation + Horner; computeBVector compared with reference Lagrange coefficients across the 255/256 boundary.",
   note="Alphabet of points/polynomials; rejection of wrong results is probabilistic (2^-250)."),
 "C05": dict(cat="exploration", ref="§3 C05",
   technique="exhaustive enumeration of every (point, window, digit, carry-in) of the precomputed MSM tables through the public Commit, against incrementally maintained reference multiples",
   text="Both tiers drive all 14.6 M (i,k,v,c) combinations (13.5 M evaluations in quick); plus carry chains of every length from every window, edge scalars, vectors of many lengths, linearity and agreement with MultiScalar, and SRS = reference CRS.",
   note="Per-scalar walks are independent, so single-coefficient vectors cover the table structure; multi-coefficient interaction is covered by the vector sweeps only."),
 "C06": dict(cat="exploration", ref="§3 C06",
   technique="bounded-exhaustive enumeration of byte strings (all x < 2^18 / 2^22, boundary bands around p and 2^256, aliases, all lengths) against a math/big reference predicate",
   text="SetBytes, ReadPoint and SetBytesUncompressed(untrusted) accept exactly what the reference predicate accepts on every enumerated input, also after the unchecked decoders saw the same bytes; accepted inputs re-encode to themselves, have order dividing r (subset), and aliases x+p, x+2p are rejected.",
   note="Inputs outside the enumerated ranges are represented by PRF members only."),
 "C08": dict(cat="exploration", ref="§3 C08",
   technique="full cross product of an element alphabet x 4 representations x aliasing patterns x edge-scalar alphabet against an independent math/big group law",
   text="All pairs for Add/Sub/AddMixed in all aliasing patterns, all unary operations, ScalarMul for every (element, representation) x ~800 edge scalars (every 2^k, 2^k+-1, GLV edge values), and the distributive laws over S_small^2 x E; every result must be a valid curve point of the reference class.",
   note="Element alphabet of 9 classes; the identity in all of its representations is included."),
 "C14": dict(cat="model_checking", ref="§3 C14, §2.6",
   technique="explicit-state exploration of all transcript operation sequences up to length 5/6 over a 20-operation menu, each replayed on the real Transcript and on the reference hash chain",
   text="Every history (6.7 M quick) is executed on a fresh implementation transcript; every challenge must equal the reference's; distinct reference states are counted; long chains cover every pending size 0..5000 and 64 consecutive challenges.",
   note="Binding is defined by the reference's absorbed byte stream (the transcript has no framing)."),
 "C15": dict(cat="exploration", ref="§3 C15",
   technique="full cross product of limb-boundary Montgomery representations through every field operation, in three build flavours (asm+ADX, noadx, portable), against math/big",
   text="~540 (1400 thorough) boundary elements: all pairs x {Add,Sub,Mul,Cmp,Equal,Butterfly, generic variants, aliased receivers}, all unary operations, Tonelli-Shanks on all 32 two-power parts, BatchInvert on all short lists and zeros at every position; repeated in the noadx and portable binaries.",
   note="ADX presence recorded; portable flavour produced by an overlay that removes the assembly."),
 "C16": dict(cat="exploration", ref="§3 C16",
   technique="bounded-exhaustive enumeration of byte strings of every length 0..64 x fill patterns x boundary values through every decoder, with capacity-level input-intact checks",
   text="Reducing decoders equal the integer value mod r, the canonical decoder accepts exactly values < r, round trips hold over the edge-scalar alphabet, and no decoder modifies its input (checked up to capacity, and by decoding the same buffer twice).",
   note="Found and fixed: in-place reversal in SetBytesLE/SetBytesLECanonical."),
 "C17": dict(cat="exploration", ref="§3 C17",
   technique="exhaustive enumeration of the quotient that drives the table-driven square root (all 2^32 dyadic exponents in thorough; complete per-block sweeps in quick) plus range sweeps of SqrtPrecomp/GetPointFromX against Jacobi-symbol oracles",
   text="invSqrtEqDyadic is run on g^e for every e (thorough) / every 8-bit value of every block with the other blocks in {00,01,80,FF} and all 2^16 low exponents (quick); SqrtPrecomp on g^e*h and on [0,2^16/2^20); GetPointFromX on [0,2^16/2^18) x both flags.",
   note="g^e assembled from math/big tables; pairwise block interactions are complete only in thorough."),
 "C18": dict(cat="exploration", ref="§3 C18",
   technique="all 256 division indices x unit vectors (linearity) and the polynomial alphabet against coefficient-form synthetic division; all 1022 table entries against defining products",
   text="DivideOnDomain(k,f) equals the evaluation form of (p-p(k))/(X-k) at all 256 points incl. k for every k; barycentric coefficients equal reference Lagrange coefficients and reproduce p(z) by Horner; weight tables equal A'(i), 1/A'(i), 1/k, -1/k.",
   note="Unit vectors reach every (i,k) coefficient only in thorough (all 256); quick uses a distance-covering subset."),
 "C20": dict(cat="model_checking", ref="§3 C20, §2.3, §2.4",
   technique="stateless model checking of parallel.Execute under a controlled scheduler (DPOR, unbounded, all (n,m) in [0,5]x[1,4]; deviation-bounded on larger cases) + exhaustive enumeration of the (n,m) rectangle on the real code",
   text="Every (n,m) in [0,300]x[1,64] (thorough [0,2048]x[1,300]) and the NumCPU-default form are executed on the real Execute and the multiset of ranges is checked; every interleaving of caller and workers for n<=5, m<=4 is explored without bound (DPOR; cross-checked against reduction-free search) with a yielding work function, so 'returns only after every invocation has returned' is decided for all schedules of these harnesses, not sampled.",
   note="Scheduling points are the visible synchronisation operations; data-race freedom is a separate premise; m>=1."),
}

CHECKS.update({
 "C07": dict(cat="model_checking", ref="§3 C07, §2.6",
   technique="explicit-state breadth-first search over a two-register machine of real group elements (27 API operations, exact-limb state keys, depth 3/4), invariant evaluated in every state against an independent reference class",
   text="Every operation sequence up to the depth bound is applied to real Elements and to the reference; in each of the ~10^4 (quick) distinct concrete states Bytes equals the reference class encoding, Equal agrees with class equality and byte equality (reflexive, symmetric, transitive on the triples at hand), decode(Bytes) is Equal, nothing equals the all-zero value, and bytes are path-independent across all visited states.",
   note="Bound = depth; element values reachable from G, SRS[0], SRS[1], SRS[255] with the menu's scalars."),
 "C09": dict(cat="model_checking", ref="§3 C09, §2.4",
   technique="stateless model checking (unbounded DPOR) of the MSM fan-out/fan-in for every window size and split setting on small inputs + bounded-exhaustive enumeration of sizes x task counts x scalar forms x small-scalar shares against a reference sum, and of the signed-digit partitioning against its recoding identity",
   text="All schedules of msmC4..msmC16 (internal entry) and of the split public entry on n<=5 give one outcome and reach no deadlock state; n in 0..64 x 29 task counts x both scalar forms x shares x point menus and all cost-model thresholds up to 9217 points agree with the reference; every (chunk, boundary digit, carry-in) of partitionScalars satisfies the recoding identity for every c.",
   note="NbTasks<=1024; scheduled exploration on n<=5 points; free-running termination judged with a 15-minute per-unit limit."),
 "C10": dict(cat="fault_enumeration", ref="§3 C10, §2.5",
   technique="exhaustive enumeration of reader answer sequences (every Read call is a choice point; all sequences with <= 2 deviations over {1 byte, half, data+EOF, error}), error at every byte offset, writer failure at every call, plus every single-field substitution and every length 0..600 against a reference decoder",
   text="MultiProof.Read / IPAProof.Read accept exactly what the reference field decoder accepts on every enumerated input, independent of chunking on every enumerated answer sequence; Write(Read(x)) = x; a failing reader or writer always yields an error; no panic.",
   note="Well-behaved readers never return (0,nil). Found and fixed: trailing byte accepted when delivered with io.EOF."),
 "C11": dict(cat="model_checking", ref="§3 C11, §2.6",
   technique="the C07 explicit-state search with the map-to-field invariant: value equals the reference x/y in every state, is path-independent per class and injective over all visited classes; batch variant on every register ordering",
   text="In every distinct concrete state MapToScalarField equals LE(x/y mod p) mod r computed by the reference, agrees across all representations of a class reached along different histories, differs between different classes, and BatchMapToScalarField (orderings, duplicates, identity, lengths 0..300) equals the single calls.",
   note="Same bounds as C07."),
 "C12": dict(cat="model_checking", ref="§3 C12, §2.4",
   technique="stateless model checking (DPOR over interleavings and sync.Pool answers, pooled objects poisoned) of 2-3 concurrent API calls sharing one config; separate free-running -race pass of the same bodies under GOMAXPROCS 1,2,4,16",
   text="All 28 pairs and 6 triples of short pool/codec/transcript operations are explored without schedule bound (time cap reported where hit); heavy calls (Commit, MSM, BatchNormalize, IPA/multiproof prove and verify) paired with short and heavy calls under a time cap; every call's output must equal its sequential output, no deadlock state, shared fingerprint unchanged; any race report of the -race pass is a violation.",
   note="Sequential consistency at visible operations; data races delegated to the race detector on the executions it observes; heavy pairs capped by wall clock."),
 "C13": dict(cat="model_checking", ref="§3 C13, §2.6",
   technique="explicit-state search on the deep fingerprint (reflect/unsafe, ~350 MB of tables + all package variables) of everything shared and mutable; 26-call menu from every reachable state, all histories of depth 2/3 with result digests and a probe; every call of a 40-call menu repeated with its read-only arguments in mprotect'ed pages (any store into an input faults)",
   text="After every call the shared fingerprint equals the initial one (closed one-state transition system on a pure tree), every caller argument is bit-identical up to slice capacity (commitments may only be re-normalised), every call's result equals its fresh-state result at every position of every history of depth 2 (3 thorough), and a probe after each history is unchanged.",
   note="gnark-crypto internals are outside the fingerprint; menu arguments are fixed small inputs."),
 "C19": dict(cat="model_checking", ref="§3 C19",
   technique="exhaustive enumeration of short lists x pointer-aliasing partitions x CPU counts against single-element operations and the reference encoding; DPOR over map-iteration permutations and worker schedules of BatchNormalize",
   text="All lists of length <=3 over 6 element values with every set partition as pointer sharing, 12 boundary lengths with duplicate strides, each under NumCPU 1,2,3,16,17; an un-normalisable element at every position must fail without modifying anything; every map order of <=4 pointers x every worker schedule gives the single-element result.",
   note="Element alphabet of 6 values incl. both identity representatives."),
})

NOT_YET = {}

def main():
    props = [json.loads(l) for l in open(os.path.join(V, "properties.jsonl"))]
    checks, na = [], []
    for p in props:
        i = p["id"]
        if i in CHECKS:
            c = dict(CHECKS[i])
            if i != "C13":
                c["technique"] += "; plus, for pairs of this property's operations, a reduction-free caller-switch search: the default execution and every execution with one switch (thorough: two) to the other top-level caller at a scheduling point (sync, channel, pool, sync/atomic operations and post-release points), warm and — one fresh process per execution — for the first use; for calls that run worker goroutines, every single switch between the workers of one call at the variables they share"
                c["text"] += " Two callers at once: every pair of the property's operations under every single caller switch (warm, and first use in fresh processes), each judged against the calls executed alone; honest calls are repeated after calls that ended with an error; the calls are also run with their read-only arguments in write-protected pages."
            checks.append({
                "property_id": i,
                "quick_cmd": f"./vrun {i} quick",
                "thorough_cmd": f"./vrun {i} thorough",
                "evidence_file": f"/verif/evidence/{i}.json",
                "replay_cmd_template": f"./vrun {i} --replay {{path}}",
                "engine": "vcheck",
                "level_claimed": {"category": c["cat"], "text": c["text"], "design_ref": c["ref"]},
                "level_note": c["note"],
                "technique": c["technique"],
            })
        else:
            na.append({"property_id": i, "reason": NOT_YET.get(i, "check not built yet (work in progress; see DESIGN.md §3 for the planned bounded-exhaustive exploration)")})
    m = {
        "version": 1,
        "setup_cmd": "./vrun --setup",
        "hooks": {
            "guard": "verif (build tag on overlay-injected files only; nothing is committed to /repo for instrumentation)",
            "enable": "go build -tags verif -overlay <scratch>/overlay.json: the instrumenter (engine/instrument) rewrites go/chan/sync/sync-atomic/runtime.NumCPU/runtime.GOMAXPROCS/map-range constructs of /repo's current working tree into the vsched shim and injects zz_verif_export.go files; see DESIGN.md §2.1-2.2",
            "baseline_off_cmd": "cd /repo && GOFLAGS=-mod=mod go test -vet=off -count=1 -timeout 25m ./...",
            "source_commits": [],
            "add_only": True,
        },
        "engines": [
            {"name": "vcheck", "path": "/verif/engine", "serves_properties": sorted(CHECKS),
             "kind_free_text": "hand-written stateless model checker for Go: controlled cooperative scheduler (vsched shim injected by overlay), deviation-bounded DFS (incl. caller-switch search over concurrent API calls, one fresh process per execution for first-use scenarios) and DPOR with sleep sets over the real implementation, explicit-state BFS over API histories, bounded-exhaustive input enumeration against an independent math/big reference model"},
        ],
        "checks": checks,
        "notes": "All checks run ./vrun, which re-instruments and rebuilds from /repo's current working tree on every invocation. Exit 0 = held, 1 = VIOLATION, 2 = BUILD-ERROR, 3 = TOOL-ERROR.",
        "not_applicable": na,
    }
    json.dump(m, open(os.path.join(V, "MANIFEST.json"), "w"), indent=1)
    print("wrote MANIFEST.json:", len(checks), "checks,", len(na), "not claimed")

main()
