#!/bin/bash
# tools/run_mutants.sh [table-file] — runs every "<patch> <ID> [<ID>...]" line through tools/mutest.sh and writes RESULTS.md next to the patches.
cd /verif
TABLE="${1:-mutants/TABLE.txt}"
DIR="$(dirname "$TABLE")"
OUT="$DIR/RESULTS.md"
{
echo "# Detection record ($(basename "$DIR"))"
echo
echo "Each change is applied to /repo's working tree (\`git apply\`), the quick check of the named property is run, and the tree is restored."
echo
echo "| change | check | exit | violations | first clause that fired |"
echo "|---|---|---|---|---|"
} > "$OUT"
grep -v '^#' "$TABLE" | while read -r patch ids; do
  [ -z "$patch" ] && continue
  for id in $ids; do
    res=$(tools/mutest_wt.sh "/verif/$DIR/$patch" "$id" 2>&1)
    line=$(echo "$res" | head -1)
    rc=$(echo "$line" | sed -n 's/.*exit=\([0-9]*\).*/\1/p')
    nv=$(echo "$line" | sed -n 's/.*violations=\([0-9]*\).*/\1/p')
    X
    echo "| $patch | $id | $rc | $nv | $clause |" >> "$OUT"
    echo "$patch $id exit=$rc violations=$nv $clause"
  done
done
