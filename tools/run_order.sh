#!/bin/bash
# tools/run_order.sh <tier> <ID>... — like run_all.sh for the given checks in the given order.
cd "$(dirname "$0")/.."; T="$1"; shift
for id in "$@"; do
  s=$(date +%s); out=$(./vrun $id $T 2>&1); rc=$?; e=$(( $(date +%s) - s ))
  echo "$id rc=$rc ${e}s $(echo "$out" | grep -E "^$id $T:" | sed 's/.*units=/units=/')"
  echo "$out" | grep -E "VIOLATION|TOOL-ERROR|BUILD-ERROR|KNOWN-FINDING|memory guard|killed by the system" | head -10
done
