// Prototype instrumenter: rewrites concurrency constructs of the go-ipa packages to the vsched shim
// and emits an overlay. Throw-away feasibility prototype.
package main

import (
	"bytes"
	"encoding/json"
	"flag"
	"fmt"
	"go/ast"
	"go/build"
	"go/importer"
	"go/parser"
	"go/printer"
	"go/token"
	"go/types"
	"os"
	"path/filepath"
	"sort"
	"strings"

	"golang.org/x/tools/go/ast/astutil"
)

const (
	modPath   = "github.com/crate-crypto/go-ipa"
	schedPath = modPath + "/zzverif/vsched"
	syncPath  = modPath + "/zzverif/vsync"
	atomPath  = modPath + "/zzverif/vatomic"
)

var pkgDirs = []string{"bandersnatch/fr", "bandersnatch/fp", "bandersnatch", "common/parallel", "banderwagon", "common", "ipa", "."}

func main() {
	repo := flag.String("repo", "/repo", "repository root")
	out := flag.String("out", "", "output directory")
	shim := flag.String("shim", "", "shim source dir (contains vsched/, vsync/)")
	exports := flag.String("exports", "", "directory with the per-package export files")
	doRewrite := flag.Bool("rewrite", true, "rewrite concurrency constructs (false: exports + shim only)")
	portable := flag.Bool("portable", false, "drop the fr assembly (portable generic arithmetic)")
	baselineFile := flag.String("baseline", "", "file listing the package-level variables of the pinned tree (\"<package path> <name>\" per line): only those enter VerifGlobals; variables an edit adds are internal state of the edit, judged by results only")
	writeBaseline := flag.String("writebaseline", "", "write the baseline list of the tree given by -repo to this file and exit")
	flag.Parse()
	if *baselineFile != "" {
		if b, err := os.ReadFile(*baselineFile); err == nil {
			baseline = map[string]bool{}
			for _, ln := range strings.Split(string(b), "\n") {
				if ln = strings.TrimSpace(ln); ln != "" {
					baseline[ln] = true
				}
			}
		}
	}
	baselineOut = *writeBaseline
	if *out == "" {
		panic("need -out")
	}
	os.MkdirAll(*out, 0o755)
	if err := os.Chdir(*repo); err != nil {
		panic(err)
	}
	overlay := map[string]string{}
	fset := token.NewFileSet()
	imp := importer.ForCompiler(fset, "source", nil)
	ctx := build.Default
	ctx.BuildTags = append(ctx.BuildTags, "verif")
	expFiles := map[string]string{"bandersnatch/fr": "fr.go", "bandersnatch/fp": "fp.go", "bandersnatch": "bandersnatch.go",
		"banderwagon": "banderwagon.go", "ipa": "ipa.go", ".": "root.go", "common": "common.go", "common/parallel": "parallel.go"}
	for _, rel := range pkgDirs {
		dir := filepath.Join(*repo, rel)
		ents, err := os.ReadDir(dir)
		if err != nil {
			panic(err)
		}
		var files []*ast.File
		var names []string
		for _, e := range ents {
			n := e.Name()
			if e.IsDir() || !strings.HasSuffix(n, ".go") || strings.HasSuffix(n, "_test.go") {
				continue
			}
			ok, err := ctx.MatchFile(dir, n)
			if err != nil || !ok {
				continue
			}
			f, err := parser.ParseFile(fset, filepath.Join(dir, n), nil, parser.ParseComments)
			if err != nil {
				panic(err)
			}
			files = append(files, f)
			names = append(names, filepath.Join(dir, n))
		}
		info := &types.Info{Types: map[ast.Expr]types.TypeAndValue{}, Uses: map[*ast.Ident]types.Object{}, Defs: map[*ast.Ident]types.Object{}}
		// the export file of this package is type-checked together with it: a wrapper that no longer fits the
		// (possibly edited) package is replaced by a stub, so that an edit never breaks the build of the checks
		var expFile *ast.File
		expName := ""
		if *exports != "" && expFiles[rel] != "" {
			expName = filepath.Join(*exports, expFiles[rel])
			if ef, err := parser.ParseFile(fset, expName, nil, parser.ParseComments); err == nil {
				expFile = ef
			}
		}
		var expErrs []types.Error
		pkgErr := false
		conf := types.Config{Importer: imp, Error: func(err error) {
			if te, ok := err.(types.Error); ok && expFile != nil && fset.Position(te.Pos).Filename == expName {
				expErrs = append(expErrs, te)
				return
			}
			pkgErr = true
			fmt.Fprintln(os.Stderr, "typecheck:", err)
		}}
		all := files
		if expFile != nil {
			all = append(append([]*ast.File(nil), files...), expFile)
		}
		pkg, _ := conf.Check(modPath+"/"+rel, fset, all, info)
		if pkgErr {
			panic("package " + rel + " does not type-check")
		}
		if expFile != nil {
			writeExport(fset, expFile, expErrs, pkg, *out, filepath.Join(dir, "zz_verif_export.go"), overlay)
		}
		for i, f := range files {
			if !*doRewrite {
				break
			}
			rw := &rewriter{fset: fset, info: info, file: f}
			if rw.rewrite() {
				var buf bytes.Buffer
				if err := printer.Fprint(&buf, fset, f); err != nil {
					panic(err)
				}
				dst := filepath.Join(*out, strings.ReplaceAll(strings.TrimPrefix(names[i], *repo+"/"), "/", "__"))
				if err := os.WriteFile(dst, buf.Bytes(), 0o644); err != nil {
					panic(err)
				}
				overlay[names[i]] = dst
				fmt.Println("rewrote", names[i], rw.stats)
			}
		}
	}
	// shim packages as virtual dirs
	for _, sub := range []string{"vsched", "vsync", "vatomic"} {
		ents, _ := os.ReadDir(filepath.Join(*shim, sub))
		for _, e := range ents {
			if strings.HasSuffix(e.Name(), ".go") {
				overlay[filepath.Join(*repo, "zzverif", sub, e.Name())] = filepath.Join(*shim, sub, e.Name())
			}
		}
	}
	if *doRewrite {
		flagFile := filepath.Join(*out, "zz_flag.go")
		os.WriteFile(flagFile, []byte("package vsched\n\nfunc init() { Instrumented = true }\n"), 0o644)
		overlay[filepath.Join(*repo, "zzverif", "vsched", "zz_flag.go")] = flagFile
	}
	if *exports != "" {
		fl := filepath.Join(*out, "zz_verif_flavour.go")
		os.WriteFile(fl, []byte(fmt.Sprintf("//go:build verif\n\npackage fr\n\nconst VerifPortable = %v\n", *portable)), 0o644)
		overlay[filepath.Join(*repo, "bandersnatch/fr", "zz_verif_flavour.go")] = fl
	}
	if *portable {
		// portable flavour: remove the assembly and its Go declarations, compile the noasm file instead
		frd := filepath.Join(*repo, "bandersnatch/fr")
		for _, f := range []string{"element_mul_amd64.s", "element_mul_adx_amd64.s", "element_ops_amd64.s", "element_ops_amd64.go", "asm.go", "asm_noadx.go"} {
			overlay[filepath.Join(frd, f)] = ""
		}
		b, err := os.ReadFile(filepath.Join(frd, "element_ops_noasm.go"))
		if err != nil {
			panic(err)
		}
		src := string(b)
		// strip the build constraint lines
		var keep []string
		for _, ln := range strings.Split(src, "\n") {
			if strings.HasPrefix(ln, "//go:build") || strings.HasPrefix(ln, "// +build") {
				continue
			}
			keep = append(keep, ln)
		}
		dst := filepath.Join(*out, "fr_portable_ops.go")
		os.WriteFile(dst, []byte(strings.Join(keep, "\n")+"\nvar supportAdx = false\n"), 0o644)
		overlay[filepath.Join(frd, "zz_portable_ops.go")] = dst
		overlay[filepath.Join(frd, "element_ops_noasm.go")] = ""
	}
	keys := make([]string, 0, len(overlay))
	for k := range overlay {
		keys = append(keys, k)
	}
	sort.Strings(keys)
	b, _ := json.MarshalIndent(map[string]any{"Replace": overlay}, "", " ")
	os.WriteFile(filepath.Join(*out, "overlay.json"), b, 0o644)
	if baselineOut != "" {
		sort.Strings(baselineLines)
		os.WriteFile(baselineOut, []byte(strings.Join(baselineLines, "\n")+"\n"), 0o644)
	}
}

// baseline: nil = every package-level variable enters VerifGlobals.
var baseline map[string]bool
var baselineOut string
var baselineLines []string

type rewriter struct {
	fset  *token.FileSet
	info  *types.Info
	file  *ast.File
	stats map[string]int
	recv  map[*ast.CallExpr]bool // Recv() calls we created
	need  bool
}

func sel(pkg, name string) ast.Expr {
	return &ast.SelectorExpr{X: ast.NewIdent(pkg), Sel: ast.NewIdent(name)}
}

func isChan(t types.Type) bool {
	if t == nil {
		return false
	}
	_, ok := t.Underlying().(*types.Chan)
	return ok
}
func isMap(t types.Type) bool {
	if t == nil {
		return false
	}
	_, ok := t.Underlying().(*types.Map)
	return ok
}

func (r *rewriter) count(k string) {
	if r.stats == nil {
		r.stats = map[string]int{}
	}
	r.stats[k]++
	r.need = true
}

func (r *rewriter) isBuiltin(id *ast.Ident, name string) bool {
	if id.Name != name {
		return false
	}
	_, ok := r.info.Uses[id].(*types.Builtin)
	return ok
}

func (r *rewriter) rewrite() bool {
	r.recv = map[*ast.CallExpr]bool{}
	// decisions that need type info of original nodes are taken in pre-order and stored.
	lenCap := map[*ast.CallExpr]string{}
	rangeKind := map[*ast.RangeStmt]string{}
	numCPU := map[*ast.CallExpr]bool{}
	goMaxProcs := map[*ast.CallExpr]bool{}
	closeCall := map[*ast.CallExpr]bool{}
	goFallback := map[*ast.GoStmt]bool{}
	ast.Inspect(r.file, func(n ast.Node) bool {
		switch x := n.(type) {
		case *ast.CallExpr:
			if id, ok := x.Fun.(*ast.Ident); ok && len(x.Args) == 1 {
				if (r.isBuiltin(id, "len") || r.isBuiltin(id, "cap")) && isChan(r.info.TypeOf(x.Args[0])) {
					lenCap[x] = strings.Title(id.Name)
				}
				if r.isBuiltin(id, "close") {
					closeCall[x] = true
				}
			}
			if se, ok := x.Fun.(*ast.SelectorExpr); ok {
				if id, ok := se.X.(*ast.Ident); ok && se.Sel.Name == "NumCPU" {
					if pn, ok := r.info.Uses[id].(*types.PkgName); ok && pn.Imported().Path() == "runtime" {
						numCPU[x] = true
					}
				}
				if id, ok := se.X.(*ast.Ident); ok && se.Sel.Name == "GOMAXPROCS" {
					if pn, ok := r.info.Uses[id].(*types.PkgName); ok && pn.Imported().Path() == "runtime" {
						goMaxProcs[x] = true
					}
				}
			}
		case *ast.GoStmt:
			if sig, ok := r.info.TypeOf(x.Call.Fun).Underlying().(*types.Signature); ok {
				if sig.Results().Len() > 0 || sig.Variadic() {
					goFallback[x] = true
				}
			} else {
				goFallback[x] = true
			}
		case *ast.RangeStmt:
			t := r.info.TypeOf(x.X)
			if isChan(t) {
				rangeKind[x] = "chan"
			} else if isMap(t) {
				rangeKind[x] = "map"
			}
		case *ast.SelectStmt:
			panic(fmt.Sprintf("%s: select not supported", r.fset.Position(x.Pos())))
		}
		return true
	})

	gpMark := r.markGlobalAccesses()

	post := func(c *astutil.Cursor) bool {
		switch x := c.Node().(type) {
		case *ast.ChanType:
			r.count("chantype")
			c.Replace(&ast.StarExpr{X: &ast.IndexExpr{X: sel("vsched", "Chan"), Index: x.Value}})
		case *ast.SendStmt:
			r.count("send")
			c.Replace(&ast.ExprStmt{X: &ast.CallExpr{Fun: &ast.SelectorExpr{X: x.Chan, Sel: ast.NewIdent("Send")}, Args: []ast.Expr{x.Value}}})
		case *ast.UnaryExpr:
			if x.Op == token.ARROW {
				r.count("recv")
				call := &ast.CallExpr{Fun: &ast.SelectorExpr{X: x.X, Sel: ast.NewIdent("Recv")}}
				r.recv[call] = true
				c.Replace(call)
			}
		case *ast.AssignStmt:
			if len(x.Lhs) == 2 && len(x.Rhs) == 1 {
				if call, ok := x.Rhs[0].(*ast.CallExpr); ok && r.recv[call] {
					call.Fun.(*ast.SelectorExpr).Sel = ast.NewIdent("Recv2")
				}
			}
		case *ast.ValueSpec:
			if len(x.Names) == 2 && len(x.Values) == 1 {
				if call, ok := x.Values[0].(*ast.CallExpr); ok && r.recv[call] {
					call.Fun.(*ast.SelectorExpr).Sel = ast.NewIdent("Recv2")
				}
			}
		case *ast.CallExpr:
			if m, ok := lenCap[x]; ok {
				r.count("lencap")
				c.Replace(&ast.CallExpr{Fun: &ast.SelectorExpr{X: x.Args[0], Sel: ast.NewIdent(m)}})
				return true
			}
			if closeCall[x] {
				r.count("close")
				c.Replace(&ast.CallExpr{Fun: &ast.SelectorExpr{X: x.Args[0], Sel: ast.NewIdent("Close")}})
				return true
			}
			if numCPU[x] {
				r.count("numcpu")
				c.Replace(&ast.CallExpr{Fun: sel("vsched", "NumCPU")})
				return true
			}
			if goMaxProcs[x] {
				r.count("gomaxprocs")
				c.Replace(&ast.CallExpr{Fun: sel("vsched", "GoMaxProcs"), Args: x.Args})
				return true
			}
			// make(*vsched.Chan[T], n) after the ChanType rewrite
			if id, ok := x.Fun.(*ast.Ident); ok && id.Name == "make" && len(x.Args) >= 1 {
				if st, ok := x.Args[0].(*ast.StarExpr); ok {
					if ix, ok := st.X.(*ast.IndexExpr); ok {
						if s, ok := ix.X.(*ast.SelectorExpr); ok && s.Sel.Name == "Chan" {
							r.count("makechan")
							args := []ast.Expr{&ast.BasicLit{Kind: token.INT, Value: "0"}}
							if len(x.Args) == 2 {
								args = []ast.Expr{x.Args[1]}
							}
							c.Replace(&ast.CallExpr{Fun: &ast.IndexExpr{X: sel("vsched", "MakeChan"), Index: ix.Index}, Args: args})
						}
					}
				}
			}
		case *ast.GoStmt:
			r.count("go")
			n := len(x.Call.Args)
			if x.Call.Ellipsis.IsValid() || n > 8 || goFallback[x] {
				// typed-temporary fallback: evaluate function value and arguments now, call later
				var stmts []ast.Stmt
				fid := ast.NewIdent("_vf")
				stmts = append(stmts, &ast.AssignStmt{Lhs: []ast.Expr{fid}, Tok: token.DEFINE, Rhs: []ast.Expr{x.Call.Fun}})
				var ids []ast.Expr
				for i, a := range x.Call.Args {
					id := ast.NewIdent(fmt.Sprintf("_va%d", i))
					stmts = append(stmts, &ast.AssignStmt{Lhs: []ast.Expr{id}, Tok: token.DEFINE, Rhs: []ast.Expr{a}})
					ids = append(ids, id)
				}
				call := &ast.CallExpr{Fun: fid, Args: ids, Ellipsis: x.Call.Ellipsis}
				lit := &ast.FuncLit{Type: &ast.FuncType{Params: &ast.FieldList{}}, Body: &ast.BlockStmt{List: []ast.Stmt{&ast.ExprStmt{X: call}}}}
				stmts = append(stmts, &ast.ExprStmt{X: &ast.CallExpr{Fun: sel("vsched", "Go0"), Args: []ast.Expr{lit}}})
				c.Replace(&ast.BlockStmt{List: stmts})
				return true
			}
			args := append([]ast.Expr{x.Call.Fun}, x.Call.Args...)
			c.Replace(&ast.ExprStmt{X: &ast.CallExpr{Fun: sel("vsched", fmt.Sprintf("Go%d", n)), Args: args}})
		case *ast.RangeStmt:
			switch rangeKind[x] {
			case "chan":
				r.count("rangechan")
				var lhs []ast.Expr
				if x.Key != nil {
					lhs = append(lhs, x.Key)
				} else {
					lhs = append(lhs, ast.NewIdent("_"))
				}
				okId := ast.NewIdent("_vok")
				tok := x.Tok
				if tok == token.ILLEGAL {
					tok = token.DEFINE
				}
				recvStmt := &ast.AssignStmt{Lhs: append(lhs, okId), Tok: token.DEFINE, Rhs: []ast.Expr{&ast.CallExpr{Fun: &ast.SelectorExpr{X: x.X, Sel: ast.NewIdent("Recv2")}}}}
				if tok == token.ASSIGN {
					// v assigned, ok declared separately
					recvStmt = &ast.AssignStmt{Lhs: []ast.Expr{ast.NewIdent("_vtmp"), okId}, Tok: token.DEFINE, Rhs: recvStmt.Rhs}
				}
				body := []ast.Stmt{recvStmt, &ast.IfStmt{Cond: &ast.UnaryExpr{Op: token.NOT, X: okId}, Body: &ast.BlockStmt{List: []ast.Stmt{&ast.BranchStmt{Tok: token.BREAK}}}}}
				if tok == token.ASSIGN && x.Key != nil {
					body = append(body, &ast.AssignStmt{Lhs: []ast.Expr{x.Key}, Tok: token.ASSIGN, Rhs: []ast.Expr{ast.NewIdent("_vtmp")}})
				}
				body = append(body, x.Body.List...)
				c.Replace(&ast.ForStmt{For: x.For, Body: &ast.BlockStmt{List: body}})
			case "map":
				r.count("rangemap")
				keyId := ast.NewIdent("_vk")
				var pre []ast.Stmt
				if x.Key != nil {
					if id, ok := x.Key.(*ast.Ident); !ok || id.Name != "_" {
						pre = append(pre, &ast.AssignStmt{Lhs: []ast.Expr{x.Key}, Tok: x.Tok, Rhs: []ast.Expr{keyId}})
					}
				}
				if x.Value != nil {
					if id, ok := x.Value.(*ast.Ident); !ok || id.Name != "_" {
						pre = append(pre, &ast.AssignStmt{Lhs: []ast.Expr{x.Value}, Tok: x.Tok, Rhs: []ast.Expr{&ast.IndexExpr{X: x.X, Index: keyId}}})
					}
				}
				pre = append(pre, &ast.AssignStmt{Lhs: []ast.Expr{ast.NewIdent("_")}, Tok: token.ASSIGN, Rhs: []ast.Expr{keyId}})
				x.Body.List = append(pre, x.Body.List...)
				c.Replace(&ast.RangeStmt{For: x.For, Key: ast.NewIdent("_"), Value: keyId, Tok: token.DEFINE, X: &ast.CallExpr{Fun: sel("vsched", "MapKeys"), Args: []ast.Expr{x.X}}, Body: x.Body})
			}
		}
		return true
	}
	astutil.Apply(r.file, nil, post)
	r.insertGlobalPoints(gpMark)

	// import rewrites
	for _, im := range r.file.Imports {
		if im.Path.Value == `"sync"` {
			im.Path.Value = `"` + syncPath + `"`
			im.Name = ast.NewIdent("sync")
			r.count("syncimport")
		}
		if im.Path.Value == `"sync/atomic"` {
			im.Path.Value = `"` + atomPath + `"`
			if im.Name == nil {
				im.Name = ast.NewIdent("atomic")
			}
			r.count("atomicimport")
		}
	}
	if r.need {
		usesSched := false
		ast.Inspect(r.file, func(n ast.Node) bool {
			if s, ok := n.(*ast.SelectorExpr); ok {
				if id, ok := s.X.(*ast.Ident); ok && id.Name == "vsched" {
					usesSched = true
				}
			}
			return true
		})
		if usesSched {
			astutil.AddImport(r.fset, r.file, schedPath)
		}
		if !astutil.UsesImport(r.file, "runtime") {
			astutil.DeleteImport(r.fset, r.file, "runtime")
		}
	}
	return r.need
}

// ---------- scheduling points at accesses to package-level variables ----------
//
// API calls on disjoint arguments can only interfere through memory that is reachable from package-level
// variables (and from the shared configuration, which is read-only). A scheduling point before and after
// every simple statement that names a package-level variable of go-ipa (and before every compound statement
// whose header does) therefore lets the two-callers search switch exactly where unsynchronised shared state
// is touched: a scratch buffer hoisted to package scope, a memo updated field by field, a result slice that
// points into a package-level array. The points are inert (one predictable branch) unless a harness turns
// vsched.GlobalPoints on.

func (r *rewriter) isGlobalVar(id *ast.Ident) bool {
	v, ok := r.info.Uses[id].(*types.Var)
	if !ok || v.Pkg() == nil || v.IsField() || !strings.HasPrefix(v.Pkg().Path(), modPath) {
		return false
	}
	if v.Parent() != v.Pkg().Scope() {
		return false
	}
	if v.Name() == "CurveParams" { // read in every point addition, never written after package initialisation
		return false
	}
	// synchronisation objects are visible operations already; sentinel errors are never written
	ts := v.Type().String()
	if strings.HasPrefix(ts, "sync.") || strings.HasPrefix(ts, "sync/atomic.") || ts == "error" {
		return false
	}
	return true
}

// isCaptured: inside the function literal lit, id names a local variable of an enclosing function (the
// literal may run on several goroutines at once — worker closures of parallel.Execute, go statements — and
// then such a variable is shared between them). Synchronisation objects and channels are visible operations
// already.
func (r *rewriter) isCaptured(id *ast.Ident, lit *ast.FuncLit) bool {
	if lit == nil {
		return false
	}
	v, ok := r.info.Uses[id].(*types.Var)
	if !ok || v.Pkg() == nil || v.IsField() || v.Parent() == nil || v.Parent() == v.Pkg().Scope() {
		return false
	}
	if v.Pos() >= lit.Pos() && v.Pos() <= lit.End() {
		return false // declared inside the literal (parameters included)
	}
	ts := v.Type().String()
	if strings.Contains(ts, "sync.") || strings.Contains(ts, "vsched.") || isChan(v.Type()) {
		return false
	}
	if _, isFunc := v.Type().Underlying().(*types.Signature); isFunc {
		return false
	}
	return true
}

// shallowRefsGlobal: does the statement itself (not the statements nested in its blocks, not function
// literals) name a package-level variable or, inside the function literal lit, a captured local?
func (r *rewriter) shallowRefsGlobal(st ast.Stmt, lit *ast.FuncLit) bool {
	found := false
	var visit func(n ast.Node) bool
	visit = func(n ast.Node) bool {
		if found || n == nil {
			return false
		}
		switch x := n.(type) {
		case *ast.BlockStmt, *ast.FuncLit, *ast.CaseClause, *ast.CommClause:
			return false
		case *ast.Ident:
			if r.isGlobalVar(x) || r.isCaptured(x, lit) {
				found = true
			}
		}
		return true
	}
	switch x := st.(type) {
	case *ast.BlockStmt:
		return false
	case *ast.LabeledStmt:
		return r.shallowRefsGlobal(x.Stmt, lit)
	case *ast.IfStmt:
		if x.Init != nil {
			ast.Inspect(x.Init, visit)
		}
		ast.Inspect(x.Cond, visit)
	case *ast.ForStmt:
		if x.Init != nil {
			ast.Inspect(x.Init, visit)
		}
		if x.Cond != nil {
			ast.Inspect(x.Cond, visit)
		}
		if x.Post != nil {
			ast.Inspect(x.Post, visit)
		}
	case *ast.RangeStmt:
		ast.Inspect(x.X, visit)
	case *ast.SwitchStmt:
		if x.Init != nil {
			ast.Inspect(x.Init, visit)
		}
		if x.Tag != nil {
			ast.Inspect(x.Tag, visit)
		}
	case *ast.TypeSwitchStmt:
		if x.Init != nil {
			ast.Inspect(x.Init, visit)
		}
		ast.Inspect(x.Assign, visit)
	case *ast.SelectStmt:
		return false
	default:
		ast.Inspect(st, visit)
	}
	return found
}

func (r *rewriter) markGlobalAccesses() map[ast.Stmt]bool {
	marks := map[ast.Stmt]bool{}
	var walk func(n ast.Node, lit *ast.FuncLit)
	walk = func(n ast.Node, lit *ast.FuncLit) {
		ast.Inspect(n, func(m ast.Node) bool {
			if m == nil {
				return false
			}
			if fl, ok := m.(*ast.FuncLit); ok && m != n {
				walk(fl.Body, fl) // statements of a nested literal are judged against that literal
				return false
			}
			var list []ast.Stmt
			switch x := m.(type) {
			case *ast.BlockStmt:
				list = x.List
			case *ast.CaseClause:
				list = x.Body
			case *ast.CommClause:
				list = x.Body
			}
			for _, st := range list {
				if r.shallowRefsGlobal(st, lit) {
					marks[st] = true
				}
			}
			return true
		})
	}
	for _, d := range r.file.Decls {
		if fd, ok := d.(*ast.FuncDecl); ok && fd.Body != nil {
			walk(fd.Body, nil)
		}
	}
	return marks
}

func gpCall() ast.Stmt { return &ast.ExprStmt{X: &ast.CallExpr{Fun: sel("vsched", "GP")}} }

// simpleFollowable: a point may be placed after the statement (it does not end the flow of control and is
// not a compound statement).
func simpleFollowable(st ast.Stmt) bool {
	switch x := st.(type) {
	case *ast.AssignStmt, *ast.IncDecStmt, *ast.DeclStmt:
		return true
	case *ast.ExprStmt:
		if c, ok := x.X.(*ast.CallExpr); ok {
			if id, ok := c.Fun.(*ast.Ident); ok && id.Name == "panic" {
				return false
			}
		}
		return true
	}
	return false
}

func (r *rewriter) insertGlobalPoints(marks map[ast.Stmt]bool) {
	if len(marks) == 0 {
		return
	}
	fix := func(list []ast.Stmt) []ast.Stmt {
		var out []ast.Stmt
		changed := false
		for _, st := range list {
			if marks[st] {
				changed = true
				r.count("globalpoint")
				out = append(out, gpCall(), st)
				if simpleFollowable(st) {
					out = append(out, gpCall())
				}
				continue
			}
			out = append(out, st)
		}
		if !changed {
			return list
		}
		return out
	}
	ast.Inspect(r.file, func(n ast.Node) bool {
		switch x := n.(type) {
		case *ast.BlockStmt:
			x.List = fix(x.List)
		case *ast.CaseClause:
			x.Body = fix(x.Body)
		case *ast.CommClause:
			x.Body = fix(x.Body)
		}
		return true
	})
}

// writeExport prints the export file of one package: functions with type errors become stubs that panic
// with a recognisable message, and VerifGlobals is regenerated from the package scope (every package-level
// variable except pools and function values).
func writeExport(fset *token.FileSet, f *ast.File, errs []types.Error, pkg *types.Package, outDir, target string, overlay map[string]string) {
	bad := map[*ast.FuncDecl]bool{}
	for _, e := range errs {
		hit := false
		for _, d := range f.Decls {
			if fd, ok := d.(*ast.FuncDecl); ok && fd.Pos() <= e.Pos && e.Pos <= fd.End() {
				bad[fd] = true
				hit = true
			}
		}
		if !hit {
			fmt.Fprintln(os.Stderr, "export file error outside a function:", e)
		}
	}
	for _, d := range f.Decls {
		fd, ok := d.(*ast.FuncDecl)
		if !ok {
			continue
		}
		if bad[fd] {
			fmt.Println("export stubbed:", pkg.Path(), fd.Name.Name)
			fd.Body = &ast.BlockStmt{List: []ast.Stmt{&ast.ExprStmt{X: &ast.CallExpr{Fun: ast.NewIdent("panic"),
				Args: []ast.Expr{&ast.BasicLit{Kind: token.STRING, Value: fmt.Sprintf("%q", "verif: seam unavailable: "+fd.Name.Name)}}}}}}
			continue
		}
		if fd.Name.Name == "VerifGlobals" && pkg != nil {
			var elts []ast.Expr
			names := pkg.Scope().Names()
			sort.Strings(names)
			for _, n := range names {
				v, ok := pkg.Scope().Lookup(n).(*types.Var)
				if !ok || n == "_" || strings.HasPrefix(n, "Verif") {
					continue
				}
				ts := v.Type().String()
				if strings.Contains(ts, "sync.Pool") || strings.Contains(ts, "vsched.Pool") {
					continue
				}
				if _, isFunc := v.Type().Underlying().(*types.Signature); isFunc {
					continue
				}
				baselineLines = append(baselineLines, pkg.Path()+" "+n)
				if baseline != nil && !baseline[pkg.Path()+" "+n] {
					continue
				}
				elts = append(elts, &ast.UnaryExpr{Op: token.AND, X: ast.NewIdent(n)})
			}
			fd.Body = &ast.BlockStmt{List: []ast.Stmt{&ast.ReturnStmt{Results: []ast.Expr{&ast.CompositeLit{
				Type: &ast.ArrayType{Elt: &ast.InterfaceType{Methods: &ast.FieldList{}}}, Elts: elts}}}}}
		}
	}
	var buf bytes.Buffer
	if err := printer.Fprint(&buf, fset, f); err != nil {
		panic(err)
	}
	dst := filepath.Join(outDir, "export__"+strings.ReplaceAll(strings.TrimPrefix(pkg.Path(), modPath), "/", "_")+".go")
	if err := os.WriteFile(dst, buf.Bytes(), 0o644); err != nil {
		panic(err)
	}
	overlay[target] = dst
}
