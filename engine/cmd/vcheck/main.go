// vcheck: one binary, one sub-command per property. Built by /verif/vrun with -overlay from /repo's
// current working tree.
package main

import (
	"encoding/json"
	"flag"
	"fmt"
	"os"
	"strconv"

	"verif.local/engine/checks"
	"verif.local/engine/core"
)

func main() {
	prop := flag.String("prop", "", "property id")
	tier := flag.String("tier", "quick", "quick|thorough")
	seed := flag.Int64("seed", -1, "seed for PRF-derived alphabet members (default $VERIF_SEED or 1)")
	worker := flag.Bool("worker", false, "internal: worker mode")
	unit := flag.String("unit", "", "run only this unit (no evidence written)")
	replay := flag.String("replay", "", "replay file")
	verif := flag.String("verif", "/verif", "verification directory")
	list := flag.Bool("list", false, "list units")
	rununit := flag.String("rununit", "", "internal: run one unit in-process and print its result as JSON")
	flag.Parse()
	if *seed < 0 {
		*seed = 1
		if s := os.Getenv("VERIF_SEED"); s != "" {
			if v, err := strconv.ParseInt(s, 10, 64); err == nil {
				*seed = v & 0x7fffffffffffffff
			}
		}
	}
	if *replay != "" {
		b, err := os.ReadFile(*replay)
		if err != nil {
			fmt.Println("cannot read replay file:", err)
			os.Exit(3)
		}
		var f struct {
			Violation core.Violation `json:"violation"`
			Tier      string         `json:"tier"`
			Seed      int64          `json:"seed"`
		}
		if err := json.Unmarshal(b, &f); err != nil {
			fmt.Println("bad replay file:", err)
			os.Exit(3)
		}
		*prop, *tier, *seed, *unit = f.Violation.Property, f.Tier, f.Seed, f.Violation.Unit
		fmt.Printf("replaying unit %s of %s (%s, seed %d); recorded: check=%s api=%s input=%s\n", *unit, *prop, *tier, *seed, f.Violation.Check, f.Violation.API, f.Violation.Input)
	}
	c := core.Lookup(*prop)
	if c == nil {
		fmt.Println("unknown property", *prop, "known:", core.IDs())
		os.Exit(3)
	}
	ctx := &core.Ctx{Tier: *tier, Seed: *seed}
	checks.SetTier(*tier)
	if *list {
		for _, u := range c.Units(ctx) {
			fmt.Println(u.Name)
		}
		return
	}
	if *rununit != "" {
		os.Exit(core.RunUnitJSON(c, ctx, *rununit))
	}
	if *worker {
		core.WorkerMain(c, ctx)
		return
	}
	os.Exit(core.MasterMain(c, ctx, *verif, *unit))
}
