//go:build verif

package ipa

import "github.com/crate-crypto/go-ipa/bandersnatch/fr"

func VerifComputeBVector(ic *IPAConfig, z fr.Element) []fr.Element { return computeBVector(ic, z) }
func VerifNumRounds(ic *IPAConfig) uint32                          { return ic.numRounds }
func VerifBarycentricWeights(p *PrecomputedWeights) []fr.Element    { return p.barycentricWeights }
func VerifInvertedDomain(p *PrecomputedWeights) []fr.Element        { return p.invertedDomain }
func VerifGlobals() []interface{} {
	return []interface{}{&maxEvalPointInsideDomain, &labelDomainSep, &labelC, &labelInputPoint, &labelOutputPoint, &labelW, &labelL, &labelR, &labelX}
}
