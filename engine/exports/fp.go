//go:build verif

package fp

func VerifInvSqrtEqDyadic(z *Element) bool { return invSqrtEqDyadic(z) }
func VerifComputeRelevantPowers(z *Element, cand *Element, rou *Element) {
	sqrtAlg_ComputeRelevantPowers(z, cand, rou)
}
func VerifDyadicRootOfUnity() Element { return sqrtPrecomp_PrimitiveDyadicRoots[0] }

func VerifGlobals() []interface{} {
	return []interface{}{&sqrtPrecomp_PrimitiveDyadicRoots, &sqrtPrecomp_ReconstructionDyadicRoot, &sqrtPrecomp_PrecomputedBlocks, &sqrtPrecomp_dlogLUT}
}
