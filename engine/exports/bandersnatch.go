//go:build verif

package bandersnatch

import "github.com/crate-crypto/go-ipa/bandersnatch/fr"

func VerifPartitionScalars(scalars []fr.Element, c uint64, scalarsMont bool, nbTasks int) ([]fr.Element, int) {
	return partitionScalars(scalars, c, scalarsMont, nbTasks)
}
func VerifMsmInner(p *PointProj, c int, points []PointAffine, scalars []fr.Element, splitFirstChunk bool) {
	msmInnerPointProj(p, c, points, scalars, splitFirstChunk)
}
func VerifGlobals() []interface{} {
	return []interface{}{&CurveParams, &Identity, &IdentityExt}
}
