//go:build verif

package banderwagon

import "github.com/crate-crypto/go-ipa/bandersnatch"

func VerifInner(p *Element) *bandersnatch.PointProj   { return &p.inner }
func VerifFromProj(p bandersnatch.PointProj) Element  { return Element{inner: p} }
func VerifWindows(m *MSMPrecomp, i int) [][]bandersnatch.PointExtendedNormalized {
	return m.precompPoints[i].windows
}
func VerifWindowSize(m *MSMPrecomp, i int) int { return m.precompPoints[i].windowSize }
func VerifBatchProjToAffine(points []bandersnatch.PointProj) []bandersnatch.PointAffine {
	return batchProjToAffine(points)
}
func VerifGlobals() []interface{} {
	return []interface{}{&Generator, &Identity}
}
