//go:build verif

package parallel

func VerifGlobals() []interface{} { return nil }
