//go:build verif

package multiproof

import (
	"github.com/crate-crypto/go-ipa/bandersnatch/fr"
	"github.com/crate-crypto/go-ipa/common"
)

func VerifGroup(fs [][]fr.Element, powersOfR []fr.Element, zs []uint8) [common.VectorLength][]fr.Element {
	return groupPolynomialsByEvaluationPoint(fs, powersOfR, zs)
}
func VerifGlobals() []interface{} {
	return []interface{}{&labelC, &labelZ, &labelY, &labelD, &labelE, &labelT, &labelR, &labelDomainSep}
}
