//go:build verif

package fr

// Verification-only exports (injected with -overlay, never committed to the repository).

func VerifMulGeneric(z, x, y *Element)    { _mulGeneric(z, x, y) }
func VerifFromMontGeneric(z *Element)     { _fromMontGeneric(z) }
func VerifAddGeneric(z, x, y *Element)    { _addGeneric(z, x, y) }
func VerifDoubleGeneric(z, x *Element)    { _doubleGeneric(z, x) }
func VerifSubGeneric(z, x, y *Element)    { _subGeneric(z, x, y) }
func VerifNegGeneric(z, x *Element)       { _negGeneric(z, x) }
func VerifReduceGeneric(z *Element)       { _reduceGeneric(z) }
func VerifButterflyGeneric(a, b *Element) { _butterflyGeneric(a, b) }
func VerifMulByConstant(z *Element, c uint8) { mulByConstant(z, c) }
func VerifSupportAdx() bool               { return supportAdx }

// VerifGlobals returns pointers to the package-level variables (for purity fingerprints).
func VerifGlobals() []interface{} {
	return []interface{}{&_modulus, &qElement, &rSquare, &_bLegendreExponentElement, &_bSqrtExponentElement}
}
