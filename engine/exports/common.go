//go:build verif

package common

func VerifGlobals() []interface{} { return nil }
