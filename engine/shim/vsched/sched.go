// Package vsched is the verification shim that stands in for Go's concurrency primitives in the
// instrumented build of go-ipa (injected with `go build -overlay`, never committed to /repo).
//
// Two modes:
//   - pass-through (no exploration active): every operation delegates to the native primitive, so the
//     same binary runs input enumerations, free-running and -race configurations at native speed;
//   - controlled: managed goroutines are real goroutines that run one at a time; each parks before every
//     visible operation and a Strategy (the explorer) decides which enabled goroutine runs next and what
//     every environment choice point (sync.Pool answer, map iteration order) returns.
package vsched

import (
	"fmt"
	"reflect"
	"runtime"
	"sort"
	"sync"
	"time"
)

// ---------- configuration seams ----------

var numCPUOverride int

// SetNumCPU overrides what the instrumented code sees as runtime.NumCPU(); 0 restores the real value.
func SetNumCPU(n int) { numCPUOverride = n }

// NumCPU replaces runtime.NumCPU() in instrumented files.
func NumCPU() int {
	if numCPUOverride > 0 {
		return numCPUOverride
	}
	return runtime.NumCPU()
}

// GoMaxProcs replaces runtime.GOMAXPROCS in instrumented files: a query (n < 1) answers the CPU-count
// override when one is set (a process restricted to k CPUs normally runs with GOMAXPROCS = k); a setting
// call is passed through.
func GoMaxProcs(n int) int {
	if n < 1 && goMaxProcsOverride > 0 {
		return goMaxProcsOverride
	}
	if n < 1 && numCPUOverride > 0 {
		return numCPUOverride
	}
	return runtime.GOMAXPROCS(n)
}

var goMaxProcsOverride int

// SetGoMaxProcs overrides what a GOMAXPROCS query sees independently of the CPU count (0 = follow SetNumCPU).
func SetGoMaxProcs(n int) { goMaxProcsOverride = n }

// Instrumented reports that the concurrency rewrite is compiled in (the harness uses it to tell the
// scheduled flavour from the exports-only fallback flavour).
var Instrumented = false

// ---------- scheduler ----------

// Op kinds (visible operations).
const (
	OpStart = iota
	OpSend
	OpSendWait // unbuffered: waiting for pickup
	OpRecv
	OpClose
	OpWGAdd
	OpWGDone
	OpWGWait
	OpPoolGet
	OpPoolPut
	OpYield
	OpExit
	OpLock
	OpUnlock
	OpRLock
	OpRUnlock
	OpOnce
	OpCounterAdd
	OpCounterRead
	OpAtomicLoad
	OpAtomicRMW // store, add, swap, compare-and-swap: writes (read-modify-writes also acquire)
	OpNever
)

var OpNames = []string{"start", "send", "sendwait", "recv", "close", "wgadd", "wgdone", "wgwait", "poolget", "poolput", "yield", "exit", "lock", "unlock", "rlock", "runlock", "once", "ctradd", "ctrread", "atomicload", "atomicrmw", "never"}

type VC map[string]int

// vcOff: set for the duration of a Run whose strategy does not read vector clocks (replay / bounded search):
// clock maintenance is quadratic in the number of goroutines and dominates long executions otherwise.
var vcOff bool

// ClockFree is implemented by strategies that never look at GView.VC / ObjVC.
type ClockFree interface{ ClockFree() bool }

func joinInto(dst, src VC) {
	if vcOff {
		return
	}
	for k, v := range src {
		if dst[k] < v {
			dst[k] = v
		}
	}
}
func copyVC(src VC) VC {
	if vcOff {
		return nil
	}
	m := make(VC, len(src)+1)
	for k, v := range src {
		m[k] = v
	}
	return m
}

// G is a managed goroutine.
type G struct {
	id      string
	nspawn  int
	resume  chan bool // true = continue, false = abort
	kind    int
	obj     interface{}
	aux     int
	done    bool
	panicV  interface{}
	panicSt []byte
	vc      VC
	nobj    int
}

// GView is the scheduler-level view of a live goroutine at a decision point.
type GView struct {
	ID      string
	Enabled bool
	Kind    int
	Obj     interface{}
	VC      VC
	ObjVC   VC // clock the pending operation will join when it executes (nil if none): with VC it gives the clock of the goroutine's NEXT transition
}

type vcHolder interface{ objVC() VC }

func (c *Chan[T]) objVC() VC { return c.vc }
func (m *Mutex) objVC() VC   { return m.vc }
func (m *RWMutex) objVC() VC { return m.vc }
func (o *Once) objVC() VC    { return o.vc }

// pendingObjVC: the object clock that g's pending operation joins into g (the happens-before edges the
// operation will acquire), or nil.
func pendingObjVC(g *G) VC {
	switch g.kind {
	case OpSend, OpSendWait, OpRecv, OpClose, OpLock, OpRLock, OpOnce:
		if h, ok := g.obj.(vcHolder); ok {
			return h.objVC()
		}
	case OpWGWait:
		return g.obj.(*WaitGroup).vc
	case OpCounterRead:
		return g.obj.(*Counter).vc
	case OpAtomicLoad, OpAtomicRMW:
		return g.obj.(*AtomicCell).vc
	}
	return nil
}

// Strategy owns every nondeterministic decision of a controlled execution.
type Strategy interface {
	// PickSched is called before every transition. view lists the live goroutines in id order, enabled the
	// ids of the enabled ones in canonical order (the goroutine that ran last first if still enabled, then
	// ascending id). It returns the index into enabled of the goroutine to run, or abort=true.
	PickSched(view []GView, enabled []string, lastClock int) (idx int, abort bool)
	// PickData is called at every environment choice point with n >= 2 alternatives; 0 is the default.
	PickData(n int, kind string) int
	// Final is called once when no goroutine is enabled any more (normal end, leak or deadlock) with the
	// goroutines that are still alive (blocked): their pending operations take part in race detection too.
	Final(view []GView, lastClock int)
}

// Sched is one controlled execution.
type Sched struct {
	atomics     map[uintptr]*AtomicCell
	postPending bool
	gpCount     int
	gs          []*G
	sorted      []*G // live and finished goroutines in id order
	parked      chan *G
	strat       Strategy
	last        *G
	Deadlock    bool   // no enabled goroutine while the root has not finished
	Leaked      int    // goroutines still blocked after the root and everything enabled finished
	Blocked     string // description of the blocked goroutines at a deadlock/leak
	Panics      []string
	aborting    bool
	WasCut      bool
	Steps       int // executed transitions
	SchedPts    int // transitions at which >= 2 goroutines were enabled
	DataPts     int // environment choice points with >= 2 alternatives
	MaxEn       int
	Collide     int // scheduling points where >= 2 enabled goroutines address the same shim object
	nobj        int
	lastClock   int
	StepLimit   int
	HitLimit    bool
}

var cur *Sched

// Deadline, when non-zero, cuts a controlled execution that is still running at that time (reported as a
// cap by the explorer, never as a violation).
var Deadline time.Time

// Active reports whether a controlled execution is running.
func Active() bool { return cur != nil }

func newSched(st Strategy) *Sched {
	return &Sched{parked: make(chan *G), strat: st, StepLimit: 2000000}
}

// Run executes body under the controlled scheduler. Not re-entrant; one exploration per process.
func Run(body func(), st Strategy) *Sched {
	if cur != nil {
		panic("vsched: nested controlled execution")
	}
	s := newSched(st)
	cur = s
	if cf, ok := st.(ClockFree); ok && cf.ClockFree() {
		vcOff = true
	}
	defer func() { cur = nil; vcOff = false }()
	root := &G{id: "0", resume: make(chan bool), vc: VC{}}
	s.gs = append(s.gs, root)
	s.sorted = append(s.sorted, root)
	s.launch(root, body)
	s.loop()
	return s
}

func (g *G) tick() {
	if !vcOff {
		g.vc[g.id]++
	}
}

func (s *Sched) launch(g *G, f func()) {
	g.kind = OpStart
	go func() {
		defer func() {
			if r := recover(); r != nil {
				g.panicV = r
				buf := make([]byte, 16384)
				g.panicSt = buf[:runtime.Stack(buf, false)]
			}
			g.done = true
			g.kind = OpExit
			s.parked <- g
		}()
		if !<-g.resume {
			runtime.Goexit()
		}
		g.tick()
		f()
	}()
}

type chanState interface {
	canSend() bool
	canRecv() bool
	picked(seq int) bool
}

func (s *Sched) enabled(g *G) bool {
	if g.done {
		return false
	}
	switch g.kind {
	case OpStart, OpClose, OpWGAdd, OpWGDone, OpPoolGet, OpPoolPut, OpYield, OpCounterAdd, OpCounterRead, OpUnlock, OpRUnlock, OpAtomicLoad, OpAtomicRMW:
		return true
	case OpSend:
		return g.obj.(chanState).canSend()
	case OpSendWait:
		return g.obj.(chanState).picked(g.aux)
	case OpRecv:
		return g.obj.(chanState).canRecv()
	case OpWGWait:
		return g.obj.(*WaitGroup).n == 0
	case OpLock:
		return g.obj.(lockState).canLock()
	case OpRLock:
		return g.obj.(lockState).canRLock()
	case OpOnce:
		return !g.obj.(*Once).running
	}
	return false
}

// FamilyAffinity changes the canonical order of the enabled list (see loop); set by a harness around its
// exploration, never while an execution is running.
var FamilyAffinity bool

func family(id string) string {
	dots := 0
	for i := 0; i < len(id); i++ {
		if id[i] == '.' {
			dots++
			if dots == 2 {
				return id[:i]
			}
		}
	}
	return id
}

func (s *Sched) loop() {
	for {
		var en []*G
		if s.last != nil && s.enabled(s.last) {
			en = append(en, s.last)
		}
		if FamilyAffinity && s.last != nil {
			// harnesses of concurrent top-level calls: after the goroutine that ran last, the goroutines of the
			// same call (same "0.k" prefix) come first, so that the default continuation stays inside one call
			// until nothing of it is enabled — "run the other caller now" is then a single deviation
			fam := family(s.last.id)
			for _, g := range s.sorted {
				if g != s.last && family(g.id) == fam && s.enabled(g) {
					en = append(en, g)
				}
			}
			for _, g := range s.sorted {
				if g != s.last && family(g.id) != fam && s.enabled(g) {
					en = append(en, g)
				}
			}
		} else {
			for _, g := range s.sorted {
				if g != s.last && s.enabled(g) {
					en = append(en, g)
				}
			}
		}
		if len(en) == 0 {
			var fview []GView
			for _, g := range s.sorted {
				if !g.done {
					fview = append(fview, GView{ID: g.id, Enabled: false, Kind: g.kind, Obj: g.obj, VC: g.vc, ObjVC: pendingObjVC(g)})
				}
			}
			s.strat.Final(fview, s.lastClock)
			alive := 0
			for _, g := range s.gs {
				if !g.done {
					alive++
					s.Blocked += fmt.Sprintf("%s:%s ", g.id, OpNames[g.kind])
				}
			}
			if alive > 0 {
				if !s.gs[0].done {
					s.Deadlock = true
				} else {
					s.Leaked = alive
				}
				s.abortAll()
			}
			return
		}
		if s.Steps >= s.StepLimit || (s.Steps&255 == 255 && !Deadline.IsZero() && time.Now().After(Deadline)) {
			s.HitLimit = true
			s.WasCut = true
			s.abortAll()
			return
		}
		var view []GView
		if !vcOff { // clock-free strategies decide from the enabled list alone
			view = make([]GView, 0, len(s.sorted))
			for _, g := range s.sorted {
				if g.done {
					continue
				}
				view = append(view, GView{ID: g.id, Enabled: s.enabled(g), Kind: g.kind, Obj: g.obj, VC: g.vc, ObjVC: pendingObjVC(g)})
			}
		}
		ids := make([]string, len(en))
		for i, g := range en {
			ids[i] = g.id
		}
		if len(en) > 1 {
			s.SchedPts++
			if len(en) > s.MaxEn {
				s.MaxEn = len(en)
			}
			seen := map[interface{}]bool{}
			for _, g := range en {
				if g.obj != nil {
					if seen[g.obj] {
						s.Collide++
						break
					}
					seen[g.obj] = true
				}
			}
		}
		k, abort := s.strat.PickSched(view, ids, s.lastClock)
		if abort {
			s.WasCut = true
			s.abortAll()
			return
		}
		if k < 0 || k >= len(en) {
			panic(fmt.Sprintf("vsched: strategy chose %d of %d enabled (diverging replay)", k, len(en)))
		}
		g := en[k]
		s.last = g
		s.Steps++
		g.resume <- true
		pg := <-s.parked
		s.lastClock = g.vc[g.id]
		if pg.panicV != nil {
			s.Panics = append(s.Panics, fmt.Sprintf("goroutine %s: %v\n%s", pg.id, pg.panicV, pg.panicSt))
			pg.panicV = nil
			s.abortAll()
			return
		}
	}
}

// LastClock returns the clock of the goroutine that ran last, after its transition (used by DPOR after
// the final transition of an execution).
func (s *Sched) LastClock() int { return s.lastClock }

func (s *Sched) abortAll() {
	s.aborting = true
	for _, g := range s.gs {
		if !g.done {
			s.last = g
			g.resume <- false
			<-s.parked
		}
	}
}

// park is called by the running managed goroutine before a visible operation.
func (s *Sched) park(kind int, obj interface{}, aux int) {
	if s.aborting {
		return
	}
	g := s.last
	g.kind, g.obj, g.aux = kind, obj, aux
	s.parked <- g
	if !<-g.resume {
		runtime.Goexit()
	}
}

func (s *Sched) pickData(n int, kind string) int {
	if n < 2 || s.aborting {
		return 0
	}
	s.DataPts++
	k := s.strat.PickData(n, kind)
	if k < 0 || k >= n {
		panic(fmt.Sprintf("vsched: strategy answered %d of %d at a %s choice point (diverging replay)", k, n, kind))
	}
	return k
}

// Yield is a visible no-op for harness code.
func Yield() {
	if s := cur; s != nil {
		s.park(OpYield, nil, 0)
		s.last.tick()
	}
}

// Choose is an explicit environment choice point for harness code (0 outside an exploration).
func Choose(n int, kind string) int {
	if s := cur; s != nil {
		return s.pickData(n, kind)
	}
	return 0
}

func (s *Sched) objID() string {
	g := s.last
	if g == nil {
		s.nobj++
		return fmt.Sprintf("pre#%d", s.nobj)
	}
	g.nobj++
	return fmt.Sprintf("%s#%d", g.id, g.nobj)
}

func spawn(f func()) {
	s := cur
	if s == nil {
		go f()
		return
	}
	if s.aborting {
		return
	}
	parent := s.last
	g := &G{id: fmt.Sprintf("%s.%d", parent.id, parent.nspawn), resume: make(chan bool), vc: copyVC(parent.vc)}
	parent.nspawn++
	parent.tick()
	s.gs = append(s.gs, g)
	k := sort.Search(len(s.sorted), func(i int) bool { return s.sorted[i].id >= g.id })
	s.sorted = append(s.sorted, nil)
	copy(s.sorted[k+1:], s.sorted[k:])
	s.sorted[k] = g
	s.launch(g, f)
}

// ---------- Go helpers (eager evaluation of function value and arguments, as the go statement does) ----------

func Go0(f func())                                    { spawn(f) }
func Go1[A any](f func(A), a A)                       { spawn(func() { f(a) }) }
func Go2[A, B any](f func(A, B), a A, b B)            { spawn(func() { f(a, b) }) }
func Go3[A, B, C any](f func(A, B, C), a A, b B, c C) { spawn(func() { f(a, b, c) }) }
func Go4[A, B, C, D any](f func(A, B, C, D), a A, b B, c C, d D) {
	spawn(func() { f(a, b, c, d) })
}
func Go5[A, B, C, D, E any](f func(A, B, C, D, E), a A, b B, c C, d D, e E) {
	spawn(func() { f(a, b, c, d, e) })
}
func Go6[A, B, C, D, E, F any](f func(A, B, C, D, E, F), a A, b B, c C, d D, e E, ff F) {
	spawn(func() { f(a, b, c, d, e, ff) })
}
func Go7[A, B, C, D, E, F, H any](f func(A, B, C, D, E, F, H), a A, b B, c C, d D, e E, ff F, h H) {
	spawn(func() { f(a, b, c, d, e, ff, h) })
}
func Go8[A, B, C, D, E, F, H, I any](f func(A, B, C, D, E, F, H, I), a A, b B, c C, d D, e E, ff F, h H, i I) {
	spawn(func() { f(a, b, c, d, e, ff, h, i) })
}

// ---------- channels ----------

type item[T any] struct {
	v   T
	seq int
}

type Chan[T any] struct {
	owner   *Sched // controlled execution the modelled state belongs to (a long-lived channel starts every execution empty)
	vc      VC
	id      string
	real    chan T
	cap     int
	buf     []item[T]
	closed  bool
	seq     int
	picked_ int // highest sequence number picked up (unbuffered)
}

func MakeChan[T any](n int) *Chan[T] {
	c := &Chan[T]{real: make(chan T, n), cap: n}
	if s := cur; s != nil {
		c.owner = s
		c.id = s.objID()
		c.vc = VC{}
	}
	return c
}

// enter resets the modelled state of a channel that outlives one controlled execution (package-level
// channels): every execution starts from the same state.
func (c *Chan[T]) enter(s *Sched) {
	if c.owner != s {
		c.owner = s
		c.buf, c.closed, c.seq, c.picked_, c.vc = nil, false, 0, 0, nil
	}
}

func (c *Chan[T]) sync(s *Sched) {
	g := s.last
	if c.vc == nil {
		c.vc = VC{}
		c.id = s.objID()
	}
	joinInto(g.vc, c.vc)
	g.tick()
	c.vc = copyVC(g.vc)
}

func (c *Chan[T]) canSend() bool {
	if c.closed {
		return true // will panic, like Go
	}
	if c.cap == 0 {
		return len(c.buf) == 0
	}
	return len(c.buf) < c.cap
}
func (c *Chan[T]) canRecv() bool       { return len(c.buf) > 0 || c.closed }
func (c *Chan[T]) picked(seq int) bool { return c.picked_ >= seq }

func (c *Chan[T]) Send(v T) {
	s := cur
	if s == nil {
		if c == nil {
			var n chan T
			n <- v
		}
		c.real <- v
		return
	}
	if s.aborting {
		return
	}
	if c == nil {
		s.park(OpNever, nil, 0)
		return
	}
	c.enter(s)
	s.park(OpSend, c, 0)
	if c.closed {
		panic("send on closed channel")
	}
	c.sync(s)
	c.seq++
	c.buf = append(c.buf, item[T]{v, c.seq})
	if c.cap == 0 {
		s.park(OpSendWait, c, c.seq)
		c.sync(s)
	}
}

func (c *Chan[T]) Recv() T { v, _ := c.Recv2(); return v }

func (c *Chan[T]) Recv2() (T, bool) {
	s := cur
	if s == nil {
		if c == nil {
			var n chan T
			v, ok := <-n
			return v, ok
		}
		v, ok := <-c.real
		return v, ok
	}
	var z T
	if s.aborting {
		return z, false
	}
	if c == nil {
		s.park(OpNever, nil, 0)
		return z, false
	}
	c.enter(s)
	s.park(OpRecv, c, 0)
	c.sync(s)
	if len(c.buf) == 0 {
		return z, false
	}
	it := c.buf[0]
	c.buf = c.buf[1:]
	c.picked_ = it.seq
	return it.v, true
}

func (c *Chan[T]) Close() {
	s := cur
	if s == nil {
		close(c.real)
		return
	}
	if s.aborting {
		return
	}
	c.enter(s)
	s.park(OpClose, c, 0)
	c.sync(s)
	if c.closed {
		panic("close of closed channel")
	}
	c.closed = true
}

func (c *Chan[T]) Len() int {
	if cur == nil {
		return len(c.real)
	}
	if c.cap == 0 {
		return 0
	}
	return len(c.buf)
}
func (c *Chan[T]) Cap() int { return c.cap }

// ---------- WaitGroup ----------

type WaitGroup struct {
	real  sync.WaitGroup
	n     int
	vc    VC
	owner *Sched
}

func (w *WaitGroup) enter(s *Sched) {
	if w.owner != s {
		w.owner, w.n, w.vc = s, 0, nil
	}
}

func (w *WaitGroup) Add(d int) {
	s := cur
	if s == nil {
		w.real.Add(d)
		return
	}
	if s.aborting {
		return
	}
	w.enter(s)
	s.park(OpWGAdd, w, d)
	s.last.tick()
	w.n += d
	if w.n < 0 {
		panic("sync: negative WaitGroup counter")
	}
	if d < 0 {
		if w.vc == nil {
			w.vc = VC{}
		}
		joinInto(w.vc, s.last.vc)
	}
}
func (w *WaitGroup) Done() {
	s := cur
	if s == nil {
		w.real.Done()
		return
	}
	if s.aborting {
		return
	}
	w.enter(s)
	s.park(OpWGDone, w, 0)
	s.last.tick()
	if w.vc == nil {
		w.vc = VC{}
	}
	joinInto(w.vc, s.last.vc)
	w.n--
	if w.n < 0 {
		panic("sync: negative WaitGroup counter")
	}
}
func (w *WaitGroup) Wait() {
	s := cur
	if s == nil {
		w.real.Wait()
		return
	}
	if s.aborting {
		return
	}
	w.enter(s)
	s.park(OpWGWait, w, 0)
	if w.vc != nil {
		joinInto(s.last.vc, w.vc)
	}
	s.last.tick()
}

// ---------- Mutex / RWMutex / Once (not used by the code base today; present so that an edited tree is
// still owned by the scheduler) ----------

type lockState interface {
	canLock() bool
	canRLock() bool
}

type Mutex struct {
	real   sync.Mutex
	locked bool
	vc     VC
	owner  *Sched // the controlled execution the state belongs to: a package-level mutex of the code under
	// test starts every execution unlocked (an execution that was cut may have ended with the lock held)
}

func (m *Mutex) enter(s *Sched) {
	if m.owner != s {
		m.owner, m.locked, m.vc = s, false, nil
	}
}

func (m *Mutex) canLock() bool  { return !m.locked }
func (m *Mutex) canRLock() bool { return !m.locked }
func (m *Mutex) Lock() {
	s := cur
	if s == nil {
		m.real.Lock()
		return
	}
	if s.aborting {
		return
	}
	m.enter(s)
	s.park(OpLock, m, 0)
	if m.vc != nil {
		joinInto(s.last.vc, m.vc)
	}
	s.last.tick()
	m.locked = true
}
func (m *Mutex) TryLock() bool {
	s := cur
	if s == nil {
		return m.real.TryLock()
	}
	if s.aborting {
		return true
	}
	m.enter(s)
	s.park(OpYield, m, 0)
	if m.locked {
		return false
	}
	if m.vc != nil {
		joinInto(s.last.vc, m.vc)
	}
	s.last.tick()
	m.locked = true
	return true
}
func (m *Mutex) Unlock() {
	s := cur
	if s == nil {
		m.real.Unlock()
		return
	}
	if s.aborting {
		return
	}
	m.enter(s)
	s.park(OpUnlock, m, 0)
	if !m.locked {
		panic("sync: unlock of unlocked mutex")
	}
	s.last.tick()
	m.vc = copyVC(s.last.vc)
	m.locked = false
	s.post()
}

type RWMutex struct {
	real    sync.RWMutex
	writer  bool
	readers int
	vc      VC
	owner   *Sched
}

func (m *RWMutex) enter(s *Sched) {
	if m.owner != s {
		m.owner, m.writer, m.readers, m.vc = s, false, 0, nil
	}
}

func (m *RWMutex) canLock() bool  { return !m.writer && m.readers == 0 }
func (m *RWMutex) canRLock() bool { return !m.writer }
func (m *RWMutex) Lock() {
	s := cur
	if s == nil {
		m.real.Lock()
		return
	}
	if s.aborting {
		return
	}
	m.enter(s)
	s.park(OpLock, m, 0)
	if m.vc != nil {
		joinInto(s.last.vc, m.vc)
	}
	s.last.tick()
	m.writer = true
}
func (m *RWMutex) Unlock() {
	s := cur
	if s == nil {
		m.real.Unlock()
		return
	}
	if s.aborting {
		return
	}
	m.enter(s)
	s.park(OpUnlock, m, 0)
	s.last.tick()
	m.vc = copyVC(s.last.vc)
	m.writer = false
	s.post()
}
func (m *RWMutex) RLock() {
	s := cur
	if s == nil {
		m.real.RLock()
		return
	}
	if s.aborting {
		return
	}
	m.enter(s)
	s.park(OpRLock, m, 0)
	if m.vc != nil {
		joinInto(s.last.vc, m.vc)
	}
	s.last.tick()
	m.readers++
}
func (m *RWMutex) RUnlock() {
	s := cur
	if s == nil {
		m.real.RUnlock()
		return
	}
	if s.aborting {
		return
	}
	m.enter(s)
	s.park(OpRUnlock, m, 0)
	s.last.tick()
	if m.vc == nil {
		m.vc = VC{}
	}
	joinInto(m.vc, s.last.vc)
	m.readers--
	s.post()
}

type Once struct {
	real    sync.Once
	done    bool
	running bool
	vc      VC
	owner   *Sched // "done" legitimately survives executions; "running" of a cut execution does not
}

func (o *Once) Do(f func()) {
	s := cur
	if s == nil {
		o.real.Do(f)
		return
	}
	if s.aborting {
		return
	}
	if o.owner != s {
		o.owner, o.running = s, false
		if !o.done {
			o.vc = nil
		}
	}
	s.park(OpOnce, o, 0)
	if o.vc != nil {
		joinInto(s.last.vc, o.vc)
	}
	s.last.tick()
	if o.done {
		return
	}
	o.running = true
	defer func() {
		o.done = true
		o.running = false
		o.vc = copyVC(s.last.vc)
	}()
	f()
}

// ---------- Pool ----------

type Pool struct {
	New   func() interface{}
	real  sync.Pool
	items []interface{}
	owner *Sched // the controlled execution the pooled items belong to (a pool starts every execution empty)
}

func (p *Pool) enter(s *Sched) {
	if p.owner != s {
		p.owner = s
		p.items = nil
	}
}

// PoolPoison, when set, is applied to every object handed to Put during a controlled execution: both
// reuse of a dirty object and a brand-new object are legal answers of sync.Pool, so code must not rely on
// the content of what Get returns nor touch an object after Put.
var PoolPoison func(x interface{})

func (p *Pool) Get() interface{} {
	s := cur
	if s == nil || s.aborting {
		if v := p.real.Get(); v != nil {
			return v
		}
		if p.New != nil {
			return p.New()
		}
		return nil
	}
	s.park(OpPoolGet, p, 0)
	s.last.tick()
	p.enter(s)
	n := len(p.items)
	k := n
	if n > 0 {
		k = s.pickData(n+1, "pool") // 0 = newest pooled object, ..., n = New()
	}
	if k == n {
		if p.New != nil {
			return p.New()
		}
		return nil
	}
	idx := n - 1 - k
	v := p.items[idx]
	p.items = append(p.items[:idx:idx], p.items[idx+1:]...)
	return v
}

func (p *Pool) Put(x interface{}) {
	s := cur
	if s == nil || s.aborting {
		p.real.Put(x)
		return
	}
	s.park(OpPoolPut, p, 0)
	s.last.tick()
	p.enter(s)
	if PoolPoison != nil {
		PoolPoison(x)
	}
	p.items = append(p.items, x)
}

// ---------- harness-level shared counter with visible operations ----------

type Counter struct {
	n  int
	vc VC
}

func (c *Counter) Add(d int) {
	s := cur
	if s == nil || s.aborting {
		c.n += d
		return
	}
	s.park(OpCounterAdd, c, 0)
	if c.vc == nil {
		c.vc = VC{}
	}
	s.last.tick()
	joinInto(c.vc, s.last.vc) // adds commute: do not join into g
	c.n += d
}
func (c *Counter) Read() int {
	s := cur
	if s == nil || s.aborting {
		return c.n
	}
	s.park(OpCounterRead, c, 0)
	if c.vc != nil {
		joinInto(s.last.vc, c.vc)
	}
	s.last.tick()
	return c.n
}

// ---------- map order ----------

// MapKeys replaces `range m` in instrumented files: the keys in an order the explorer owns (canonical
// order, then an explorer-chosen permutation); in pass-through mode the native (random) order.
func MapKeys[K comparable, V any](m map[K]V) []K {
	keys := make([]K, 0, len(m))
	for k := range m {
		keys = append(keys, k)
	}
	s := cur
	if s == nil || s.aborting {
		return keys
	}
	str := func(k K) string {
		v := reflect.ValueOf(k)
		if v.Kind() == reflect.Ptr && !v.IsNil() {
			return fmt.Sprintf("%v", v.Elem().Interface())
		}
		return fmt.Sprintf("%v", k)
	}
	strs := map[K]string{}
	for _, k := range keys {
		strs[k] = str(k)
	}
	sort.SliceStable(keys, func(i, j int) bool {
		if strs[keys[i]] != strs[keys[j]] {
			return strs[keys[i]] < strs[keys[j]]
		}
		vi, vj := reflect.ValueOf(keys[i]), reflect.ValueOf(keys[j])
		if vi.Kind() == reflect.Ptr {
			return vi.Pointer() < vj.Pointer()
		}
		return false
	})
	out := make([]K, 0, len(keys))
	for len(keys) > 1 {
		k := s.pickData(len(keys), "map")
		out = append(out, keys[k])
		keys = append(keys[:k:k], keys[k+1:]...)
	}
	return append(out, keys...)
}

// ---------- sync/atomic operations as visible operations ----------

// AtomicCell stands for one atomically accessed memory word during one controlled execution.
type AtomicCell struct {
	addr uintptr
	vc   VC
}

// AtomicPoint is called by the vatomic shim immediately before the real atomic operation on the word at
// addr: a scheduling point whose object is the word (loads of one word commute; everything else on the
// same word is dependent). write: the operation stores (Store/Add/Swap/CompareAndSwap/And/Or).
func AtomicPoint(addr uintptr, write bool) {
	s := cur
	if s == nil || s.aborting {
		return
	}
	if s.atomics == nil {
		s.atomics = map[uintptr]*AtomicCell{}
	}
	c := s.atomics[addr]
	if c == nil {
		c = &AtomicCell{addr: addr}
		s.atomics[addr] = c
	}
	if write {
		s.park(OpAtomicRMW, c, 0)
		if !vcOff {
			if c.vc == nil {
				c.vc = VC{}
			}
			joinInto(s.last.vc, c.vc)
			s.last.tick()
			joinInto(c.vc, s.last.vc)
		}
		s.postPending = true // the real operation follows in the shim: the post point is taken by AtomicDone
		return
	}
	s.park(OpAtomicLoad, c, 0)
	if !vcOff {
		if c.vc != nil {
			joinInto(s.last.vc, c.vc)
		}
		s.last.tick()
	}
}

// PostPoints adds a scheduling point immediately AFTER every release-type operation (mutex unlock, atomic
// store / read-modify-write): between a publication and the plain memory accesses that follow it. A point
// before every synchronisation operation covers all behaviours of data-race-free code; code that publishes
// too early (flag stored before the data, data read after the lock was released) is racy exactly there, and
// a cooperative scheduler can only expose it if it may switch at that place. Set by the two-callers
// harnesses around their explorations, never while an execution is running.
var PostPoints bool

func (s *Sched) post() {
	if PostPoints && !s.aborting {
		s.park(OpYield, nil, 0)
		s.last.tick()
	}
}

// AtomicDone is called by the vatomic shim after the real atomic operation.
func AtomicDone() {
	s := cur
	if s == nil || s.aborting || !s.postPending {
		return
	}
	s.postPending = false
	s.post()
}

// GlobalPoints turns the points that the instrumenter places around statements naming package-level
// variables of go-ipa into scheduling points (see engine/instrument). Set by the two-callers harnesses.
var GlobalPoints bool

// GP is called by instrumented code before and after statements that access package-level variables.
func GP() {
	if GlobalPoints {
		gp()
	}
}

// GlobalPointBudget: global-access points per execution; further ones are inert (count-based, so a replay
// sees the same points). Heavy calls read package-level curve parameters millions of times.
var GlobalPointBudget = 1500

func gp() {
	s := cur
	if s == nil || s.aborting || s.gpCount >= GlobalPointBudget {
		return
	}
	s.gpCount++
	s.park(OpYield, nil, 0)
	s.last.tick()
}
