// Package vsync stands in for "sync" in instrumented files.
package vsync

import (
	"sync"

	"github.com/crate-crypto/go-ipa/zzverif/vsched"
)

type WaitGroup = vsched.WaitGroup
type Pool = vsched.Pool
type Mutex = vsched.Mutex
type RWMutex = vsched.RWMutex
type Once = vsched.Once
type Map = sync.Map
type Cond = sync.Cond
type Locker = sync.Locker

var NewCond = sync.NewCond
