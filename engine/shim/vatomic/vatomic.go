// Package vatomic stands in for "sync/atomic" in instrumented files: every operation is preceded by a
// scheduling point of the controlled scheduler (vsched.AtomicPoint) and then performed by the real package.
// Written from the go1.23 API of sync/atomic.
package vatomic

import (
	"sync/atomic"
	"unsafe"

	"github.com/crate-crypto/go-ipa/zzverif/vsched"
)

func pt(p unsafe.Pointer, write bool) { vsched.AtomicPoint(uintptr(p), write) }

func LoadInt32(addr *int32) int32 { pt(unsafe.Pointer(addr), false); return atomic.LoadInt32(addr) }
func StoreInt32(addr *int32, val int32) {
	pt(unsafe.Pointer(addr), true)
	atomic.StoreInt32(addr, val)
	vsched.AtomicDone()
}
func AddInt32(addr *int32, delta int32) int32 {
	pt(unsafe.Pointer(addr), true)
	defer vsched.AtomicDone()
	return atomic.AddInt32(addr, delta)
}
func SwapInt32(addr *int32, new int32) int32 {
	pt(unsafe.Pointer(addr), true)
	defer vsched.AtomicDone()
	return atomic.SwapInt32(addr, new)
}
func CompareAndSwapInt32(addr *int32, old, new int32) bool {
	pt(unsafe.Pointer(addr), true)
	defer vsched.AtomicDone()
	return atomic.CompareAndSwapInt32(addr, old, new)
}
func AndInt32(addr *int32, mask int32) int32 {
	pt(unsafe.Pointer(addr), true)
	defer vsched.AtomicDone()
	return atomic.AndInt32(addr, mask)
}
func OrInt32(addr *int32, mask int32) int32 {
	pt(unsafe.Pointer(addr), true)
	defer vsched.AtomicDone()
	return atomic.OrInt32(addr, mask)
}

type Int32 struct{ v atomic.Int32 }

func (x *Int32) Load() int32 { pt(unsafe.Pointer(x), false); return x.v.Load() }
func (x *Int32) Store(val int32) {
	pt(unsafe.Pointer(x), true)
	x.v.Store(val)
	vsched.AtomicDone()
}
func (x *Int32) Swap(new int32) int32 {
	pt(unsafe.Pointer(x), true)
	defer vsched.AtomicDone()
	return x.v.Swap(new)
}
func (x *Int32) CompareAndSwap(old, new int32) bool {
	pt(unsafe.Pointer(x), true)
	defer vsched.AtomicDone()
	return x.v.CompareAndSwap(old, new)
}
func (x *Int32) Add(delta int32) int32 {
	pt(unsafe.Pointer(x), true)
	defer vsched.AtomicDone()
	return x.v.Add(delta)
}
func (x *Int32) And(mask int32) int32 {
	pt(unsafe.Pointer(x), true)
	defer vsched.AtomicDone()
	return x.v.And(mask)
}
func (x *Int32) Or(mask int32) int32 {
	pt(unsafe.Pointer(x), true)
	defer vsched.AtomicDone()
	return x.v.Or(mask)
}

func LoadInt64(addr *int64) int64 { pt(unsafe.Pointer(addr), false); return atomic.LoadInt64(addr) }
func StoreInt64(addr *int64, val int64) {
	pt(unsafe.Pointer(addr), true)
	atomic.StoreInt64(addr, val)
	vsched.AtomicDone()
}
func AddInt64(addr *int64, delta int64) int64 {
	pt(unsafe.Pointer(addr), true)
	defer vsched.AtomicDone()
	return atomic.AddInt64(addr, delta)
}
func SwapInt64(addr *int64, new int64) int64 {
	pt(unsafe.Pointer(addr), true)
	defer vsched.AtomicDone()
	return atomic.SwapInt64(addr, new)
}
func CompareAndSwapInt64(addr *int64, old, new int64) bool {
	pt(unsafe.Pointer(addr), true)
	defer vsched.AtomicDone()
	return atomic.CompareAndSwapInt64(addr, old, new)
}
func AndInt64(addr *int64, mask int64) int64 {
	pt(unsafe.Pointer(addr), true)
	defer vsched.AtomicDone()
	return atomic.AndInt64(addr, mask)
}
func OrInt64(addr *int64, mask int64) int64 {
	pt(unsafe.Pointer(addr), true)
	defer vsched.AtomicDone()
	return atomic.OrInt64(addr, mask)
}

type Int64 struct{ v atomic.Int64 }

func (x *Int64) Load() int64 { pt(unsafe.Pointer(x), false); return x.v.Load() }
func (x *Int64) Store(val int64) {
	pt(unsafe.Pointer(x), true)
	x.v.Store(val)
	vsched.AtomicDone()
}
func (x *Int64) Swap(new int64) int64 {
	pt(unsafe.Pointer(x), true)
	defer vsched.AtomicDone()
	return x.v.Swap(new)
}
func (x *Int64) CompareAndSwap(old, new int64) bool {
	pt(unsafe.Pointer(x), true)
	defer vsched.AtomicDone()
	return x.v.CompareAndSwap(old, new)
}
func (x *Int64) Add(delta int64) int64 {
	pt(unsafe.Pointer(x), true)
	defer vsched.AtomicDone()
	return x.v.Add(delta)
}
func (x *Int64) And(mask int64) int64 {
	pt(unsafe.Pointer(x), true)
	defer vsched.AtomicDone()
	return x.v.And(mask)
}
func (x *Int64) Or(mask int64) int64 {
	pt(unsafe.Pointer(x), true)
	defer vsched.AtomicDone()
	return x.v.Or(mask)
}

func LoadUint32(addr *uint32) uint32 { pt(unsafe.Pointer(addr), false); return atomic.LoadUint32(addr) }
func StoreUint32(addr *uint32, val uint32) {
	pt(unsafe.Pointer(addr), true)
	atomic.StoreUint32(addr, val)
	vsched.AtomicDone()
}
func AddUint32(addr *uint32, delta uint32) uint32 {
	pt(unsafe.Pointer(addr), true)
	defer vsched.AtomicDone()
	return atomic.AddUint32(addr, delta)
}
func SwapUint32(addr *uint32, new uint32) uint32 {
	pt(unsafe.Pointer(addr), true)
	defer vsched.AtomicDone()
	return atomic.SwapUint32(addr, new)
}
func CompareAndSwapUint32(addr *uint32, old, new uint32) bool {
	pt(unsafe.Pointer(addr), true)
	defer vsched.AtomicDone()
	return atomic.CompareAndSwapUint32(addr, old, new)
}
func AndUint32(addr *uint32, mask uint32) uint32 {
	pt(unsafe.Pointer(addr), true)
	defer vsched.AtomicDone()
	return atomic.AndUint32(addr, mask)
}
func OrUint32(addr *uint32, mask uint32) uint32 {
	pt(unsafe.Pointer(addr), true)
	defer vsched.AtomicDone()
	return atomic.OrUint32(addr, mask)
}

type Uint32 struct{ v atomic.Uint32 }

func (x *Uint32) Load() uint32 { pt(unsafe.Pointer(x), false); return x.v.Load() }
func (x *Uint32) Store(val uint32) {
	pt(unsafe.Pointer(x), true)
	x.v.Store(val)
	vsched.AtomicDone()
}
func (x *Uint32) Swap(new uint32) uint32 {
	pt(unsafe.Pointer(x), true)
	defer vsched.AtomicDone()
	return x.v.Swap(new)
}
func (x *Uint32) CompareAndSwap(old, new uint32) bool {
	pt(unsafe.Pointer(x), true)
	defer vsched.AtomicDone()
	return x.v.CompareAndSwap(old, new)
}
func (x *Uint32) Add(delta uint32) uint32 {
	pt(unsafe.Pointer(x), true)
	defer vsched.AtomicDone()
	return x.v.Add(delta)
}
func (x *Uint32) And(mask uint32) uint32 {
	pt(unsafe.Pointer(x), true)
	defer vsched.AtomicDone()
	return x.v.And(mask)
}
func (x *Uint32) Or(mask uint32) uint32 {
	pt(unsafe.Pointer(x), true)
	defer vsched.AtomicDone()
	return x.v.Or(mask)
}

func LoadUint64(addr *uint64) uint64 { pt(unsafe.Pointer(addr), false); return atomic.LoadUint64(addr) }
func StoreUint64(addr *uint64, val uint64) {
	pt(unsafe.Pointer(addr), true)
	atomic.StoreUint64(addr, val)
	vsched.AtomicDone()
}
func AddUint64(addr *uint64, delta uint64) uint64 {
	pt(unsafe.Pointer(addr), true)
	defer vsched.AtomicDone()
	return atomic.AddUint64(addr, delta)
}
func SwapUint64(addr *uint64, new uint64) uint64 {
	pt(unsafe.Pointer(addr), true)
	defer vsched.AtomicDone()
	return atomic.SwapUint64(addr, new)
}
func CompareAndSwapUint64(addr *uint64, old, new uint64) bool {
	pt(unsafe.Pointer(addr), true)
	defer vsched.AtomicDone()
	return atomic.CompareAndSwapUint64(addr, old, new)
}
func AndUint64(addr *uint64, mask uint64) uint64 {
	pt(unsafe.Pointer(addr), true)
	defer vsched.AtomicDone()
	return atomic.AndUint64(addr, mask)
}
func OrUint64(addr *uint64, mask uint64) uint64 {
	pt(unsafe.Pointer(addr), true)
	defer vsched.AtomicDone()
	return atomic.OrUint64(addr, mask)
}

type Uint64 struct{ v atomic.Uint64 }

func (x *Uint64) Load() uint64 { pt(unsafe.Pointer(x), false); return x.v.Load() }
func (x *Uint64) Store(val uint64) {
	pt(unsafe.Pointer(x), true)
	x.v.Store(val)
	vsched.AtomicDone()
}
func (x *Uint64) Swap(new uint64) uint64 {
	pt(unsafe.Pointer(x), true)
	defer vsched.AtomicDone()
	return x.v.Swap(new)
}
func (x *Uint64) CompareAndSwap(old, new uint64) bool {
	pt(unsafe.Pointer(x), true)
	defer vsched.AtomicDone()
	return x.v.CompareAndSwap(old, new)
}
func (x *Uint64) Add(delta uint64) uint64 {
	pt(unsafe.Pointer(x), true)
	defer vsched.AtomicDone()
	return x.v.Add(delta)
}
func (x *Uint64) And(mask uint64) uint64 {
	pt(unsafe.Pointer(x), true)
	defer vsched.AtomicDone()
	return x.v.And(mask)
}
func (x *Uint64) Or(mask uint64) uint64 {
	pt(unsafe.Pointer(x), true)
	defer vsched.AtomicDone()
	return x.v.Or(mask)
}

func LoadUintptr(addr *uintptr) uintptr {
	pt(unsafe.Pointer(addr), false)
	return atomic.LoadUintptr(addr)
}
func StoreUintptr(addr *uintptr, val uintptr) {
	pt(unsafe.Pointer(addr), true)
	atomic.StoreUintptr(addr, val)
	vsched.AtomicDone()
}
func AddUintptr(addr *uintptr, delta uintptr) uintptr {
	pt(unsafe.Pointer(addr), true)
	defer vsched.AtomicDone()
	return atomic.AddUintptr(addr, delta)
}
func SwapUintptr(addr *uintptr, new uintptr) uintptr {
	pt(unsafe.Pointer(addr), true)
	defer vsched.AtomicDone()
	return atomic.SwapUintptr(addr, new)
}
func CompareAndSwapUintptr(addr *uintptr, old, new uintptr) bool {
	pt(unsafe.Pointer(addr), true)
	defer vsched.AtomicDone()
	return atomic.CompareAndSwapUintptr(addr, old, new)
}
func AndUintptr(addr *uintptr, mask uintptr) uintptr {
	pt(unsafe.Pointer(addr), true)
	defer vsched.AtomicDone()
	return atomic.AndUintptr(addr, mask)
}
func OrUintptr(addr *uintptr, mask uintptr) uintptr {
	pt(unsafe.Pointer(addr), true)
	defer vsched.AtomicDone()
	return atomic.OrUintptr(addr, mask)
}

type Uintptr struct{ v atomic.Uintptr }

func (x *Uintptr) Load() uintptr { pt(unsafe.Pointer(x), false); return x.v.Load() }
func (x *Uintptr) Store(val uintptr) {
	pt(unsafe.Pointer(x), true)
	x.v.Store(val)
	vsched.AtomicDone()
}
func (x *Uintptr) Swap(new uintptr) uintptr {
	pt(unsafe.Pointer(x), true)
	defer vsched.AtomicDone()
	return x.v.Swap(new)
}
func (x *Uintptr) CompareAndSwap(old, new uintptr) bool {
	pt(unsafe.Pointer(x), true)
	defer vsched.AtomicDone()
	return x.v.CompareAndSwap(old, new)
}
func (x *Uintptr) Add(delta uintptr) uintptr {
	pt(unsafe.Pointer(x), true)
	defer vsched.AtomicDone()
	return x.v.Add(delta)
}
func (x *Uintptr) And(mask uintptr) uintptr {
	pt(unsafe.Pointer(x), true)
	defer vsched.AtomicDone()
	return x.v.And(mask)
}
func (x *Uintptr) Or(mask uintptr) uintptr {
	pt(unsafe.Pointer(x), true)
	defer vsched.AtomicDone()
	return x.v.Or(mask)
}

func LoadPointer(addr *unsafe.Pointer) unsafe.Pointer {
	pt(unsafe.Pointer(addr), false)
	return atomic.LoadPointer(addr)
}
func StorePointer(addr *unsafe.Pointer, val unsafe.Pointer) {
	pt(unsafe.Pointer(addr), true)
	atomic.StorePointer(addr, val)
	vsched.AtomicDone()
}
func SwapPointer(addr *unsafe.Pointer, new unsafe.Pointer) unsafe.Pointer {
	pt(unsafe.Pointer(addr), true)
	defer vsched.AtomicDone()
	return atomic.SwapPointer(addr, new)
}
func CompareAndSwapPointer(addr *unsafe.Pointer, old, new unsafe.Pointer) bool {
	pt(unsafe.Pointer(addr), true)
	defer vsched.AtomicDone()
	return atomic.CompareAndSwapPointer(addr, old, new)
}

type Bool struct{ v atomic.Bool }

func (x *Bool) Load() bool { pt(unsafe.Pointer(x), false); return x.v.Load() }
func (x *Bool) Store(val bool) {
	pt(unsafe.Pointer(x), true)
	x.v.Store(val)
	vsched.AtomicDone()
}
func (x *Bool) Swap(new bool) bool {
	pt(unsafe.Pointer(x), true)
	defer vsched.AtomicDone()
	return x.v.Swap(new)
}
func (x *Bool) CompareAndSwap(old, new bool) bool {
	pt(unsafe.Pointer(x), true)
	defer vsched.AtomicDone()
	return x.v.CompareAndSwap(old, new)
}

type Pointer[T any] struct{ v atomic.Pointer[T] }

func (x *Pointer[T]) Load() *T { pt(unsafe.Pointer(x), false); return x.v.Load() }
func (x *Pointer[T]) Store(val *T) {
	pt(unsafe.Pointer(x), true)
	x.v.Store(val)
	vsched.AtomicDone()
}
func (x *Pointer[T]) Swap(new *T) *T {
	pt(unsafe.Pointer(x), true)
	defer vsched.AtomicDone()
	return x.v.Swap(new)
}
func (x *Pointer[T]) CompareAndSwap(old, new *T) bool {
	pt(unsafe.Pointer(x), true)
	defer vsched.AtomicDone()
	return x.v.CompareAndSwap(old, new)
}

type Value struct{ v atomic.Value }

func (x *Value) Load() any { pt(unsafe.Pointer(x), false); return x.v.Load() }
func (x *Value) Store(val any) {
	pt(unsafe.Pointer(x), true)
	x.v.Store(val)
	vsched.AtomicDone()
}
func (x *Value) Swap(new any) any {
	pt(unsafe.Pointer(x), true)
	defer vsched.AtomicDone()
	return x.v.Swap(new)
}
func (x *Value) CompareAndSwap(old, new any) bool {
	pt(unsafe.Pointer(x), true)
	defer vsched.AtomicDone()
	return x.v.CompareAndSwap(old, new)
}
