// Package explore is the stateless model checker that drives the real go-ipa code under the controlled
// scheduler of vsched: (1) deviation-bounded DFS over complete choice sequences (iterated bound), and
// (2) unbounded search with dynamic partial-order reduction (Flanagan–Godefroid backtrack sets computed
// from vector clocks, plus sleep sets). Every explored trace is an execution of the implementation.
package explore

import (
	"fmt"
	"os"
	"runtime"
	"sort"
	"strings"
	"time"

	"github.com/crate-crypto/go-ipa/zzverif/vsched"
)

// Exec describes one controlled execution.
type Exec struct {
	Obs      string
	Deadlock bool
	Leaked   int
	Blocked  string
	Panic    string
	Cut      bool
	Steps    int
	SchedPts int
	DataPts  int
	Collide  int
	MaxEn    int
	Choices  []int // value of every choice point (sched points with >= 2 enabled, data points), in order
	Ns       []int // number of alternatives at each of them
	Kinds    []string
	Enabled  [][]string // per choice point: the enabled goroutine ids in canonical order (nil at data points)
}

// Outcome folds the abnormal endings into the observation string.
func (x *Exec) Outcome() string {
	switch {
	case x.Panic != "":
		return "PANIC: " + firstLine(x.Panic)
	case x.Deadlock:
		return "DEADLOCK: blocked " + x.Blocked
	case x.Leaked > 0:
		return x.Obs + " [LEAK: " + x.Blocked + "]"
	}
	return x.Obs
}

func firstLine(s string) string {
	if i := strings.IndexByte(s, '\n'); i >= 0 {
		return s[:i]
	}
	return s
}

// ---------- replay strategy (choice-sequence driven) ----------

type replayStrat struct {
	prefix []int
	pos    int
	ns     []int
	ch     []int
	kinds  []string
	en     [][]string
}

func (r *replayStrat) next(n int, kind string) int {
	k := 0
	if r.pos < len(r.prefix) {
		k = r.prefix[r.pos]
		if k >= n {
			panic(fmt.Sprintf("explore: diverging replay at choice point %d: recorded %d, only %d alternatives (%s)", r.pos, k, n, kind))
		}
	}
	r.pos++
	r.ns = append(r.ns, n)
	r.ch = append(r.ch, k)
	r.kinds = append(r.kinds, kind)
	return k
}

func (r *replayStrat) PickSched(view []vsched.GView, enabled []string, lastClock int) (int, bool) {
	if len(enabled) == 1 {
		return 0, false
	}
	r.en = append(r.en, append([]string(nil), enabled...))
	return r.next(len(enabled), "sched"), false
}
func (r *replayStrat) PickData(n int, kind string) int {
	r.en = append(r.en, nil)
	return r.next(n, kind)
}
func (r *replayStrat) Final(view []vsched.GView, lastClock int) {}

// ClockFree: a choice-sequence replay never looks at vector clocks.
func (r *replayStrat) ClockFree() bool { return true }

// RunOnce executes body once, following the given choice sequence and answering 0 afterwards.
func RunOnce(body func() string, prefix []int) *Exec {
	r := &replayStrat{prefix: prefix}
	var obs string
	s := vsched.Run(func() { obs = body() }, r)
	x := &Exec{Obs: obs, Deadlock: s.Deadlock, Leaked: s.Leaked, Blocked: s.Blocked, Cut: s.WasCut, Steps: s.Steps,
		SchedPts: s.SchedPts, DataPts: s.DataPts, Collide: s.Collide, MaxEn: s.MaxEn, Choices: r.ch, Ns: r.ns, Kinds: r.kinds, Enabled: r.en}
	if len(s.Panics) > 0 {
		x.Panic = s.Panics[0]
	}
	return x
}

// Stats is the coverage statement of one exploration.
type Stats struct {
	Mode            string // "bounded" or "dpor"
	Execs           int
	Complete        int
	SleepBlocked    int
	Deadlocks       int
	Panics          int
	Leaks           int
	Transitions     int64
	SchedPoints     int64
	DataPoints      int64
	Collisions      int64
	NewStates       int64 // decision states first reached by this exploration (prefix replays not re-counted) + end states
	MaxEnabled      int
	MaxDepth        int
	Outcomes        map[string]int
	OutcomeSchedule map[string][]int // one choice sequence per distinct outcome (replayable with RunOnce)
	BoundCompleted  int              // bounded mode: largest deviation bound completed (-1: none)
	Exhaustive      bool             // search space (within the bound, for bounded mode) completely explored
	Cap             string           // non-empty when a cap stopped the search
	Wall            float64
}

func newStats(mode string) *Stats {
	return &Stats{Mode: mode, Outcomes: map[string]int{}, OutcomeSchedule: map[string][]int{}, BoundCompleted: -1}
}

func (st *Stats) add(x *Exec) {
	st.Execs++
	st.Transitions += int64(x.Steps)
	st.SchedPoints += int64(x.SchedPts)
	st.DataPoints += int64(x.DataPts)
	st.Collisions += int64(x.Collide)
	if x.MaxEn > st.MaxEnabled {
		st.MaxEnabled = x.MaxEn
	}
	if len(x.Choices) > st.MaxDepth {
		st.MaxDepth = len(x.Choices)
	}
	if x.Cut {
		return
	}
	st.Complete++
	if x.Deadlock {
		st.Deadlocks++
	}
	if x.Panic != "" {
		st.Panics++
	}
	if x.Leaked > 0 {
		st.Leaks++
	}
	o := x.Outcome()
	if _, ok := st.Outcomes[o]; !ok {
		st.OutcomeSchedule[o] = append([]int(nil), x.Choices...)
	}
	st.Outcomes[o]++
}

// Merge adds the counters of another exploration (for evidence totals).
func (st *Stats) Merge(o *Stats) {
	st.Execs += o.Execs
	st.Complete += o.Complete
	st.SleepBlocked += o.SleepBlocked
	st.Deadlocks += o.Deadlocks
	st.Panics += o.Panics
	st.Leaks += o.Leaks
	st.Transitions += o.Transitions
	st.SchedPoints += o.SchedPoints
	st.DataPoints += o.DataPoints
	st.Collisions += o.Collisions
	st.NewStates += o.NewStates
	if o.MaxEnabled > st.MaxEnabled {
		st.MaxEnabled = o.MaxEnabled
	}
	if o.MaxDepth > st.MaxDepth {
		st.MaxDepth = o.MaxDepth
	}
}

// Options bound an exploration.
type Options struct {
	MaxBound   int                                  // bounded mode: iterate d = 0..MaxBound
	MaxExecs   int                                  // cap on executions (0 = none)
	Deadline   time.Duration                        // cap on wall time (0 = none)
	DataBudget int                                  // dpor mode: max non-default environment answers per execution (-1 = unlimited)
	SchedOnly  bool                                 // bounded mode: deviations only at scheduling points
	DataOnly   bool                                 // bounded mode: deviations only at environment choice points
	Debug      bool                                 // dpor mode: print every execution's transition sequence and the backtrack sets
	Spread     bool                                 // bounded mode: visit the sequences of a level in binary-subdivision order of their position (middle, quarters, eighths ...) instead of front to back: a cap then leaves a coarse cover of the whole execution rather than its beginning only; without a cap the visited set is the same
	Allow      func(enabled []string, alt int) bool // bounded mode: restricts the deviations at scheduling points (nil = all)
	FullRace   bool                                 // dpor mode: textbook race detection (every pending operation against the whole history at every state)
}

func deviations(ch []int) int {
	n := 0
	for _, c := range ch {
		if c != 0 {
			n++
		}
	}
	return n
}

// Bounded explores every choice sequence with at most d non-default choices, for d = 0,1,..,MaxBound,
// each level completed before the next starts. Executions always run to completion.
func Bounded(body func() string, opt Options) *Stats {
	st := newStats("bounded")
	t0 := time.Now()
	capped := func() bool {
		if opt.MaxExecs > 0 && st.Execs >= opt.MaxExecs {
			st.Cap = fmt.Sprintf("execution cap %d", opt.MaxExecs)
			return true
		}
		if opt.Deadline > 0 && time.Since(t0) > opt.Deadline {
			st.Cap = fmt.Sprintf("time cap %s", opt.Deadline)
			return true
		}
		return false
	}
	// level d explores exactly the sequences with d deviations: extend each sequence of level d-1 by one
	// deviation placed after its last deviation.
	// a sequence is stored as its deviations only (position, alternative): every other choice is the default 0,
	// so a level of a 10 000-step execution costs a few words per sequence instead of the whole prefix
	type dev struct{ pos, alt int }
	type seed struct{ devs []dev }
	expand := func(sd seed) []int {
		if len(sd.devs) == 0 {
			return nil
		}
		p := make([]int, sd.devs[len(sd.devs)-1].pos+1)
		for _, d := range sd.devs {
			p[d.pos] = d.alt
		}
		return p
	}
	level := []seed{{nil}}
	for d := 0; d <= opt.MaxBound; d++ {
		var next []seed
		for _, sd := range level {
			if capped() {
				st.Wall = time.Since(t0).Seconds()
				return st
			}
			prefix := expand(sd)
			x := RunOnce(body, prefix)
			st.add(x)
			st.NewStates += int64(len(x.Ns)-len(prefix)) + 1
			if d == opt.MaxBound {
				continue
			}
			for i := len(prefix); i < len(x.Ns); i++ {
				if opt.SchedOnly && x.Kinds[i] != "sched" {
					continue
				}
				if opt.DataOnly && x.Kinds[i] == "sched" {
					continue
				}
				for alt := 1; alt < x.Ns[i]; alt++ {
					if opt.Allow != nil && x.Kinds[i] == "sched" && !opt.Allow(x.Enabled[i], alt) {
						continue
					}
					if len(next) >= 20000000 {
						st.Cap = "pending-sequence cap 20000000 (the sequences of the next level do not fit a sane amount of memory)"
						st.Wall = time.Since(t0).Seconds()
						return st
					}
					nd := make([]dev, len(sd.devs)+1)
					copy(nd, sd.devs)
					nd[len(sd.devs)] = dev{i, alt}
					next = append(next, seed{nd})
				}
			}
		}
		st.BoundCompleted = d
		if opt.Spread {
			next = spread(next)
		}
		level = next
		if len(level) == 0 {
			st.Exhaustive = true // no choice sequence with more deviations exists: the whole space was explored
			break
		}
	}
	st.Wall = time.Since(t0).Seconds()
	return st
}

// spread reorders a list into binary-subdivision order: index n/2, n/4, 3n/4, n/8, ... (every element once).
func spread[T any](in []T) []T {
	n := len(in)
	if n < 3 {
		return in
	}
	out := make([]T, 0, n)
	seen := make([]bool, n)
	for step := n; step >= 1; step = (step + 1) / 2 {
		for pos := step / 2; pos < n; pos += step {
			if !seen[pos] {
				seen[pos] = true
				out = append(out, in[pos])
			}
		}
		if step == 1 {
			break
		}
	}
	for i := range in {
		if !seen[i] {
			out = append(out, in[i])
		}
	}
	return out
}

// Spread is spread for other packages.
func Spread[T any](in []T) []T { return spread(in) }

// ---------- DPOR ----------

type opinfo struct {
	kind int
	obj  interface{}
}

type node struct {
	data bool
	// data node
	n   int
	alt int
	// sched node
	enabled   []string
	backtrack map[string]bool
	done      map[string]bool
	sleep     map[string]bool
	chosen    string
	op        opinfo
	clock     int
}

func isChanKind(k int) bool {
	return k == vsched.OpSend || k == vsched.OpSendWait || k == vsched.OpRecv || k == vsched.OpClose
}

// dependent: same shim object and not in a commuting group.
func dependent(a, b opinfo) bool {
	if a.obj == nil || b.obj == nil || a.obj != b.obj {
		return false
	}
	wg := func(k int) bool { return k == vsched.OpWGAdd || k == vsched.OpWGDone || k == vsched.OpWGWait }
	switch {
	case wg(a.kind) && wg(b.kind):
		if a.kind == vsched.OpWGWait && b.kind == vsched.OpWGWait {
			return false
		}
		return a.kind == vsched.OpWGWait || b.kind == vsched.OpWGWait
	case a.kind == vsched.OpCounterAdd && b.kind == vsched.OpCounterAdd:
		return false
	case a.kind == vsched.OpCounterRead && b.kind == vsched.OpCounterRead:
		return false
	case a.kind == vsched.OpRLock && b.kind == vsched.OpRLock:
		return false
	case a.kind == vsched.OpAtomicLoad && b.kind == vsched.OpAtomicLoad:
		return false
	}
	return true
}

type dporStrat struct {
	stack     []*node
	depth     int
	lastSched int // index in stack of the last sched node of the current execution, -1 if none
	st        *Stats
	opt       Options
	dataDev   int
	choices   []int
	ns        []int
	byObj     map[interface{}][]int // stack indices of the executed transitions on each shim object (current execution)
}

func (d *dporStrat) prevSched(from int) *node {
	for i := from; i >= 0; i-- {
		if !d.stack[i].data {
			return d.stack[i]
		}
	}
	return nil
}

func (d *dporStrat) PickData(n int, kind string) int {
	if d.depth < len(d.stack) {
		nd := d.stack[d.depth]
		if !nd.data || nd.n != n {
			panic("explore: diverging replay at a data node")
		}
		d.depth++
		if nd.alt != 0 {
			d.dataDev++
		}
		d.choices = append(d.choices, nd.alt)
		d.ns = append(d.ns, n)
		return nd.alt
	}
	nd := &node{data: true, n: n, alt: 0}
	d.stack = append(d.stack, nd)
	d.depth++
	d.choices = append(d.choices, 0)
	d.ns = append(d.ns, n)
	return 0
}

func (d *dporStrat) PickSched(view []vsched.GView, enabled []string, lastClock int) (int, bool) {
	if d.lastSched >= 0 {
		d.stack[d.lastSched].clock = lastClock
	}
	pending := make(map[string]opinfo, len(view))
	for _, g := range view {
		pending[g.ID] = opinfo{g.Kind, g.Obj}
	}
	idxOf := func(id string) int {
		for i, x := range enabled {
			if x == id {
				return i
			}
		}
		panic("explore: diverging replay: recorded goroutine " + id + " is not enabled")
	}
	record := func(k int) {
		if len(enabled) > 1 {
			d.choices = append(d.choices, k)
			d.ns = append(d.ns, len(enabled))
		}
	}
	if d.depth < len(d.stack) {
		nd := d.stack[d.depth]
		if nd.data {
			panic("explore: diverging replay at a sched node")
		}
		nd.op = pending[nd.chosen]
		if nd.op.obj != nil {
			d.byObj[nd.op.obj] = append(d.byObj[nd.op.obj], d.depth)
		}
		d.lastSched = d.depth
		d.depth++
		k := idxOf(nd.chosen)
		record(k)
		return k, false
	}
	nd := &node{enabled: enabled, backtrack: map[string]bool{}, done: map[string]bool{}, sleep: map[string]bool{}}
	if par := d.prevSched(d.depth - 1); par != nil {
		for x := range par.sleep {
			if x != par.chosen {
				if op, ok := pending[x]; ok && !dependent(op, par.op) {
					nd.sleep[x] = true
				}
			}
		}
		for x := range par.done {
			if x != par.chosen {
				if op, ok := pending[x]; ok && !dependent(op, par.op) {
					nd.sleep[x] = true
				}
			}
		}
	}
	d.detectRaces(view, pending)
	var cands []string
	for _, x := range enabled {
		if !nd.sleep[x] {
			cands = append(cands, x)
		}
	}
	if len(cands) == 0 {
		d.st.SleepBlocked++
		return 0, true
	}
	pick := cands[0] // canonical order: the goroutine that ran last first
	nd.chosen = pick
	nd.backtrack[pick] = true
	nd.done[pick] = true
	nd.op = pending[pick]
	if nd.op.obj != nil {
		d.byObj[nd.op.obj] = append(d.byObj[nd.op.obj], d.depth)
	}
	d.stack = append(d.stack, nd)
	d.lastSched = d.depth
	d.depth++
	k := idxOf(pick)
	record(k)
	return k, false
}

// Final: race detection for the operations still pending when the execution ends (blocked goroutines).
func (d *dporStrat) Final(view []vsched.GView, lastClock int) {
	if d.lastSched >= 0 && d.lastSched < len(d.stack) {
		d.stack[d.lastSched].clock = lastClock
	}
	if d.depth < len(d.stack) {
		return // replaying a prefix that ends early: cannot happen (diverging replay is caught elsewhere)
	}
	pending := make(map[string]opinfo, len(view))
	for _, g := range view {
		pending[g.ID] = opinfo{g.Kind, g.Obj}
	}
	d.detectRaces(view, pending)
}

func (d *dporStrat) detectRaces(view []vsched.GView, pending map[string]opinfo) {
	// race detection / backtrack point insertion, incremental: at a state reached by executing transition
	// t of goroutine g, (a) g's new pending operation is compared with the whole history on its object, and
	// (c) every other goroutine's (unchanged) pending operation is compared with t only — older
	// transitions were compared with it when they were executed.
	vcOf := map[string]vsched.VC{}
	objVCOf := map[string]vsched.VC{}
	for _, g := range view {
		vcOf[g.ID] = g.VC
		objVCOf[g.ID] = g.ObjVC
	}
	race := func(p string, op opinfo, cands []int) {
		gvc, ovc := vcOf[p], objVCOf[p]
		// i -> p in the sense of the algorithm: transition i happens-before some transition p has already
		// executed, i.e. p's current clock covers it
		_ = ovc
		next := func(x string) int { return gvc[x] }
		for ci := len(cands) - 1; ci >= 0; ci-- {
			i := cands[ci]
			if i >= d.depth {
				continue
			}
			t := d.stack[i]
			if t.data || t.chosen == p || !dependent(t.op, op) {
				continue
			}
			if t.clock <= next(t.chosen) {
				continue // happens-before p's next transition
			}
			// co-enabledness: if p was disabled before i and has not moved since, its pending operation was
			// enabled by i or by something after it: there is nothing to reverse with i (an earlier candidate
			// may still qualify). If p has moved since pre(i), its pending operation is a different one and
			// the classical rule below applies (p itself is then not among the candidates).
			pThere := false
			for _, x := range t.enabled {
				if x == p {
					pThere = true
					break
				}
			}
			if !pThere {
				moved := false
				for j := i + 1; j < d.depth; j++ {
					if tj := d.stack[j]; !tj.data && tj.chosen == p {
						moved = true
						break
					}
				}
				if !moved {
					continue
				}
			}
			// latest dependent transition that may be reversed with p's next one: the candidates are the
			// goroutines enabled before it that are p itself or have a later transition happening before p's next
			// candidates: p itself, or a goroutine enabled before i with a later transition that happens before
			// p's NEXT transition — either before something p has already executed (clock), or directly
			// dependent with p's pending operation. Candidates asleep at pre(i) cannot be used (a sleeping
			// process is never taken from that node, and the exploration that put it to sleep did not see this
			// race in this context): if none is left, every enabled goroutine is added (the conservative
			// fallback of the algorithm).
			var E []string
			for _, x := range t.enabled {
				if t.sleep[x] {
					continue
				}
				if x == p {
					E = append(E, x)
					continue
				}
				for j := i + 1; j < d.depth; j++ {
					tj := d.stack[j]
					if !tj.data && tj.chosen == x && (tj.clock <= next(x) || dependent(tj.op, op)) {
						E = append(E, x)
						break
					}
				}
			}
			if len(E) > 0 {
				pick := E[0]
				for _, x := range E {
					if x == p {
						pick = p
					}
				}
				t.backtrack[pick] = true
			} else {
				for _, x := range t.enabled {
					t.backtrack[x] = true
				}
			}
			return
		}
	}
	if d.opt.FullRace {
		all := make([]int, d.depth)
		for i := range all {
			all[i] = i
		}
		for _, g := range view {
			if op := pending[g.ID]; op.obj != nil {
				race(g.ID, op, all)
			}
		}
	} else if d.lastSched >= 0 {
		t := d.stack[d.lastSched]
		if op, ok := pending[t.chosen]; ok && op.obj != nil {
			race(t.chosen, op, d.byObj[op.obj]) // (a)
		}
		if t.op.obj != nil {
			for _, g := range view { // (c)
				if g.ID != t.chosen && g.Obj == t.op.obj {
					race(g.ID, pending[g.ID], []int{d.lastSched})
				}
			}
		}
	}
}

// DPOR explores, without bound on scheduling, at least one execution of every Mazurkiewicz trace of body
// (dependence = same shim object, non-commuting operations), and every environment answer at data choice
// points (up to opt.DataBudget non-default answers per execution when it is >= 0).
func DPOR(body func() string, opt Options) *Stats {
	st := newStats("dpor")
	t0 := time.Now()
	if opt.Deadline > 0 {
		vsched.Deadline = t0.Add(opt.Deadline + opt.Deadline/4)
		defer func() { vsched.Deadline = time.Time{} }()
	}
	d := &dporStrat{st: st, opt: opt}
	lastMem := time.Now()
	for {
		d.depth, d.lastSched, d.dataDev = 0, -1, 0
		d.choices, d.ns = nil, nil
		d.byObj = map[interface{}][]int{}
		before := len(d.stack)
		var obs string
		s := vsched.Run(func() { obs = body() }, d)
		if d.lastSched >= 0 && d.lastSched < len(d.stack) {
			d.stack[d.lastSched].clock = s.LastClock()
		}
		x := &Exec{Obs: obs, Deadlock: s.Deadlock, Leaked: s.Leaked, Blocked: s.Blocked, Cut: s.WasCut, Steps: s.Steps,
			SchedPts: s.SchedPts, DataPts: s.DataPts, Collide: s.Collide, MaxEn: s.MaxEn, Choices: d.choices, Ns: d.ns}
		if len(s.Panics) > 0 {
			x.Panic = s.Panics[0]
		}
		if s.HitLimit {
			st.Cap = "step horizon or time cap reached inside one execution"
		}
		st.add(x)
		st.NewStates += int64(len(d.stack)-before) + 1
		if opt.Debug {
			line := ""
			for _, nd := range d.stack {
				if nd.data {
					line += fmt.Sprintf(" [data %d/%d]", nd.alt, nd.n)
					continue
				}
				bt := []string{}
				for k := range nd.backtrack {
					bt = append(bt, k)
				}
				sort.Strings(bt)
				sl := []string{}
				for k := range nd.sleep {
					sl = append(sl, k)
				}
				sort.Strings(sl)
				line += fmt.Sprintf(" %s:%s(bt%v sl%v)", nd.chosen, vsched.OpNames[nd.op.kind], bt, sl)
			}
			fmt.Fprintf(os.Stderr, "EXEC %d cut=%v outcome=%q\n   %s\n", st.Execs, x.Cut, x.Outcome(), line)
		}
		// backtrack
		found := false
		for i := len(d.stack) - 1; i >= 0 && !found; i-- {
			nd := d.stack[i]
			if nd.data {
				if nd.alt+1 < nd.n {
					dev := 0
					for j := 0; j < i; j++ {
						if d.stack[j].data && d.stack[j].alt != 0 {
							dev++
						}
					}
					if opt.DataBudget < 0 || dev+1 <= opt.DataBudget {
						nd.alt++
						d.stack = d.stack[:i+1]
						found = true
						break
					}
				}
				d.stack = d.stack[:i]
				continue
			}
			var cand []string
			for x := range nd.backtrack {
				if !nd.done[x] && !nd.sleep[x] {
					cand = append(cand, x)
				}
			}
			if len(cand) > 0 {
				sort.Strings(cand)
				nd.done[cand[0]] = true
				nd.chosen = cand[0]
				d.stack = d.stack[:i+1]
				found = true
				break
			}
			d.stack = d.stack[:i]
		}
		if !found {
			st.Exhaustive = st.Cap == ""
			break
		}
		if opt.MaxExecs > 0 && st.Execs >= opt.MaxExecs {
			st.Cap = fmt.Sprintf("execution cap %d", opt.MaxExecs)
			break
		}
		if opt.Deadline > 0 && time.Since(t0) > opt.Deadline {
			st.Cap = fmt.Sprintf("time cap %s", opt.Deadline)
			break
		}
		// the search stack keeps one vector clock per transition: with thousands of goroutines per execution
		// that is gigabytes; end the search with a cap before the process outgrows its share of the machine
		if time.Since(lastMem) > 2*time.Second {
			lastMem = time.Now()
			var ms runtime.MemStats
			runtime.ReadMemStats(&ms)
			if ms.HeapAlloc > dporMemCap {
				runtime.GC()
				runtime.ReadMemStats(&ms)
				if ms.HeapAlloc > dporMemCap {
					st.Cap = fmt.Sprintf("memory cap (%d MB of search state)", ms.HeapAlloc>>20)
					break
				}
			}
		}
	}
	st.Wall = time.Since(t0).Seconds()
	return st
}

const dporMemCap = 1800 << 20

// Naive explores every choice sequence without any reduction (for tiny harnesses and for validating DPOR).
// Naive is the reduction-free search: every choice sequence, no bound on the number of deviations. It is a
// depth-first search over an explicit stack (the level-by-level order of Bounded would have to keep every
// sequence of the next level in memory); the stack is capped as well, so that a program that turns out much
// larger than its harness expected ends the search with a cap instead of exhausting the machine's memory.
func Naive(body func() string, opt Options) *Stats {
	st := newStats("naive")
	t0 := time.Now()
	const maxPending = 2000000
	stack := [][]int{nil}
	for len(stack) > 0 {
		if opt.MaxExecs > 0 && st.Execs >= opt.MaxExecs {
			st.Cap = fmt.Sprintf("execution cap %d", opt.MaxExecs)
			break
		}
		if opt.Deadline > 0 && time.Since(t0) > opt.Deadline {
			st.Cap = fmt.Sprintf("time cap %s", opt.Deadline)
			break
		}
		if len(stack) > maxPending {
			st.Cap = fmt.Sprintf("pending-sequence cap %d", maxPending)
			break
		}
		prefix := stack[len(stack)-1]
		stack = stack[:len(stack)-1]
		x := RunOnce(body, prefix)
		st.add(x)
		st.NewStates += int64(len(x.Ns)-len(prefix)) + 1
		// children in reverse order, so that the sequence with the earliest deviation is explored first
		for i := len(x.Ns) - 1; i >= len(prefix); i-- {
			if opt.SchedOnly && x.Kinds[i] != "sched" {
				continue
			}
			if opt.DataOnly && x.Kinds[i] == "sched" {
				continue
			}
			for alt := x.Ns[i] - 1; alt >= 1; alt-- {
				if opt.Allow != nil && x.Kinds[i] == "sched" && !opt.Allow(x.Enabled[i], alt) {
					continue
				}
				np := make([]int, i+1)
				copy(np, x.Choices[:i])
				np[i] = alt
				stack = append(stack, np)
			}
		}
	}
	if st.Cap == "" {
		st.Exhaustive = true
		st.BoundCompleted = 1 << 30
	}
	st.Wall = time.Since(t0).Seconds()
	return st
}
