package core

import (
	"fmt"
	"os"
	"runtime"
	"sort"
	"strings"
	"time"

	"verif.local/engine/explore"
)

// SchedSpec describes one scheduled harness.
type SchedSpec struct {
	Name   string
	API    string
	Check  string
	Body   func() string           // runs the real code under the controlled scheduler, returns the observation
	Judge  func(obs string) string // "" when the observation satisfies the oracle, else what was expected
	Mode   string                  // "dpor", "bounded", "naive"
	Opt    explore.Options
	Expect string // if Judge is nil: the only acceptable observation
}

func sameInts(a, b []int) bool {
	if len(a) != len(b) {
		return false
	}
	for i := range a {
		if a[i] != b[i] {
			return false
		}
	}
	return true
}

// Explore runs the harness: determinism self-check first, then the exploration; every distinct bad outcome
// is replayed 5 times from its recorded choice sequence before it is reported.
func Explore(r *Result, sp SchedSpec) *explore.Stats {
	// exactly one goroutine of a controlled execution runs at any time: keeping the hand-offs on one OS
	// thread makes them several times cheaper (the value the implementation sees is the vsched seam's)
	if sp.Opt.Deadline == 0 {
		// searches that are expected to be small carry no cap of their own; an edited tree can make them
		// arbitrarily large (more goroutines than the harness expected): end those with a reported cap
		sp.Opt.Deadline = 10 * time.Minute
	}
	if os.Getenv("VERIF_SCHED_MP") == "" {
		defer runtime.GOMAXPROCS(runtime.GOMAXPROCS(1))
	}
	judge := sp.Judge
	if judge == nil {
		judge = func(o string) string {
			if o == sp.Expect {
				return ""
			}
			return sp.Expect
		}
	}
	// The harnesses are deterministic functions of the schedule on the unchanged tree (every run re-checks
	// it). If the same schedule gives different observations or a recorded schedule cannot be replayed, state
	// survived from one execution to the next inside the code under test (a package-level cache, a pooled
	// object, a lazily initialised table ...): for this library that is a violation in itself (results must
	// not depend on earlier calls), and it is reported as such instead of exploring on top of it.
	hidden := func(what string) *explore.Stats {
		r.Violate(Violation{Check: strings.Split(sp.Check, ".")[0] + ".hidden_state", API: sp.API, Input: sp.Name,
			Expected: "the same schedule gives the same execution every time (no state survives between executions)", Got: what})
		r.Exhaustive = false
		return &explore.Stats{Mode: sp.Mode, Outcomes: map[string]int{}, OutcomeSchedule: map[string][]int{}}
	}
	// determinism: the empty prefix twice
	a := explore.RunOnce(sp.Body, nil)
	b := explore.RunOnce(sp.Body, nil)
	if a.Outcome() != b.Outcome() || !sameInts(a.Ns, b.Ns) {
		return hidden(fmt.Sprintf("default schedule gave %q (%d choice points), then %q (%d choice points)", clip(a.Outcome(), 200), len(a.Ns), clip(b.Outcome(), 200), len(b.Ns)))
	}
	var st *explore.Stats
	diverged := ""
	func() {
		defer func() {
			if e := recover(); e != nil {
				msg := fmt.Sprint(e)
				if strings.Contains(msg, "diverging replay") {
					diverged = msg
					return
				}
				panic(e)
			}
		}()
		switch sp.Mode {
		case "dpor":
			st = explore.DPOR(sp.Body, sp.Opt)
		case "naive":
			st = explore.Naive(sp.Body, sp.Opt)
		default:
			st = explore.Bounded(sp.Body, sp.Opt)
		}
	}()
	if diverged != "" {
		return hidden("a recorded schedule could not be replayed: " + diverged)
	}
	r.AddStats(st)
	// a non-trivial recorded schedule replayed twice
	var outs []string
	for o := range st.Outcomes {
		outs = append(outs, o)
	}
	sort.Strings(outs)
	longest := ""
	for _, o := range outs {
		if len(st.OutcomeSchedule[o]) >= len(st.OutcomeSchedule[longest]) {
			longest = o
		}
	}
	if longest != "" {
		sch := st.OutcomeSchedule[longest]
		x1 := explore.RunOnce(sp.Body, sch)
		x2 := explore.RunOnce(sp.Body, sch)
		if x1.Outcome() != longest || x2.Outcome() != longest {
			return hidden(fmt.Sprintf("schedule %v gave %q, then %q and %q", sch, clip(longest, 150), clip(x1.Outcome(), 150), clip(x2.Outcome(), 150)))
		}
	}
	for _, o := range outs {
		want := judge(o)
		if want == "" {
			continue
		}
		sch := st.OutcomeSchedule[o]
		confirmed := 0
		for i := 0; i < 5; i++ {
			if explore.RunOnce(sp.Body, sch).Outcome() == o {
				confirmed++
			}
		}
		if confirmed < 5 {
			hidden(fmt.Sprintf("outcome %q reproduced only %d/5 times from its schedule %v", clip(o, 150), confirmed, sch))
			continue
		}
		r.Violate(Violation{Check: sp.Check, API: sp.API, Input: sp.Name, Expected: want, Got: o, Schedule: sch, Replays: confirmed})
	}
	if len(r.Samples) < 3 {
		r.Sample(map[string]interface{}{"harness": sp.Name, "mode": st.Mode, "executions": st.Execs, "complete_traces": st.Complete,
			"transitions": st.Transitions, "distinct_outcomes": len(st.Outcomes), "max_enabled": st.MaxEnabled,
			"bound_completed": st.BoundCompleted, "exhaustive": st.Exhaustive, "example_outcome": clip(firstKey(outs), 120)})
	}
	if !st.Exhaustive && sp.Mode != "bounded" {
		r.Exhaustive = false
	}
	return st
}

func firstKey(s []string) string {
	if len(s) == 0 {
		return ""
	}
	return s[0]
}
