package core

import (
	"fmt"
	"os"
	"runtime"
	"sort"
	"strings"
	"time"

	"verif.local/engine/explore"
)

// SchedSpec describes one scheduled harness.
type SchedSpec struct {
	Name   string
	API    string
	Check  string
	Body   func() string           // runs the real code under the controlled scheduler, returns the observation
	Judge  func(obs string) string // "" when the observation satisfies the oracle, else what was expected
	Mode   string                  // "dpor", "bounded", "naive"
	Opt    explore.Options
	Expect string // if Judge is nil: the only acceptable observation
}

func sameInts(a, b []int) bool {
	if len(a) != len(b) {
		return false
	}
	for i := range a {
		if a[i] != b[i] {
			return false
		}
	}
	return true
}

// Explore runs the harness: determinism self-check first, then the exploration; every distinct bad outcome
// is replayed 5 times from its recorded choice sequence before it is reported.
func Explore(r *Result, sp SchedSpec) *explore.Stats {
	// exactly one goroutine of a controlled execution runs at any time: keeping the hand-offs on one OS
	// thread makes them several times cheaper (the value the implementation sees is the vsched seam's)
	if sp.Opt.Deadline == 0 {
		// searches that are expected to be small carry no cap of their own; an edited tree can make them
		// arbitrarily large (more goroutines than the harness expected): end those with a reported cap
		sp.Opt.Deadline = 10 * time.Minute
	}
	if os.Getenv("VERIF_SCHED_MP") == "" {
		defer runtime.GOMAXPROCS(runtime.GOMAXPROCS(1))
	}
	judge := sp.Judge
	if judge == nil {
		judge = func(o string) string {
			if o == sp.Expect {
				return ""
			}
			return sp.Expect
		}
	}
	// The harnesses are deterministic functions of the schedule on the unchanged tree. On an edited tree state
	// may survive from one execution to the next inside the code under test (a cache, a lazily built table).
	// That is not a violation by itself — a correct cache changes the number of scheduling points of later
	// executions, not any result — so it is only recorded (the unit is then not exhaustive: recorded
	// schedules may not be replayable); wrong RESULTS are violations wherever they are observed, including in
	// the two default executions, and are reported even when they cannot be reproduced from their schedule.
	stateful := ""
	noteState := func(what string) {
		if stateful == "" {
			stateful = what
			r.Note("state_survives_between_executions", sp.Name+": "+what)
			r.Caps = append(r.Caps, sp.Name+": state survives between executions of the code under test ("+clip(what, 160)+"); exploration on a best-effort basis")
			r.Exhaustive = false
		}
	}
	reported := map[string]bool{}
	report := func(o string, sch []int, replays int, how string) {
		want := judge(o)
		if want == "" || reported[o] {
			return
		}
		reported[o] = true
		got := o
		if how != "" {
			got += " [" + how + "]"
		}
		r.Violate(Violation{Check: sp.Check, API: sp.API, Input: sp.Name, Expected: want, Got: got, Schedule: sch, Replays: replays})
	}
	// determinism: the empty prefix twice
	a := explore.RunOnce(sp.Body, nil)
	b := explore.RunOnce(sp.Body, nil)
	if a.Outcome() != b.Outcome() || !sameInts(a.Ns, b.Ns) {
		noteState(fmt.Sprintf("the default schedule gave %q (%d choice points), then %q (%d choice points)", clip(a.Outcome(), 120), len(a.Ns), clip(b.Outcome(), 120), len(b.Ns)))
		report(a.Outcome(), a.Choices, 1, "first execution of the default schedule")
		report(b.Outcome(), b.Choices, 1, "second execution of the default schedule")
	}
	var st *explore.Stats
	diverged := ""
	func() {
		defer func() {
			if e := recover(); e != nil {
				msg := fmt.Sprint(e)
				if strings.Contains(msg, "diverging replay") {
					diverged = msg
					return
				}
				panic(e)
			}
		}()
		switch sp.Mode {
		case "dpor":
			st = explore.DPOR(sp.Body, sp.Opt)
		case "naive":
			st = explore.Naive(sp.Body, sp.Opt)
		default:
			st = explore.Bounded(sp.Body, sp.Opt)
		}
	}()
	if diverged != "" {
		noteState("a recorded schedule could not be replayed: " + diverged)
		return &explore.Stats{Mode: sp.Mode, Outcomes: map[string]int{}, OutcomeSchedule: map[string][]int{}}
	}
	r.AddStats(st)
	// a non-trivial recorded schedule replayed twice
	var outs []string
	for o := range st.Outcomes {
		outs = append(outs, o)
	}
	sort.Strings(outs)
	longest := ""
	for _, o := range outs {
		if len(st.OutcomeSchedule[o]) >= len(st.OutcomeSchedule[longest]) {
			longest = o
		}
	}
	if longest != "" && stateful == "" {
		sch := st.OutcomeSchedule[longest]
		x1 := explore.RunOnce(sp.Body, sch)
		x2 := explore.RunOnce(sp.Body, sch)
		if x1.Outcome() != longest || x2.Outcome() != longest {
			noteState(fmt.Sprintf("schedule %v gave %q, then %q and %q", sch, clip(longest, 100), clip(x1.Outcome(), 100), clip(x2.Outcome(), 100)))
		}
	}
	for _, o := range outs {
		if judge(o) == "" {
			continue
		}
		sch := st.OutcomeSchedule[o]
		confirmed := 0
		func() {
			defer func() { recover() }() // a diverging replay of a stateful harness
			for i := 0; i < 5; i++ {
				if explore.RunOnce(sp.Body, sch).Outcome() == o {
					confirmed++
				}
			}
		}()
		how := ""
		if confirmed < 5 {
			noteState(fmt.Sprintf("outcome %q reproduced only %d/5 times from its schedule", clip(o, 100), confirmed))
			how = fmt.Sprintf("observed in a controlled execution of the real code; reproduced %d/5 times from its schedule because state survives between executions", confirmed)
		}
		report(o, sch, confirmed, how)
	}
	if len(r.Samples) < 3 {
		r.Sample(map[string]interface{}{"harness": sp.Name, "mode": st.Mode, "executions": st.Execs, "complete_traces": st.Complete,
			"transitions": st.Transitions, "distinct_outcomes": len(st.Outcomes), "max_enabled": st.MaxEnabled,
			"bound_completed": st.BoundCompleted, "exhaustive": st.Exhaustive, "example_outcome": clip(firstKey(outs), 120)})
	}
	if !st.Exhaustive && sp.Mode != "bounded" {
		r.Exhaustive = false
	}
	return st
}

func firstKey(s []string) string {
	if len(s) == 0 {
		return ""
	}
	return s[0]
}
