// Package core is the check framework: a property check is a deterministic list of units; the master
// process shards units over worker sub-processes (the controlled scheduler is process-global), merges the
// unit results, matches violations against /verif/known_findings.json, writes the replay artefacts and
// the evidence file, and prints the VIOLATION / KNOWN-FINDING lines.
package core

import (
	"bufio"
	"encoding/json"
	"fmt"
	"os"
	"os/exec"
	"path/filepath"
	"runtime"
	"sort"
	"strconv"
	"strings"
	"sync"
	"time"

	"verif.local/engine/explore"
)

// Violation is one counterexample.
type Violation struct {
	Property string `json:"property"`
	Unit     string `json:"unit"`
	Check    string `json:"check"` // which clause of the oracle failed, e.g. "c16.input_intact"
	API      string `json:"api"`   // entry point driven
	Input    string `json:"input"` // concrete input / history (hex or a readable description)
	Expected string `json:"expected"`
	Got      string `json:"got"`
	Schedule []int  `json:"schedule,omitempty"` // choice sequence for scheduled harnesses
	Replays  int    `json:"replays_confirmed,omitempty"`
}

// Result is what one unit reports.
type Result struct {
	Unit        string                 `json:"unit"`
	Evals       int64                  `json:"evals"`
	Nontrivial  int64                  `json:"nontrivial"`
	States      int64                  `json:"states"`
	Transitions int64                  `json:"transitions"`
	Traces      int64                  `json:"traces"`
	Samples     []interface{}          `json:"samples,omitempty"`
	Violations  []Violation            `json:"violations,omitempty"`
	NViol       int64                  `json:"nviol"` // total violations seen (Violations is capped)
	Notes       map[string]interface{} `json:"notes,omitempty"`
	Caps        []string               `json:"caps,omitempty"`
	Exhaustive  bool                   `json:"exhaustive"`
	Wall        float64                `json:"wall"`
	ToolError   string                 `json:"tool_error,omitempty"`
}

const maxViolPerUnit = 20

func (r *Result) Violate(v Violation) {
	r.NViol++
	if len(r.Violations) < maxViolPerUnit {
		r.Violations = append(r.Violations, v)
	}
}
func (r *Result) Sample(s interface{}) {
	if len(r.Samples) < 3 {
		r.Samples = append(r.Samples, s)
	}
}
func (r *Result) Note(k string, v interface{}) {
	if r.Notes == nil {
		r.Notes = map[string]interface{}{}
	}
	r.Notes[k] = v
}
func (r *Result) AddNote(k string, d int64) {
	if r.Notes == nil {
		r.Notes = map[string]interface{}{}
	}
	cur, _ := r.Notes[k].(int64)
	r.Notes[k] = cur + d
}

// AddStats folds an exploration into the unit result.
func (r *Result) AddStats(st *explore.Stats) {
	r.Evals += int64(st.Execs)
	r.Traces += int64(st.Complete)
	r.Transitions += st.Transitions
	r.States += st.NewStates // decision states of the explored schedule tree (replayed prefixes not re-counted) plus one end state per execution
	r.AddNote("sched_points", st.SchedPoints)
	r.AddNote("data_points", st.DataPoints)
	r.AddNote("collision_points", st.Collisions)
	r.AddNote("sleep_blocked", int64(st.SleepBlocked))
	if st.Cap != "" {
		r.Caps = append(r.Caps, st.Cap)
	}
}

// Ctx is handed to every unit.
type Ctx struct {
	Tier string
	Seed int64
	conf interface{}
	mk   func() interface{}
}

func (c *Ctx) Thorough() bool { return c.Tier == "thorough" }

// Unit is one independently runnable part of a check.
type Unit struct {
	Name string
	Run  func(ctx *Ctx, r *Result)
}

// Check describes a property check.
type Check struct {
	ID      string
	Level   string // evidence level
	Rule    string // how cases are enumerated and what makes one non-trivial
	Assume  []string
	Units   func(ctx *Ctx) []Unit
	Workers int // 0 = default
	// UnitTimeout > 0: a unit that does not finish within this time is reported as a violation of the
	// property's termination clause (the worker is killed). Used only by properties that state termination.
	UnitTimeout time.Duration
}

var registry = map[string]*Check{}

// Overloaded reports that the 1-minute load average is far above the number of CPUs: wall-clock limits then
// say nothing about termination.
func Overloaded() bool {
	b, err := os.ReadFile("/proc/loadavg")
	if err != nil {
		return false
	}
	var l1 float64
	fmt.Sscan(string(b), &l1)
	return l1 > 1.5*float64(runtime.NumCPU())
}

// crashHint: a fault while the arguments were write-protected, raised on a goroutine the harness does not
// own (an internal worker of the implementation), is a store into a caller-supplied input.
func crashHint(unit, es string) string {
	if unit == "write-protected arguments" && strings.Contains(es, "unexpected fault address") {
		return "a goroutine started by the call stored into a caller-supplied input (write-protected argument memory): "
	}
	return ""
}

func Register(c *Check) { registry[c.ID] = c }

func Lookup(id string) *Check { return registry[id] }

func IDs() []string {
	var ids []string
	for k := range registry {
		ids = append(ids, k)
	}
	sort.Strings(ids)
	return ids
}

// ---------- worker ----------

// WorkerMain serves unit indices read from stdin.
// memGuard ends a worker whose heap outgrows every legitimate unit by an order of magnitude (the sandbox has
// no memory limit and a machine-wide out-of-memory kill takes unrelated processes with it). The master
// reports the unit as stopped by a cap (not exhaustive), restarts the worker and goes on.
const memGuardExit = 97

// memGuardBytes: the workers of one check share about 40 GB; a single worker never gets less than 2.5 GB
// (the largest legitimate unit, the deep fingerprint of the configuration, needs well under 1 GB).
func memGuardBytes() uint64 {
	nw, _ := strconv.Atoi(os.Getenv("VERIF_NWORKERS"))
	if nw < 1 {
		nw = 16
	}
	b := uint64(40<<30) / uint64(nw)
	if b < 2560<<20 {
		b = 2560 << 20
	}
	if b > 8<<30 {
		b = 8 << 30
	}
	return b
}

func memGuard() {
	limit := memGuardBytes()
	go func() {
		var ms runtime.MemStats
		for {
			time.Sleep(250 * time.Millisecond)
			runtime.ReadMemStats(&ms)
			if ms.HeapAlloc > limit {
				fmt.Fprintf(os.Stderr, "verif: memory guard: heap %d MB\n", ms.HeapAlloc>>20)
				os.Exit(memGuardExit)
			}
		}
	}()
}

func WorkerMain(c *Check, ctx *Ctx) {
	memGuard()
	units := c.Units(ctx)
	in := bufio.NewScanner(os.Stdin)
	out := bufio.NewWriter(os.Stdout)
	for in.Scan() {
		idx, err := strconv.Atoi(strings.TrimSpace(in.Text()))
		if err != nil || idx < 0 || idx >= len(units) {
			fmt.Fprintf(os.Stderr, "worker: bad unit index %q\n", in.Text())
			os.Exit(3)
		}
		r := runUnit(c, ctx, units[idx])
		b, _ := json.Marshal(r)
		out.Write(b)
		out.WriteByte('\n')
		out.Flush()
	}
}

func runUnit(c *Check, ctx *Ctx, u Unit) (r *Result) {
	r = &Result{Unit: u.Name, Exhaustive: true}
	t0 := time.Now()
	defer func() {
		if e := recover(); e != nil {
			buf := make([]byte, 8192)
			n := runtime.Stack(buf, false)
			st := string(buf[:n])
			if msg := fmt.Sprint(e); strings.HasPrefix(msg, "verif: seam unavailable") {
				// an export wrapper no longer fits the edited tree: the sub-check that needs it cannot run
				r.Note("seam_unavailable", msg)
				r.Exhaustive = false
				r.Caps = append(r.Caps, msg+" (unit ended early)")
			} else if f, ok := e.(ImplFault); ok {
				// the harness could not go on because a call of the implementation failed on valid input
				r.Violate(Violation{Check: strings.ToLower(c.ID) + ".api_error", API: f.API, Input: f.Input, Expected: "success on valid input", Got: f.Got + " (unit " + u.Name + " ended early)"})
				r.Exhaustive = false
			} else if implFrames(st) {
				// the panic crossed frames of the implementation: no valid call may panic
				r.Violate(Violation{Check: strings.ToLower(c.ID) + ".panic", API: "see stack", Input: "unit " + u.Name, Expected: "no panic", Got: fmt.Sprintf("panic: %v\n%s", e, st)})
				r.Exhaustive = false
			} else {
				r.ToolError = fmt.Sprintf("panic in harness/oracle code of unit %s: %v\n%s", u.Name, e, st)
			}
		}
		r.Wall = time.Since(t0).Seconds()
		for i := range r.Violations {
			r.Violations[i].Property = c.ID
			r.Violations[i].Unit = u.Name
		}
	}()
	u.Run(ctx, r)
	return r
}

// ImplFault is the panic value harness code uses when a call of the implementation returns an error (or an
// unusable result) for valid input and the unit cannot continue: reported as a violation, not a tooling error.
type ImplFault struct{ API, Input, Got string }

// implFrames reports whether a stack trace contains frames of go-ipa itself (not of the shim).
func implFrames(st string) bool {
	for _, ln := range strings.Split(st, "\n") {
		if strings.Contains(ln, "github.com/crate-crypto/go-ipa") && !strings.Contains(ln, "/zzverif/") {
			return true
		}
	}
	return false
}

// ---------- master ----------

type knownEntry struct {
	Kind     string            `json:"kind"` // "finding" or "fixed"
	Property string            `json:"property"`
	Commit   string            `json:"commit,omitempty"`
	What     string            `json:"what"`
	Match    map[string]string `json:"match"`
}

func loadKnown(verifDir string) []knownEntry {
	b, err := os.ReadFile(filepath.Join(verifDir, "known_findings.json"))
	if err != nil {
		return nil
	}
	var f struct {
		Entries []knownEntry `json:"entries"`
	}
	if err := json.Unmarshal(b, &f); err != nil {
		fmt.Fprintln(os.Stderr, "known_findings.json unreadable:", err)
		os.Exit(3)
	}
	return f.Entries
}

func (k knownEntry) matches(v Violation) bool {
	if k.Kind != "finding" || k.Property != v.Property {
		return false
	}
	for key, want := range k.Match {
		var got string
		switch key {
		case "check":
			got = v.Check
		case "api":
			got = v.API
		case "input":
			got = v.Input
		default:
			return false
		}
		if got != want {
			return false
		}
	}
	return len(k.Match) > 0
}

// MasterMain runs the check and returns the process exit code.
func MasterMain(c *Check, ctx *Ctx, verifDir string, unitFilter string) int {
	t0 := time.Now()
	units := c.Units(ctx)
	var todo []int
	for i, u := range units {
		if unitFilter == "" || u.Name == unitFilter {
			todo = append(todo, i)
		}
	}
	if len(todo) == 0 {
		fmt.Fprintf(os.Stderr, "no unit matches %q\n", unitFilter)
		return 3
	}
	nw := c.Workers
	if nw == 0 {
		nw = runtime.NumCPU()
	}
	if nw > len(todo) {
		nw = len(todo)
	}
	if c.UnitTimeout == 0 {
		// every unit is a finite enumeration that normally takes seconds to a few minutes: one that is still
		// running after this generous limit is a call that does not return (reported against the property)
		c.UnitTimeout = 30 * time.Minute
		if ctx.Thorough() {
			c.UnitTimeout = 4 * time.Hour
		}
	}
	self, _ := os.Executable()
	results := make([]*Result, len(units))
	var mu sync.Mutex
	next := 0
	var wg sync.WaitGroup
	toolErr := ""
	anyCrash := false
	for w := 0; w < nw; w++ {
		wg.Add(1)
		go func(w int) {
			defer wg.Done()
			cmd := exec.Command(self, "-prop", c.ID, "-tier", ctx.Tier, "-seed", fmt.Sprint(ctx.Seed), "-worker")
			var errBuf tailBuf
			cmd.Stderr = &errBuf
			cmd.Env = append(os.Environ(), "VERIF_WORKER=1", fmt.Sprintf("VERIF_NWORKERS=%d", nw))
			stdin, _ := cmd.StdinPipe()
			stdout, _ := cmd.StdoutPipe()
			if err := cmd.Start(); err != nil {
				mu.Lock()
				toolErr = "cannot start worker: " + err.Error()
				mu.Unlock()
				return
			}
			rd := bufio.NewReaderSize(stdout, 1<<20)
			crashed := false
			for {
				mu.Lock()
				if next >= len(todo) || toolErr != "" {
					mu.Unlock()
					break
				}
				idx := todo[next]
				next++
				mu.Unlock()
				fmt.Fprintf(stdin, "%d\n", idx)
				timedOut := false
				stopWatch := make(chan struct{})
				if c.UnitTimeout > 0 {
					// the limit is a verdict about termination, not about speed: while the machine is overcommitted
					// (load far above the CPU count) it is extended, up to four times
					go func() {
						for n := 1; ; n++ {
							select {
							case <-stopWatch:
								return
							case <-time.After(c.UnitTimeout):
								if n < 4 && Overloaded() {
									continue
								}
								timedOut = true
								cmd.Process.Kill()
								return
							}
						}
					}()
				}
				line, err := rd.ReadBytes('\n')
				close(stopWatch)
				if err != nil && timedOut {
					cmd.Wait()
					mu.Lock()
					results[idx] = &Result{Unit: units[idx].Name, NViol: 1, Violations: []Violation{{Property: c.ID, Unit: units[idx].Name,
						Check: strings.ToLower(c.ID) + ".termination", API: "see unit", Input: "unit " + units[idx].Name, Expected: fmt.Sprintf("the unit finishes (normally seconds); generous limit %s", c.UnitTimeout), Got: "still running: a call blocks forever (or diverges)"}}}
					crashed = true
					anyCrash = true
					mu.Unlock()
					break
				}
				if err != nil {
					werr := cmd.Wait()
					es := errBuf.String()
					mu.Lock()
					if werr != nil && strings.Contains(werr.Error(), "signal: killed") && strings.TrimSpace(es) == "" {
						// killed from outside without a word (the kernel's out-of-memory killer when several runs share
						// the machine): no verdict about the property, the unit is reported as not covered
						results[idx] = &Result{Unit: units[idx].Name, Exhaustive: false, Caps: []string{units[idx].Name + ": the worker process was killed by the system (out of memory?); unit not covered"}}
						crashed = true
						anyCrash = true
					} else if strings.Contains(es, "verif: memory guard") {
						results[idx] = &Result{Unit: units[idx].Name, Exhaustive: false, Caps: []string{units[idx].Name + ": stopped by the memory guard (" + strings.TrimSpace(clip(es, 200)) + ")"}}
						crashed = true
						anyCrash = true
					} else if implFrames(es) && (strings.Contains(es, "panic:") || strings.Contains(es, "fatal error:")) {
						// the worker process crashed inside the implementation (a panic in an unmanaged goroutine,
						// a runtime-detected deadlock, a concurrent map write ...): a violation, not a tooling error
						results[idx] = &Result{Unit: units[idx].Name, NViol: 1, Violations: []Violation{{Property: c.ID, Unit: units[idx].Name,
							Check: strings.ToLower(c.ID) + ".crash", API: "see stack", Input: "unit " + units[idx].Name, Expected: "no crash", Got: crashHint(units[idx].Name, es) + clip(es, 3000)}}}
						crashed = true
						anyCrash = true
					} else {
						toolErr = fmt.Sprintf("worker died while running unit %s: %v\n%s", units[idx].Name, err, clip(es, 3000))
					}
					mu.Unlock()
					break
				}
				var r Result
				if err := json.Unmarshal(line, &r); err != nil {
					mu.Lock()
					toolErr = fmt.Sprintf("worker output unreadable for unit %s: %v", units[idx].Name, err)
					mu.Unlock()
					break
				}
				mu.Lock()
				results[idx] = &r
				mu.Unlock()
			}
			stdin.Close()
			cmd.Wait()
			if s := errBuf.String(); s != "" && !crashed {
				os.Stderr.WriteString(s)
			}
		}(w)
	}
	wg.Wait()
	if toolErr != "" {
		fmt.Println("TOOL-ERROR:", toolErr)
		return 3
	}
	// aggregate
	known := loadKnown(verifDir)
	var evals, nontriv, states, trans, traces, nviol int64
	var samples []interface{}
	var caps []string
	exhaustive := true
	perUnit := map[string]interface{}{}
	notes := map[string]interface{}{}
	var viols []Violation
	for _, idx := range todo {
		r := results[idx]
		if r == nil {
			if anyCrash {
				exhaustive = false
				caps = append(caps, units[idx].Name+": not run (workers crashed)")
				continue
			}
			fmt.Println("TOOL-ERROR: missing result for unit", units[idx].Name)
			return 3
		}
		if r.ToolError != "" {
			fmt.Println("TOOL-ERROR:", r.ToolError)
			return 3
		}
		evals += r.Evals
		nontriv += r.Nontrivial
		states += r.States
		trans += r.Transitions
		traces += r.Traces
		nviol += r.NViol
		if len(samples) < 6 {
			for _, s := range r.Samples {
				if len(samples) < 6 {
					samples = append(samples, map[string]interface{}{"unit": r.Unit, "case": s})
				}
			}
		}
		for _, cp := range r.Caps {
			caps = append(caps, r.Unit+": "+cp)
		}
		if !r.Exhaustive || len(r.Caps) > 0 {
			exhaustive = false
		}
		pu := map[string]interface{}{"evals": r.Evals, "nontrivial": r.Nontrivial, "wall_s": round2(r.Wall), "exhaustive": r.Exhaustive && len(r.Caps) == 0}
		if r.States > 0 {
			pu["states"] = r.States
			pu["transitions"] = r.Transitions
			pu["traces"] = r.Traces
		}
		for k, v := range r.Notes {
			pu[k] = v
			if f, ok := v.(float64); ok && (strings.HasSuffix(k, "_points") || strings.HasPrefix(k, "n_")) {
				cur, _ := notes[k].(float64)
				notes[k] = cur + f
			}
		}
		perUnit[r.Unit] = pu
		viols = append(viols, r.Violations...)
	}
	// classify violations
	exit := 0
	os.MkdirAll(filepath.Join(verifDir, "replays"), 0o755)
	old, _ := filepath.Glob(filepath.Join(verifDir, "replays", c.ID+"-*.json"))
	for _, f := range old {
		os.Remove(f)
	}
	knownPrinted := map[string]bool{}
	nUnknown := 0
	for _, v := range viols {
		matched := false
		for _, k := range known {
			if k.matches(v) {
				matched = true
				if !knownPrinted[k.What] {
					fmt.Printf("KNOWN-FINDING: property=%s %s\n", c.ID, k.What)
					knownPrinted[k.What] = true
				}
				break
			}
		}
		if matched {
			continue
		}
		nUnknown++
		if nUnknown > 25 {
			continue
		}
		path := filepath.Join(verifDir, "replays", fmt.Sprintf("%s-%d.json", c.ID, nUnknown))
		b, _ := json.MarshalIndent(map[string]interface{}{"violation": v, "tier": ctx.Tier, "seed": ctx.Seed}, "", " ")
		os.WriteFile(path, b, 0o644)
		fmt.Printf("VIOLATION property=%s replay=%s\n", c.ID, path)
		fmt.Printf("  unit=%s check=%s api=%s\n  input=%s\n  expected=%s\n  got=%s\n", v.Unit, v.Check, v.API, clip(v.Input, 400), clip(v.Expected, 300), clip(v.Got, 300))
		exit = 1
	}
	if nUnknown > 25 {
		fmt.Printf("(%d further violations not written out)\n", nUnknown-25)
	}
	if len(viols) > 0 {
		hist := map[string]int{}
		for _, v := range viols {
			hist[v.Check+" @ "+v.API]++
		}
		var ks []string
		for k := range hist {
			ks = append(ks, k)
		}
		sort.Strings(ks)
		for _, k := range ks {
			fmt.Printf("  violations by clause: %-60s %d\n", k, hist[k])
		}
	}
	// evidence
	cov := map[string]interface{}{
		"evaluations":         evals,
		"distinct_nontrivial": nontriv,
		"rule":                c.Rule,
		"samples":             samples,
		"exhaustive":          exhaustive,
		"units":               perUnit,
		"caps_hit":            caps,
		"workers":             nw,
		"configuration":       map[string]interface{}{"num_cpu": runtime.NumCPU(), "gomaxprocs_master": runtime.GOMAXPROCS(0), "go": runtime.Version()},
	}
	for k, v := range notes {
		cov[k] = v
	}
	if c.Level == "model_checking" {
		cov["states"] = states
		cov["transitions"] = trans
		cov["traces_validated_against_impl"] = traces
	} else if states > 0 {
		cov["states"] = states
		cov["transitions"] = trans
		cov["traces_validated_against_impl"] = traces
	}
	ev := map[string]interface{}{
		"property_id": c.ID,
		"tier":        ctx.Tier,
		"seed":        ctx.Seed,
		"level":       c.Level,
		"coverage":    cov,
		"assumptions": c.Assume,
		"wall_s":      round2(time.Since(t0).Seconds()),
		"violations":  nUnknown,
	}
	if unitFilter == "" && c.ID != "SELFTEST" {
		os.MkdirAll(filepath.Join(verifDir, "evidence"), 0o755)
		b, _ := json.MarshalIndent(ev, "", " ")
		if err := os.WriteFile(filepath.Join(verifDir, "evidence", c.ID+".json"), b, 0o644); err != nil {
			fmt.Println("TOOL-ERROR: cannot write evidence:", err)
			return 3
		}
	}
	fmt.Printf("%s %s: units=%d evaluations=%d nontrivial=%d states=%d transitions=%d traces=%d exhaustive=%v violations=%d known=%d wall=%.1fs\n",
		c.ID, ctx.Tier, len(todo), evals, nontriv, states, trans, traces, exhaustive, nUnknown, len(knownPrinted), time.Since(t0).Seconds())
	for _, cp := range caps {
		fmt.Println("  cap:", cp)
	}
	return exit
}

// tailBuf keeps the first 64 KiB written to it.
type tailBuf struct {
	mu sync.Mutex
	b  []byte
}

func (t *tailBuf) Write(p []byte) (int, error) {
	t.mu.Lock()
	defer t.mu.Unlock()
	if len(t.b) < 65536 {
		t.b = append(t.b, p...)
	}
	return len(p), nil
}
func (t *tailBuf) String() string { t.mu.Lock(); defer t.mu.Unlock(); return string(t.b) }

func round2(f float64) float64 { return float64(int64(f*100)) / 100 }

func clip(s string, n int) string {
	if len(s) > n {
		return s[:n] + "…"
	}
	return s
}

// RunUnitJSON runs one unit in this process and prints its Result as one JSON line (used to run a unit
// inside another build flavour of the same binary).
func RunUnitJSON(c *Check, ctx *Ctx, name string) int {
	for _, u := range c.Units(ctx) {
		if u.Name == name {
			r := runUnit(c, ctx, u)
			b, _ := json.Marshal(r)
			fmt.Println(string(b))
			return 0
		}
	}
	fmt.Fprintln(os.Stderr, "no such unit:", name)
	return 3
}

// RunInFlavour executes unit `name` of check c in another binary and folds its result into r.
func RunInFlavour(c *Check, ctx *Ctx, bin, name string, r *Result) {
	cmd := exec.Command(bin, "-prop", c.ID, "-tier", ctx.Tier, "-seed", fmt.Sprint(ctx.Seed), "-rununit", name)
	cmd.Stderr = os.Stderr
	cmd.Env = append(os.Environ(), "VERIF_FLAVOUR_CHILD=1")
	out, err := cmd.Output()
	if err != nil {
		r.ToolError = fmt.Sprintf("flavour binary %s failed on unit %s: %v", bin, name, err)
		return
	}
	var sub Result
	if err := json.Unmarshal(out, &sub); err != nil {
		r.ToolError = fmt.Sprintf("flavour binary %s: unreadable result for unit %s: %v", bin, name, err)
		return
	}
	if sub.ToolError != "" {
		r.ToolError = sub.ToolError
		return
	}
	r.Evals += sub.Evals
	r.Nontrivial += sub.Nontrivial
	r.NViol += sub.NViol
	r.Violations = append(r.Violations, sub.Violations...)
	r.Samples = append(r.Samples, sub.Samples...)
	for k, v := range sub.Notes {
		r.Note(k, v)
	}
	if !sub.Exhaustive {
		r.Exhaustive = false
	}
}
