package core

import (
	"hash/maphash"
	"math/big"
	"reflect"
	"sort"
	"unsafe"
)

// DeepHasher computes a fingerprint of everything reachable from a value: private fields included
// (reflect + unsafe), slices up to their capacity, maps in sorted key order. Pointer identity is not
// part of the fingerprint, pointed-to content is. Flat memory (no pointers inside) is hashed raw.
type DeepHasher struct {
	h    maphash.Hash
	seen map[unsafe.Pointer]bool
	flat map[reflect.Type]bool
	N    int64 // bytes hashed
}

var deepSeed = maphash.MakeSeed()

func NewDeepHasher() *DeepHasher {
	d := &DeepHasher{seen: map[unsafe.Pointer]bool{}, flat: map[reflect.Type]bool{}}
	d.h.SetSeed(deepSeed)
	return d
}

func (d *DeepHasher) Sum() uint64 { return d.h.Sum64() }

func (d *DeepHasher) isFlat(t reflect.Type) bool {
	if v, ok := d.flat[t]; ok {
		return v
	}
	var r bool
	switch t.Kind() {
	case reflect.Bool, reflect.Int, reflect.Int8, reflect.Int16, reflect.Int32, reflect.Int64, reflect.Uint, reflect.Uint8, reflect.Uint16,
		reflect.Uint32, reflect.Uint64, reflect.Uintptr, reflect.Float32, reflect.Float64, reflect.Complex64, reflect.Complex128:
		r = true
	case reflect.Array:
		r = d.isFlat(t.Elem())
	case reflect.Struct:
		r = true
		for i := 0; i < t.NumField(); i++ {
			if !d.isFlat(t.Field(i).Type) {
				r = false
				break
			}
		}
	}
	d.flat[t] = r
	return r
}

func (d *DeepHasher) raw(p unsafe.Pointer, n uintptr) {
	if n == 0 || p == nil {
		return
	}
	d.h.Write(unsafe.Slice((*byte)(p), n))
	d.N += int64(n)
}

var bigIntType = reflect.TypeOf(big.Int{})

// Add folds the value pointed to by ptr (any pointer) into the fingerprint.
func (d *DeepHasher) Add(ptr interface{}) {
	v := reflect.ValueOf(ptr)
	if v.Kind() != reflect.Ptr {
		// take the address of a copy (value semantics)
		c := reflect.New(v.Type())
		c.Elem().Set(v)
		v = c
	}
	d.walk(v.Elem())
}

func (d *DeepHasher) tag(b byte) { d.h.WriteByte(b) }

func (d *DeepHasher) walk(v reflect.Value) {
	t := v.Type()
	if v.CanAddr() && d.isFlat(t) {
		d.raw(unsafe.Pointer(v.UnsafeAddr()), t.Size())
		return
	}
	if t == bigIntType && v.CanAddr() {
		b := (*big.Int)(unsafe.Pointer(v.UnsafeAddr()))
		d.tag(byte(b.Sign() + 1))
		d.h.Write(b.Bytes())
		return
	}
	switch t.Kind() {
	case reflect.Ptr:
		if v.IsNil() {
			d.tag(0)
			return
		}
		p := unsafe.Pointer(v.Pointer())
		if d.seen[p] {
			d.tag(2)
			return
		}
		d.seen[p] = true
		d.tag(1)
		d.walk(v.Elem())
	case reflect.Slice:
		if v.IsNil() {
			d.tag(0)
			return
		}
		d.tag(1)
		n, c := v.Len(), v.Cap()
		d.h.WriteByte(byte(n))
		d.h.WriteByte(byte(n >> 8))
		d.h.WriteByte(byte(n >> 16))
		full := v
		if c > n {
			full = v.Slice3(0, c, c) // content up to capacity is part of the state
		}
		et := t.Elem()
		if d.isFlat(et) {
			if c > 0 {
				d.raw(unsafe.Pointer(full.Pointer()), uintptr(c)*et.Size())
			}
			return
		}
		for i := 0; i < c; i++ {
			d.walk(full.Index(i))
		}
	case reflect.Array:
		for i := 0; i < v.Len(); i++ {
			d.walk(v.Index(i))
		}
	case reflect.Struct:
		for i := 0; i < v.NumField(); i++ {
			f := v.Field(i)
			if !f.CanAddr() {
				// unaddressable struct (should not happen: everything is reached through pointers)
				continue
			}
			f = reflect.NewAt(f.Type(), unsafe.Pointer(f.UnsafeAddr())).Elem() // lift the private-field restriction
			d.walk(f)
		}
	case reflect.Map:
		if v.IsNil() {
			d.tag(0)
			return
		}
		keys := v.MapKeys()
		sort.Slice(keys, func(i, j int) bool { return keyLess(keys[i], keys[j]) })
		for _, k := range keys {
			kc := reflect.New(k.Type()).Elem()
			kc.Set(k)
			d.walk(kc)
			vc := reflect.New(t.Elem()).Elem()
			vc.Set(v.MapIndex(k))
			d.walk(vc)
		}
	case reflect.Interface:
		if v.IsNil() {
			d.tag(0)
			return
		}
		e := v.Elem()
		c := reflect.New(e.Type()).Elem()
		c.Set(e)
		d.walk(c)
	case reflect.String:
		d.h.WriteString(v.String())
	case reflect.Func, reflect.Chan, reflect.UnsafePointer:
		// identity only
		if v.IsNil() {
			d.tag(0)
		} else {
			d.tag(1)
		}
	default:
		// non-addressable scalar
		c := reflect.New(t).Elem()
		c.Set(v)
		d.raw(unsafe.Pointer(c.UnsafeAddr()), t.Size())
	}
}

func keyLess(a, b reflect.Value) bool {
	switch a.Kind() {
	case reflect.Int, reflect.Int8, reflect.Int16, reflect.Int32, reflect.Int64:
		return a.Int() < b.Int()
	case reflect.Uint, reflect.Uint8, reflect.Uint16, reflect.Uint32, reflect.Uint64, reflect.Uintptr:
		return a.Uint() < b.Uint()
	case reflect.String:
		return a.String() < b.String()
	}
	return false
}

// Fingerprint of a list of pointers.
func Fingerprint(ptrs ...interface{}) uint64 {
	d := NewDeepHasher()
	for _, p := range ptrs {
		d.Add(p)
	}
	return d.Sum()
}
