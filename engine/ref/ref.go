// Package ref is the independent reference model (math/big only, written from the Verkle cryptography
// specification; shares no code with go-ipa or gnark-crypto). It is bound to the outside world by the
// cross-implementation known-answer vectors in kat.go.
package ref

import (
	"crypto/sha256"
	"encoding/binary"
	"hash"
	"math/big"
	"sync"
)

var (
	P, _  = new(big.Int).SetString("52435875175126190479447740508185965837690552500527637822603658699938581184513", 10)
	R, _  = new(big.Int).SetString("13108968793781547619861935127046491459309155893440570251786403306729687672801", 10)
	A     = new(big.Int).Sub(P, big.NewInt(5))
	D, _  = new(big.Int).SetString("45022363124591815672509500913686876175488063829319466900776701791074614335719", 10)
	GX, _ = new(big.Int).SetString("18886178867200960497001835917649091219057080094937609519140440539760939937304", 10)
	GY, _ = new(big.Int).SetString("19188667384257783945677642223292697773471335439753913231509108946878080696678", 10)
	halfP = new(big.Int).Rsh(new(big.Int).Sub(P, big.NewInt(1)), 1)
)

func modp(x *big.Int) *big.Int    { return x.Mod(x, P) }
func mulp(a, b *big.Int) *big.Int { return modp(new(big.Int).Mul(a, b)) }
func addp(a, b *big.Int) *big.Int { return modp(new(big.Int).Add(a, b)) }
func subp(a, b *big.Int) *big.Int { return modp(new(big.Int).Sub(a, b)) }
func invp(a *big.Int) *big.Int {
	if a.Sign() == 0 {
		return new(big.Int)
	}
	return new(big.Int).ModInverse(a, P)
}
func mulr(a, b *big.Int) *big.Int { x := new(big.Int).Mul(a, b); return x.Mod(x, R) }
func addr(a, b *big.Int) *big.Int { x := new(big.Int).Add(a, b); return x.Mod(x, R) }
func subr(a, b *big.Int) *big.Int { x := new(big.Int).Sub(a, b); return x.Mod(x, R) }
func invr(a *big.Int) *big.Int {
	if a.Sign() == 0 {
		return new(big.Int)
	}
	return new(big.Int).ModInverse(a, R)
}

// Pt: extended projective coordinates (X:Y:Z), T omitted (projective formulas), on a*x^2+y^2=1+d*x^2*y^2
type Pt struct{ X, Y, Z *big.Int }

func Identity() Pt { return Pt{new(big.Int), big.NewInt(1), big.NewInt(1)} }
func Gen() Pt      { return Pt{new(big.Int).Set(GX), new(big.Int).Set(GY), big.NewInt(1)} }

// projective addition add-2008-bbjlp (complete for our use)
func Add(p, q Pt) Pt {
	a := mulp(p.Z, q.Z)
	b := mulp(a, a)
	c := mulp(p.X, q.X)
	d := mulp(p.Y, q.Y)
	e := mulp(D, mulp(c, d))
	f := subp(b, e)
	g := addp(b, e)
	x3 := mulp(mulp(a, f), subp(subp(mulp(addp(p.X, p.Y), addp(q.X, q.Y)), c), d))
	y3 := mulp(mulp(a, g), subp(d, mulp(A, c)))
	z3 := mulp(f, g)
	return Pt{x3, y3, z3}
}
func Neg(p Pt) Pt { return Pt{subp(new(big.Int), p.X), p.Y, p.Z} }
func Mul(p Pt, k *big.Int) Pt {
	res := Identity()
	for i := k.BitLen() - 1; i >= 0; i-- {
		res = Add(res, res)
		if k.Bit(i) == 1 {
			res = Add(res, p)
		}
	}
	return res
}
func Affine(p Pt) (x, y *big.Int) {
	zi := invp(p.Z)
	return mulp(p.X, zi), mulp(p.Y, zi)
}
func SameClass(p, q Pt) bool { // x1*y2 == x2*y1 (classes {P, P+T2})
	return mulp(p.X, q.Y).Cmp(mulp(q.X, p.Y)) == 0
}
func Compress(p Pt) [32]byte {
	x, y := Affine(p)
	if y.Cmp(halfP) <= 0 {
		x = subp(new(big.Int), x)
	}
	var out [32]byte
	x.FillBytes(out[:])
	return out
}
func Decompress(b []byte) (Pt, bool) {
	if len(b) != 32 {
		return Pt{}, false
	}
	x := new(big.Int).SetBytes(b)
	if x.Cmp(P) >= 0 {
		return Pt{}, false
	}
	x2 := mulp(x, x)
	num := subp(mulp(A, x2), big.NewInt(1))
	den := subp(mulp(D, x2), big.NewInt(1))
	u := mulp(num, invp(den))
	y := new(big.Int).ModSqrt(u, P)
	if y == nil {
		return Pt{}, false
	}
	if big.Jacobi(subp(big.NewInt(1), mulp(A, x2)), P) != 1 {
		return Pt{}, false
	}
	if y.Cmp(halfP) <= 0 {
		y = subp(new(big.Int), y)
	}
	return Pt{x, y, big.NewInt(1)}, true
}

func CRS(n int) []Pt {
	var pts []Pt
	for i := uint64(0); len(pts) < n; i++ {
		h := sha256.New()
		h.Write([]byte("eth_verkle_oct_2021"))
		var b [8]byte
		binary.BigEndian.PutUint64(b[:], i)
		h.Write(b[:])
		x := new(big.Int).SetBytes(h.Sum(nil))
		x.Mod(x, P)
		var xb [32]byte
		x.FillBytes(xb[:])
		if p, ok := Decompress(xb[:]); ok {
			pts = append(pts, p)
		}
	}
	return pts
}

// ---- transcript
type Transcript struct{ h hash.Hash }

func NewTranscript(label string) *Transcript {
	t := &Transcript{sha256.New()}
	t.h.Write([]byte(label))
	return t
}
func le32(x *big.Int) []byte {
	var b [32]byte
	x.FillBytes(b[:])
	for i, j := 0, 31; i < j; i, j = i+1, j-1 {
		b[i], b[j] = b[j], b[i]
	}
	return b[:]
}
func (t *Transcript) DomainSep(l string)                { t.h.Write([]byte(l)) }
func (t *Transcript) AppendMessage(m []byte, l string)  { t.h.Write([]byte(l)); t.h.Write(m) }
func (t *Transcript) AppendScalar(s *big.Int, l string) { t.AppendMessage(le32(s), l) }
func (t *Transcript) AppendPoint(p Pt, l string)        { c := Compress(p); t.AppendMessage(c[:], l) }
func (t *Transcript) Challenge(l string) *big.Int {
	t.DomainSep(l)
	d := t.h.Sum(nil)
	t.h = sha256.New()
	for i, j := 0, 31; i < j; i, j = i+1, j-1 {
		d[i], d[j] = d[j], d[i]
	}
	c := new(big.Int).SetBytes(d)
	c.Mod(c, R)
	t.AppendScalar(c, l)
	return c
}

// ---- msm (naive) and commit
func MSM(pts []Pt, ss []*big.Int) Pt {
	res := Identity()
	for i := range pts {
		if ss[i].Sign() != 0 {
			res = Add(res, Mul(pts[i], ss[i]))
		}
	}
	return res
}
func inner(a, b []*big.Int) *big.Int {
	s := new(big.Int)
	for i := range a {
		s = addr(s, mulr(a[i], b[i]))
	}
	return s
}

// ---- barycentric / coefficient form helpers
func masterA() []*big.Int { // coefficients of prod (X - i), low to high
	c := []*big.Int{big.NewInt(1)}
	for i := 0; i < 256; i++ {
		n := make([]*big.Int, len(c)+1)
		for j := range n {
			n[j] = new(big.Int)
		}
		for j, cj := range c {
			n[j+1] = addr(n[j+1], cj)
			n[j] = subr(n[j], mulr(cj, big.NewInt(int64(i))))
		}
		c = n
	}
	return c
}
func horner(c []*big.Int, z *big.Int) *big.Int {
	s := new(big.Int)
	for i := len(c) - 1; i >= 0; i-- {
		s = addr(mulr(s, z), c[i])
	}
	return s
}
func synthDiv(c []*big.Int, k *big.Int) []*big.Int { // c / (X-k), exact or dropping remainder
	n := len(c) - 1
	q := make([]*big.Int, n)
	carry := new(big.Int)
	for i := n; i >= 1; i-- {
		carry = addr(c[i], mulr(carry, k))
		q[i-1] = carry
	}
	return q
}

var (
	Acoef  []*big.Int
	Aprime [256]*big.Int
)

func initBary() {
	Acoef = masterA()
	for i := 0; i < 256; i++ {
		q := synthDiv(Acoef, big.NewInt(int64(i)))
		Aprime[i] = horner(q, big.NewInt(int64(i)))
	}
}
func bvec(z *big.Int) []*big.Int {
	ensureBary()
	b := make([]*big.Int, 256)
	if z.Cmp(big.NewInt(255)) <= 0 {
		for i := range b {
			b[i] = new(big.Int)
		}
		b[z.Int64()] = big.NewInt(1)
		return b
	}
	az := horner(Acoef, z)
	for i := range b {
		b[i] = mulr(az, invr(mulr(Aprime[i], subr(z, big.NewInt(int64(i))))))
	}
	return b
}

// interpolate evaluation form to coefficients: sum f_i * A/(X-i)/A'(i)
func interpolate(f []*big.Int) []*big.Int {
	ensureBary()
	c := make([]*big.Int, 256)
	for i := range c {
		c[i] = new(big.Int)
	}
	for i := 0; i < 256; i++ {
		if f[i].Sign() == 0 {
			continue
		}
		li := synthDiv(Acoef, big.NewInt(int64(i)))
		w := mulr(f[i], invr(Aprime[i]))
		for j := range li {
			c[j] = addr(c[j], mulr(li[j], w))
		}
	}
	return c
}
func quotientEval(f []*big.Int, k int) []*big.Int { // (p(X)-p(k))/(X-k) on the domain, via coefficient form
	c := interpolate(f)
	c[0] = subr(c[0], f[k])
	q := synthDiv(c, big.NewInt(int64(k)))
	out := make([]*big.Int, 256)
	for i := range out {
		out[i] = horner(q, big.NewInt(int64(i)))
	}
	return out
}

// ---- IPA
type IPAProof struct {
	L, R []Pt
	A    *big.Int
}

func (p IPAProof) Bytes() []byte {
	var out []byte
	for _, l := range p.L {
		c := Compress(l)
		out = append(out, c[:]...)
	}
	for _, r := range p.R {
		c := Compress(r)
		out = append(out, c[:]...)
	}
	return append(out, le32(p.A)...)
}

func IPAProve(tr *Transcript, srs []Pt, C Pt, a []*big.Int, z *big.Int) IPAProof {
	tr.DomainSep("ipa")
	b := bvec(z)
	y := inner(a, b)
	tr.AppendPoint(C, "C")
	tr.AppendScalar(z, "input point")
	tr.AppendScalar(y, "output point")
	w := tr.Challenge("w")
	q := Mul(Gen(), w)
	g := srs
	var pr IPAProof
	for len(a) > 1 {
		m := len(a) / 2
		aL, aR, bL, bR, gL, gR := a[:m], a[m:], b[:m], b[m:], g[:m], g[m:]
		L := Add(msmAuto(gL, aR), Mul(q, inner(aR, bL)))
		Rr := Add(msmAuto(gR, aL), Mul(q, inner(aL, bR)))
		pr.L = append(pr.L, L)
		pr.R = append(pr.R, Rr)
		tr.AppendPoint(L, "L")
		tr.AppendPoint(Rr, "R")
		x := tr.Challenge("x")
		xi := invr(x)
		na, nb, ng := make([]*big.Int, m), make([]*big.Int, m), make([]Pt, m)
		for i := 0; i < m; i++ {
			na[i] = addr(aL[i], mulr(x, aR[i]))
			nb[i] = addr(bL[i], mulr(xi, bR[i]))
			ng[i] = Add(gL[i], Mul(gR[i], xi))
		}
		a, b, g = na, nb, ng
	}
	pr.A = a[0]
	return pr
}

func IPAVerify(tr *Transcript, srs []Pt, C Pt, pr IPAProof, z, y *big.Int) bool {
	tr.DomainSep("ipa")
	b := bvec(z)
	tr.AppendPoint(C, "C")
	tr.AppendScalar(z, "input point")
	tr.AppendScalar(y, "output point")
	w := tr.Challenge("w")
	q := Mul(Gen(), w)
	Cp := Add(C, Mul(q, y))
	g := srs
	for i := range pr.L {
		tr.AppendPoint(pr.L[i], "L")
		tr.AppendPoint(pr.R[i], "R")
		x := tr.Challenge("x")
		xi := invr(x)
		Cp = Add(Cp, Add(Mul(pr.L[i], x), Mul(pr.R[i], xi)))
		m := len(g) / 2
		nb, ng := make([]*big.Int, m), make([]Pt, m)
		for j := 0; j < m; j++ {
			nb[j] = addr(b[j], mulr(xi, b[m+j]))
			ng[j] = Add(g[j], Mul(g[m+j], xi))
		}
		b, g = nb, ng
	}
	got := Add(Mul(g[0], pr.A), Mul(q, mulr(pr.A, b[0])))
	return SameClass(got, Cp)
}

// ---- multiproof
func MultiProve(tr *Transcript, srs []Pt, Cs []Pt, fs [][]*big.Int, zs []int) (Pt, IPAProof) {
	tr.DomainSep("multiproof")
	for i := range Cs {
		tr.AppendPoint(Cs[i], "C")
		tr.AppendScalar(big.NewInt(int64(zs[i])), "z")
		tr.AppendScalar(fs[i][zs[i]], "y")
	}
	rho := tr.Challenge("r")
	g := make([]*big.Int, 256)
	for i := range g {
		g[i] = new(big.Int)
	}
	pw := big.NewInt(1)
	pows := []*big.Int{}
	for i := range Cs {
		pows = append(pows, pw)
		q := quotientEval(fs[i], zs[i])
		for j := range g {
			g[j] = addr(g[j], mulr(pw, q[j]))
		}
		pw = mulr(pw, rho)
	}
	Dp := msmAuto(srs, g)
	tr.AppendPoint(Dp, "D")
	t := tr.Challenge("t")
	h := make([]*big.Int, 256)
	for i := range h {
		h[i] = new(big.Int)
	}
	for i := range Cs {
		den := invr(subr(t, big.NewInt(int64(zs[i]))))
		w := mulr(pows[i], den)
		for j := range h {
			h[j] = addr(h[j], mulr(w, fs[i][j]))
		}
	}
	E := msmAuto(srs, h)
	tr.AppendPoint(E, "E")
	hmg := make([]*big.Int, 256)
	for i := range hmg {
		hmg[i] = subr(h[i], g[i])
	}
	return Dp, IPAProve(tr, srs, Add(E, Neg(Dp)), hmg, t)
}

// ---------- exported helpers ----------

var baryOnce sync.Once

func ensureBary() { baryOnce.Do(initBary) }

func ModR(x *big.Int) *big.Int                    { return new(big.Int).Mod(x, R) }
func MulR(a, b *big.Int) *big.Int                 { return mulr(a, b) }
func AddR(a, b *big.Int) *big.Int                 { return addr(a, b) }
func SubR(a, b *big.Int) *big.Int                 { return subr(a, b) }
func InvR(a *big.Int) *big.Int                    { return invr(a) }
func MulP(a, b *big.Int) *big.Int                 { return mulp(a, b) }
func AddP(a, b *big.Int) *big.Int                 { return addp(a, b) }
func SubP(a, b *big.Int) *big.Int                 { return subp(a, b) }
func InvP(a *big.Int) *big.Int                    { return invp(a) }
func LE32(x *big.Int) []byte                      { return le32(x) }
func Inner(a, b []*big.Int) *big.Int              { return inner(a, b) }
func Horner(c []*big.Int, z *big.Int) *big.Int    { return horner(c, z) }
func Interpolate(f []*big.Int) []*big.Int         { ensureBary(); return interpolate(f) }
func QuotientEval(f []*big.Int, k int) []*big.Int { ensureBary(); return quotientEval(f, k) }
func BVec(z *big.Int) []*big.Int                  { ensureBary(); return bvec(z) }
func APrime(i int) *big.Int                       { ensureBary(); return Aprime[i] }
func ACoef() []*big.Int                           { ensureBary(); return Acoef }

// T2 is the point of order two (0,-1).
func T2() Pt { return Pt{new(big.Int), subp(new(big.Int), big.NewInt(1)), big.NewInt(1)} }

func Sub(p, q Pt) Pt { return Add(p, Neg(q)) }

// OnCurve tests a*x^2 + y^2 = 1 + d*x^2*y^2 on the affine point.
func OnCurve(p Pt) bool {
	if p.Z.Sign() == 0 {
		return false
	}
	x, y := Affine(p)
	x2, y2 := mulp(x, x), mulp(y, y)
	l := addp(mulp(A, x2), y2)
	r := addp(big.NewInt(1), mulp(D, mulp(x2, y2)))
	return l.Cmp(r) == 0
}

// IsIdentityClass: x == 0 (the class {(0,1),(0,-1)}).
func IsIdentityClass(p Pt) bool { x, _ := Affine(p); return x.Sign() == 0 && p.Z.Sign() != 0 }

// MapToField = LE-integer(x/y mod p) mod r.
func MapToField(p Pt) *big.Int {
	v := mulp(p.X, invp(p.Y))
	// the library reinterprets the base-field bytes little-endian: the integer value itself, reduced mod r
	return new(big.Int).Mod(v, R)
}

// DecodeUncompressed is the reference predicate of the untrusted 64-byte form.
func DecodeUncompressed(b []byte) (Pt, bool) {
	if len(b) != 64 {
		return Pt{}, false
	}
	p, ok := Decompress(b[:32])
	if !ok {
		return Pt{}, false
	}
	var yb [32]byte
	p.Y.FillBytes(yb[:])
	for i := range yb {
		if yb[i] != b[32+i] {
			return Pt{}, false
		}
	}
	return p, true
}

// CurvePointWithX returns the affine point (x, y) with the lexicographically largest (or smallest) y, if any.
func CurvePointWithX(x *big.Int, largest bool) (Pt, bool) {
	x2 := mulp(x, x)
	num := subp(mulp(A, x2), big.NewInt(1))
	den := subp(mulp(D, x2), big.NewInt(1))
	u := mulp(num, invp(den))
	y := new(big.Int).ModSqrt(u, P)
	if y == nil {
		return Pt{}, false
	}
	if (y.Cmp(halfP) > 0) != largest {
		y = subp(new(big.Int), y)
	}
	return Pt{new(big.Int).Set(x), y, big.NewInt(1)}, true
}

// MSMBucket: 8-bit bucket method (used only where a 256-point sum is on the critical path).
func MSMBucket(pts []Pt, ss []*big.Int) Pt {
	res := Identity()
	for w := 31; w >= 0; w-- {
		for i := 0; i < 8; i++ {
			res = Add(res, res)
		}
		var buckets [256]*Pt
		any := false
		for i := range pts {
			d := 0
			for b := 0; b < 8; b++ {
				d |= int(ss[i].Bit(w*8+b)) << b
			}
			if d == 0 {
				continue
			}
			any = true
			if buckets[d] == nil {
				p := pts[i]
				buckets[d] = &p
			} else {
				q := Add(*buckets[d], pts[i])
				buckets[d] = &q
			}
		}
		if !any {
			continue
		}
		run, sum := Identity(), Identity()
		for d := 255; d >= 1; d-- {
			if buckets[d] != nil {
				run = Add(run, *buckets[d])
			}
			sum = Add(sum, run)
		}
		res = Add(res, sum)
	}
	return res
}

// Commit = sum v_i G_i (naive for short/sparse vectors, buckets for dense ones).
func Commit(srs []Pt, v []*big.Int) Pt {
	nz := 0
	for _, x := range v {
		if x.Sign() != 0 {
			nz++
		}
	}
	if nz <= 24 {
		return MSM(srs[:len(v)], v)
	}
	return MSMBucket(srs[:len(v)], v)
}

// IPAVerifyFast is the same verification equation with g0 and b0 obtained from the challenge products
// (mathematically identical to folding; the reference uses whichever is cheaper).
func IPAVerifyFast(tr *Transcript, srs []Pt, C Pt, pr IPAProof, z, y *big.Int) bool {
	tr.DomainSep("ipa")
	b := BVec(z)
	tr.AppendPoint(C, "C")
	tr.AppendScalar(z, "input point")
	tr.AppendScalar(y, "output point")
	w := tr.Challenge("w")
	q := Mul(Gen(), w)
	Cp := Add(C, Mul(q, y))
	n := len(pr.L)
	xinv := make([]*big.Int, n)
	for i := range pr.L {
		tr.AppendPoint(pr.L[i], "L")
		tr.AppendPoint(pr.R[i], "R")
		x := tr.Challenge("x")
		xinv[i] = invr(x)
		Cp = Add(Cp, Add(Mul(pr.L[i], x), Mul(pr.R[i], xinv[i])))
	}
	s := make([]*big.Int, len(srs))
	for i := range s {
		v := big.NewInt(1)
		for j := 0; j < n; j++ {
			if i&(1<<(n-1-j)) != 0 {
				v = mulr(v, xinv[j])
			}
		}
		s[i] = v
	}
	g0 := MSMBucket(srs, s)
	b0 := inner(b, s)
	got := Add(Mul(g0, pr.A), Mul(q, mulr(pr.A, b0)))
	if got.X.Sign() == 0 && got.Y.Sign() == 0 {
		return false
	}
	return SameClass(got, Cp)
}

// MultiProveFast is MultiProve with bucket commitments.
func MultiProveBytes(label string, srs []Pt, Cs []Pt, fs [][]*big.Int, zs []int) (proof []byte, state *big.Int) {
	tr := NewTranscript(label)
	Dp, ip := MultiProve(tr, srs, Cs, fs, zs)
	dc := Compress(Dp)
	return append(dc[:], ip.Bytes()...), tr.Challenge("state")
}

// MultiVerify evaluates the multiproof verification equation of the specification.
// It returns (accepted, shapeError).
func MultiVerify(tr *Transcript, srs []Pt, Dp Pt, pr IPAProof, Cs []Pt, ys []*big.Int, zs []int) (bool, bool) {
	tr.DomainSep("multiproof")
	if len(Cs) != len(ys) || len(Cs) != len(zs) || len(Cs) == 0 {
		return false, true
	}
	for i := range Cs {
		tr.AppendPoint(Cs[i], "C")
		tr.AppendScalar(big.NewInt(int64(zs[i])), "z")
		tr.AppendScalar(ys[i], "y")
	}
	rho := tr.Challenge("r")
	tr.AppendPoint(Dp, "D")
	t := tr.Challenge("t")
	pw := big.NewInt(1)
	g2 := new(big.Int)
	E := Identity()
	// group scalars per distinct commitment pointer is an optimisation the reference does not need
	for i := range Cs {
		den := invr(subr(t, big.NewInt(int64(zs[i]))))
		w := mulr(pw, den)
		E = Add(E, Mul(Cs[i], w))
		g2 = addr(g2, mulr(w, ys[i]))
		pw = mulr(pw, rho)
	}
	tr.AppendPoint(E, "E")
	if len(pr.L) != 8 || len(pr.R) != 8 {
		tr.DomainSep("ipa")
		return false, true
	}
	return IPAVerifyFast(tr, srs, Sub(E, Dp), pr, t, g2), false
}

func msmAuto(pts []Pt, ss []*big.Int) Pt {
	if len(pts) >= 24 {
		return MSMBucket(pts, ss)
	}
	return MSM(pts, ss)
}
