package ref

import (
	"crypto/sha256"
	"encoding/hex"
	"fmt"
	"math/big"
	"sync"
)

// Known-answer vectors pinned by several Verkle implementations (hard-coded here, not read from /repo).

var katGenDoublings = []string{"4a2c7486fd924882bf02c6908de395122843e3e05264d7991e18e7985dad51e9", "43aa74ef706605705989e8fd38df46873b7eae5921fbed115ac9d937399ce4d5", "5e5f550494159f38aa54d2ed7f11a7e93e4968617990445cc93ac8e59808c126", "0e7e3748db7c5c999a7bcd93d71d671f1f40090423792266f94cb27ca43fce5c", "14ddaa48820cb6523b9ae5fe9fe257cbbd1f3d598a28e670a40da5d1159d864a", "6989d1c82b2d05c74b62fb0fbdf8843adae62ff720d370e209a7b84e14548a7d", "26b8df6fa414bf348a3dc780ea53b70303ce49f3369212dec6fbe4b349b832bf", "37e46072db18f038f2cc7d3d5b5d1374c0eb86ca46f869d6a95fc2fb092c0d35", "2c1ce64f26e1c772282a6633fac7ca73067ae820637ce348bb2c8477d228dc7d", "297ab0f5a8336a7a4e2657ad7a33a66e360fb6e50812d4be3326fab73d6cee07", "5b285811efa7a965bd6ef5632151ebf399115fcc8f5b9b8083415ce533cc39ce", "1f939fa2fd457b3effb82b25d3fe8ab965f54015f108f8c09d67e696294ab626", "3088dcb4d3f4bacd706487648b239e0be3072ed2059d981fe04ce6525af6f1b8", "35fbc386a16d0227ff8673bc3760ad6b11009f749bb82d4facaea67f58fc60ed", "00f29b4f3255e318438f0a31e058e4c081085426adb0479f14c64985d0b956e0", "3fa4384b2fa0ecc3c0582223602921daaa893a97b64bdf94dcaa504e8b7b9e5f"}
var katBadSubgroup = []string{"280e608d5bbbe84b16aac62aa450e8921840ea563f1c9c266e0240d89cbe6a78", "1b6989e2393c65bbad7567929cdbd72bbf0218521d975b0fb209fba0ee493c32", "31468782818807366dbbcd20b9f10f0d5b93f22e33fe49b450dfbddaf3ba6a9b", "6bfc4097e4874cdddebe74e041fcd329d8455278cd42b6dd4f40b042d4fc466b", "65dc0a9730cce485d82b230ce32c7c21688967c8943b4a51ba468f927e2e28ef", "0fd3536157199b46617c3fba4bae1c2ffab5409dfea1de62161bc10748651671", "5bdc73f43e90ae5c2956320ce2ef2b17809b11d6b9758c7861793b41f39b7c01", "23a89c778ee10b9925ad3df5dc1f7ab244c1daf305669bc6b03d1aaa100037a4", "67505814852867356aaa8387896efa1d1b9a72aad95549e53e69c15eb36a642c", "301bc9b1129a727c2a65b96f55a5bcd642a3d37e0834196863c4430e4281dc3a", "45d08715ac67ebb088bcfa3d04bcce76510edeb9e23f12ed512894ba1e6518fc", "0b3b6e1f8ec72e63c6aa7ae87628071df3d82ea2bea6516d1948dac2edc12179", "72430a05f507747aa5a42481b4f93522aa682b1d56e5285f089aa1b5fb09c67a", "5eb4d3e5ce8107c6dd7c6398f2a903a0df75ce655939c29a3e309f43fe5bcd1f", "6671109a7a15f4852ead3298318595a36010930fddbd3c8f667c6390e7ac3c66", "120faa1df94d5d831bbb69fc44816e25afd27288a333299ac3c94518fd0e016f"}

const katIPA = "273395a8febdaed38e94c3d874e99c911a47dd84616d54c55021d5c4131b507e46a4ec2c7e82b77ec2f533994c91ca7edaef212c666a1169b29c323eabb0cf690e0146638d0e2d543f81da4bd597bf3013e1663f340a8f87b845495598d0a3951590b6417f868edaeb3424ff174901d1185a53a3ee127fb7be0af42dda44bf992885bde279ef821a298087717ef3f2b78b2ede7f5d2ea1b60a4195de86a530eb247fd7e456012ae9a070c61635e55d1b7a340dfab8dae991d6273d099d9552815434cc1ba7bcdae341cf7928c6f25102370bdf4b26aad3af654d9dff4b3735661db3177342de5aad774a59d3e1b12754aee641d5f9cd1ecd2751471b308d2d8410add1c9fcc5a2b7371259f0538270832a98d18151f653efbc60895fab8be9650510449081626b5cd24671d1a3253487d44f589c2ff0da3557e307e520cf4e0054bbf8bdffaa24b7e4cce5092ccae5a08281ee24758374f4e65f126cacce64051905b5e2038060ad399c69ca6cb1d596d7c9cb5e161c7dcddc1a7ad62660dd4a5f69b31229b80e6b3df520714e4ea2b5896ebd48d14c7455e91c1ecf4acc5ffb36937c49413b7d1005dd6efbd526f5af5d61131ca3fcdae1218ce81c75e62b39100ec7f474b48a2bee6cef453fa1bc3db95c7c6575bc2d5927cbf7413181ac905766a4038a7b422a8ef2bf7b5059b5c546c19a33c1049482b9a9093f864913ca82290decf6e9a65bf3f66bc3ba4a8ed17b56d890a83bcbe74435a42499dec115"
const katMulti = "4f53588244efaf07a370ee3f9c467f933eed360d4fbf7a19dfc8bc49b67df4711bf1d0a720717cd6a8c75f1a668cb7cbdd63b48c676b89a7aee4298e71bd7f4013d7657146aa9736817da47051ed6a45fc7b5a61d00eb23e5df82a7f285cc10e67d444e91618465ca68d8ae4f2c916d1942201b7e2aae491ef0f809867d00e83468fb7f9af9b42ede76c1e90d89dd789ff22eb09e8b1d062d8a58b6f88b3cbe80136fc68331178cd45a1df9496ded092d976911b5244b85bc3de41e844ec194256b39aeee4ea55538a36139211e9910ad6b7a74e75d45b869d0a67aa4bf600930a5f760dfb8e4df9938d1f47b743d71c78ba8585e3b80aba26d24b1f50b36fa1458e79d54c05f58049245392bc3e2b5c5f9a1b99d43ed112ca82b201fb143d401741713188e47f1d6682b0bf496a5d4182836121efff0fd3b030fc6bfb5e21d6314a200963fe75cb856d444a813426b2084dfdc49dca2e649cb9da8bcb47859a4c629e97898e3547c591e39764110a224150d579c33fb74fa5eb96427036899c04154feab5344873d36a53a5baefd78c132be419f3f3a8dd8f60f72eb78dd5f43c53226f5ceb68947da3e19a750d760fb31fa8d4c7f53bfef11c4b89158aa56b1f4395430e16a3128f88e234ce1df7ef865f2d2c4975e8c82225f578310c31fd41d265fd530cbfa2b8895b228a510b806c31dff3b1fa5c08bffad443d567ed0e628febdd22775776e0cc9cebcaea9c6df9279a5d91dd0ee5e7a0434e989a160005321c97026cb559f71db23360105460d959bcdf74bee22c4ad8805a1d497507"

var (
	srsOnce sync.Once
	srsPts  []Pt
)

// SRS returns the 256 CRS points of the reference.
func SRS() []Pt {
	srsOnce.Do(func() { srsPts = CRS(256) })
	return srsPts
}

// KAT binds the reference model to the outside world; full=false skips the two whole-proof vectors.
func KAT(full bool) error {
	srs := SRS()
	hx := func(b []byte) string { return hex.EncodeToString(b) }
	c0, c255 := Compress(srs[0]), Compress(srs[255])
	h := sha256.New()
	for _, p := range srs {
		c := Compress(p)
		h.Write(c[:])
	}
	if hx(c0[:]) != "01587ad1336675eb912550ec2a28eb8923b824b490dd2ba82e48f14590a298a0" || hx(c255[:]) != "3de2be346b539395b0c0de56a5ccca54a317f1b5c80107b0802af9a62276a4d8" ||
		hx(h.Sum(nil)) != "1fcaea10bf24f750200e06fa473c76ff0468007291fa548e2d99f09ba9256fdb" {
		return fmt.Errorf("CRS vectors")
	}
	tr := NewTranscript("simple_protocol")
	if hx(le32(tr.Challenge("simple_challenge"))) != "c2aa02607cbdf5595f00ee0dd94a2bbff0bed6a2bf8452ada9011eadb538d003" {
		return fmt.Errorf("transcript vector 1")
	}
	tr = NewTranscript("simple_protocol")
	tr.AppendScalar(big.NewInt(5), "five")
	tr.AppendScalar(big.NewInt(5), "five again")
	if hx(le32(tr.Challenge("simple_challenge"))) != "498732b694a8ae1622d4a9347535be589e4aee6999ffc0181d13fe9e4d037b0b" {
		return fmt.Errorf("transcript vector 2")
	}
	tr = NewTranscript("simple_protocol")
	m1 := new(big.Int).Sub(R, big.NewInt(1))
	tr.AppendScalar(m1, "-1")
	tr.DomainSep("separate me")
	tr.AppendScalar(m1, "-1 again")
	tr.DomainSep("separate me again")
	tr.AppendScalar(big.NewInt(1), "now 1")
	if hx(le32(tr.Challenge("simple_challenge"))) != "14f59938e9e9b1389e74311a464f45d3d88d8ac96adf1c1129ac466de088d618" {
		return fmt.Errorf("transcript vector 3")
	}
	tr = NewTranscript("simple_protocol")
	tr.AppendPoint(Gen(), "generator")
	if hx(le32(tr.Challenge("simple_challenge"))) != "8c2dafe7c0aabfa9ed542bb2cbf0568399ae794fc44fdfd7dff6cc0e6144921c" {
		return fmt.Errorf("transcript vector 4")
	}
	p := Gen()
	for i, want := range katGenDoublings {
		c := Compress(p)
		if hx(c[:]) != want {
			return fmt.Errorf("generator doubling %d encoding", i)
		}
		b, _ := hex.DecodeString(want)
		q, ok := Decompress(b)
		if !ok || !SameClass(q, p) {
			return fmt.Errorf("generator doubling %d decoding", i)
		}
		p = Add(p, p)
	}
	for i, s := range katBadSubgroup {
		b, _ := hex.DecodeString(s)
		if _, ok := Decompress(b); ok {
			return fmt.Errorf("bad-subgroup vector %d accepted", i)
		}
	}
	polyA := make([]*big.Int, 256)
	polyB := make([]*big.Int, 256)
	for i := range polyA {
		polyA[i] = big.NewInt(int64(i%32 + 1))
		polyB[i] = big.NewInt(int64(32 - i%32))
	}
	CA := MSMBucket(srs, polyA)
	ca := Compress(CA)
	if hx(ca[:]) != "1b9dff8f5ebbac250d291dfe90e36283a227c64b113c37f1bfb9e7a743cdb128" {
		return fmt.Errorf("commitment vector")
	}
	if nv := MSM(srs[:3], polyA[:3]); !SameClass(nv, MSMBucket(srs[:3], polyA[:3])) {
		return fmt.Errorf("naive and bucket MSM disagree")
	}
	if !full {
		return nil
	}
	tr = NewTranscript("test")
	z := big.NewInt(2101)
	pr := IPAProve(tr, srs, CA, polyA, z)
	y := inner(polyA, BVec(z))
	if hx(le32(y)) != "4a353e70b03c89f161de002e8713beec0d740a5e20722fd5bd68b30540a33208" || hx(le32(tr.Challenge("state"))) != "0a81881cbfd7d7197a54ebd67ed6a68b5867f3c783706675b34ece43e85e7306" || hx(pr.Bytes()) != katIPA {
		return fmt.Errorf("IPA proof vector")
	}
	if !IPAVerify(NewTranscript("test"), srs, CA, pr, z, y) || !IPAVerifyFast(NewTranscript("test"), srs, CA, pr, z, y) {
		return fmt.Errorf("IPA vector does not verify")
	}
	if IPAVerifyFast(NewTranscript("test"), srs, CA, pr, z, addr(y, big.NewInt(1))) {
		return fmt.Errorf("IPA vector verifies with y+1")
	}
	CB := MSMBucket(srs, polyB)
	mb, st := MultiProveBytes("test", srs, []Pt{CA, CB}, [][]*big.Int{polyA, polyB}, []int{0, 0})
	if hx(le32(st)) != "eee8a80357ff74b766eba39db90797d022e8d6dee426ded71234241be504d519" || hx(mb) != katMulti {
		return fmt.Errorf("multiproof vector")
	}
	return nil
}
