package ref

import "testing"

func TestKAT(t *testing.T) {
	if err := KAT(true); err != nil {
		t.Fatal(err)
	}
}
