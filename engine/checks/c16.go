package checks

import (
	"bytes"
	"fmt"
	"math/big"

	"github.com/crate-crypto/go-ipa/bandersnatch/fp"
	"github.com/crate-crypto/go-ipa/bandersnatch/fr"
	"github.com/crate-crypto/go-ipa/common"
	"verif.local/engine/core"
)

// C16 — scalar encodings round-trip, reduce or reject exactly, and leave the input intact.

func beInt(b []byte) *big.Int { return new(big.Int).SetBytes(b) }
func leInt(b []byte) *big.Int {
	c := make([]byte, len(b))
	for i := range b {
		c[len(b)-1-i] = b[i]
	}
	return new(big.Int).SetBytes(c)
}

// withSlack returns a copy of b inside a larger array (sentinel bytes beyond len, within cap).
func withSlack(b []byte) []byte {
	buf := make([]byte, len(b)+8)
	copy(buf, b)
	for i := len(b); i < len(buf); i++ {
		buf[i] = 0xA5
	}
	return buf[:len(b)]
}
func fullCap(b []byte) []byte { return b[:cap(b)] }

func c16ByteStrings(seed int64, thorough bool) [][]byte {
	var out [][]byte
	seen := map[string]bool{}
	add := func(b []byte) {
		if len(b) > 64 {
			return
		}
		k := string(b)
		if !seen[k] {
			seen[k] = true
			out = append(out, append([]byte(nil), b...))
		}
	}
	two := func(k uint) *big.Int { return pow2(k) }
	vals := []*big.Int{bi(0), bi(1), bi(255), bi(256), new(big.Int).Sub(bigR, bi(1)), bigR, new(big.Int).Add(bigR, bi(1)),
		new(big.Int).Sub(new(big.Int).Lsh(bigR, 1), bi(1)), new(big.Int).Lsh(bigR, 1), two(253), new(big.Int).Sub(two(253), bi(1)),
		new(big.Int).Sub(two(256), bi(1)), two(255), new(big.Int).Sub(two(64), bi(1)), two(64), two(128), two(192),
		new(big.Int).Sub(bigP, bi(1)), bigP}
	// r and 2r plus/minus the limb-boundary offsets: each 64-bit limb of the value on either side of the
	// corresponding limb of r while the higher limbs are equal
	for _, base := range []*big.Int{bigR, new(big.Int).Lsh(bigR, 1)} {
		for _, e := range []uint{1, 63, 64, 65, 127, 128, 129, 191, 192, 193} {
			for _, d := range []int64{-1, 0, 1} {
				off := new(big.Int).Add(two(e), bi(d))
				if up := new(big.Int).Add(base, off); up.BitLen() <= 256 {
					vals = append(vals, up)
				}
				vals = append(vals, new(big.Int).Sub(base, off))
			}
		}
	}
	for i := 0; i < 4; i++ {
		vals = append(vals, prfR(seed, "c16", i), prf(seed, "c16w", i))
	}
	for L := 0; L <= 64; L++ {
		add(bytes.Repeat([]byte{0x00}, L))
		add(bytes.Repeat([]byte{0xFF}, L))
		add(bytes.Repeat([]byte{0x80}, L))
		if L > 0 {
			b := bytes.Repeat([]byte{0}, L)
			b[0] = 1
			add(b)
			b = bytes.Repeat([]byte{0}, L)
			b[L-1] = 1
			add(b)
		}
		for _, v := range vals {
			raw := v.Bytes() // big-endian, minimal
			if len(raw) > L {
				continue
			}
			be := make([]byte, L)
			copy(be[L-len(raw):], raw) // value big-endian with leading zeros
			add(be)
			le := make([]byte, L)
			for i := range raw {
				le[i] = raw[len(raw)-1-i] // value little-endian with trailing zeros
			}
			add(le)
			if L > 32 && len(raw) <= 32 {
				g := append([]byte(nil), le...)
				for i := 32; i < L; i++ {
					g[i] = 0xFF
				}
				add(g)
				g = append([]byte(nil), be...)
				for i := 0; i < L-32; i++ {
					g[i] = 0xFF
				}
				add(g)
			}
		}
	}
	return out
}

func init() {
	core.Register(&core.Check{
		ID: "C16", Level: "exploration",
		Rule:   "byte strings: every length 0..64 x fill patterns x boundary values (0,1,r-1,r,r+1,2r-1,2r,2^253,2^256-1,p-1,p,limb boundaries,PRF) in big- and little-endian placement with zero/0xFF padding, each through every decoder; scalars: S_edge alphabet through every encoder/decoder pair; a case is (decoder, byte string) or (codec pair, scalar); non-trivial = value >= r, length != 32, or non-zero padding",
		Assume: []string{"reference: math/big integer value of the byte string", "input slices are checked up to capacity (sentinel bytes beyond len)"},
		Units:  c16Units,
	})
}

func c16Units(ctx *core.Ctx) []core.Unit {
	type dec struct {
		name   string
		le     bool
		canon  bool
		only32 bool
		f      func(b []byte) (fr.Element, error)
	}
	decs := []dec{
		{"fr.Element.SetBytes", false, false, false, func(b []byte) (fr.Element, error) { e := dirtyFr(); e.SetBytes(b); return e, nil }},
		{"fr.Element.SetBytesLE", true, false, false, func(b []byte) (fr.Element, error) { e := dirtyFr(); e.SetBytesLE(b); return e, nil }},
		{"fr.Element.SetBytesLECanonical", true, true, false, func(b []byte) (fr.Element, error) {
			e := dirtyFr()
			_, err := e.SetBytesLECanonical(b)
			return e, err
		}},
		{"common.ReadScalar", true, true, true, func(b []byte) (fr.Element, error) {
			s, err := common.ReadScalar(bytes.NewReader(b))
			if err != nil {
				return fr.Element{}, err
			}
			return *s, nil
		}},
	}
	var us []core.Unit
	for _, d := range decs {
		d := d
		us = append(us, core.Unit{Name: "decode " + d.name, Run: func(ctx *core.Ctx, r *core.Result) {
			strs := c16ByteStrings(ctx.Seed, ctx.Thorough())
			for bi_, b := range strs {
				if d.only32 && len(b) != 32 {
					continue
				}
				in := fmt.Sprintf("%s(%x) [len %d]", d.name, b, len(b))
				if bi_%4 == 1 {
					// history: over-long (and, for the canonical decoder, rejected) strings were decoded just before
					long := make([]byte, 64)
					for i := range long {
						long[i] = byte(0xA1 + 3*i)
					}
					var t fr.Element
					t.SetBytes(long)
					t.SetBytesLE(long)
					t.SetBytesLECanonical(long)
					t.SetBytesLE(long[:47])
					in += " after decodes of 64- and 47-byte strings"
				}
				var want *big.Int
				if d.le {
					want = leInt(b)
				} else {
					want = beInt(b)
				}
				accept := !d.canon || want.Cmp(bigR) < 0
				buf := withSlack(b)
				var got fr.Element
				var err error
				if !guard(r, "c16.panic", d.name, in, func() { got, err = d.f(buf) }) {
					continue
				}
				r.Evals++
				if want.Cmp(bigR) >= 0 || len(b) != 32 {
					r.Nontrivial++
				}
				if accept != (err == nil) {
					vio(r, "c16.accept", d.name, in, fmt.Sprintf("accepted=%v (integer value %s r)", accept, map[bool]string{true: "<", false: ">="}[want.Cmp(bigR) < 0]), fmt.Sprintf("err=%v", err))
				} else if accept {
					exp := new(big.Int).Mod(want, bigR)
					if frToBig(got).Cmp(exp) != 0 {
						vio(r, "c16.value", d.name, in, exp.Text(16), frToBig(got).Text(16))
					}
					if got[3] >= 0x1cfb69d4ca675f52 && !(got[3] == 0x1cfb69d4ca675f52) {
						vio(r, "c16.reduced", d.name, in, "result limbs < r", fmt.Sprintf("%x", got[:]))
					}
				}
				if !bytes.Equal(fullCap(buf), fullCap(withSlack(b))) {
					vio(r, "c16.input_intact", d.name, in, fmt.Sprintf("input slice unchanged: %x", b), fmt.Sprintf("after the call: %x", fullCap(buf)))
				} else if accept && err == nil {
					// decoding the same buffer twice gives the same scalar
					got2, err2 := d.f(buf)
					if err2 != nil || !got2.Equal(&got) {
						vio(r, "c16.twice", d.name, in, "same scalar when decoding the same buffer twice", fmt.Sprintf("%s then %s (err %v)", frToBig(got).Text(16), frToBig(got2).Text(16), err2))
					}
				}
				if len(b) == 33 && b[0] == 1 {
					r.Sample(map[string]interface{}{"decoder": d.name, "bytes": hx(b), "accepted": err == nil, "value": frToBig(got).Text(16)})
				}
			}
		}})
	}
	us = append(us, core.Unit{Name: "round trips over S_edge", Run: func(ctx *core.Ctx, r *core.Result) {
		for _, s := range sEdge(ctx.Seed, true) {
			e := frFromBig(s)
			in := "scalar " + s.Text(16)
			r.Evals++
			r.Nontrivial++
			be := e.Bytes()
			le := e.BytesLE()
			var wantBE [32]byte
			s.FillBytes(wantBE[:])
			if be != wantBE {
				vio(r, "c16.bytes", "fr.Element.Bytes", in, hx(wantBE[:]), hx(be[:]))
			}
			for i := range le {
				if le[i] != wantBE[31-i] {
					vio(r, "c16.bytes", "fr.Element.BytesLE", in, "little-endian encoding of "+s.Text(16), hx(le[:]))
					break
				}
			}
			if m := e.Marshal(); !bytes.Equal(m, wantBE[:]) {
				vio(r, "c16.bytes", "fr.Element.Marshal", in, hx(wantBE[:]), hx(m))
			}
			d1, d2, d3 := dirtyFr(), dirtyFr(), dirtyFr()
			d1.SetBytes(append([]byte(nil), be[:]...))
			d2.SetBytesLE(append([]byte(nil), le[:]...))
			_, err := d3.SetBytesLECanonical(append([]byte(nil), le[:]...))
			if !d1.Equal(&e) {
				vio(r, "c16.roundtrip", "fr.Element.SetBytes(Bytes)", in, s.Text(16), frToBig(d1).Text(16))
			}
			if !d2.Equal(&e) {
				vio(r, "c16.roundtrip", "fr.Element.SetBytesLE(BytesLE)", in, s.Text(16), frToBig(d2).Text(16))
			}
			if err != nil || !d3.Equal(&e) {
				vio(r, "c16.roundtrip", "fr.Element.SetBytesLECanonical(BytesLE)", in, s.Text(16), fmt.Sprintf("%s err=%v", frToBig(d3).Text(16), err))
			}
			// base field little-endian bytes (used by map-to-field)
			pv := new(big.Int).Mod(new(big.Int).Mul(s, s), bigP)
			pe := fpFromBig(pv)
			pb := fp.BytesLE(pe)
			if leInt(pb).Cmp(pv) != 0 || len(pb) != 32 {
				vio(r, "c16.bytes", "fp.BytesLE", "base-field value "+pv.Text(16), "32-byte little-endian encoding", hx(pb))
			}
			r.Sample(map[string]interface{}{"scalar": s.Text(16), "bytesLE": hx(le[:])})
		}
	}})
	return us
}
