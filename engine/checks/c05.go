package checks

import (
	"fmt"
	"math/big"

	"github.com/crate-crypto/go-ipa/bandersnatch/fr"
	"github.com/crate-crypto/go-ipa/banderwagon"
	"github.com/crate-crypto/go-ipa/ipa"
	"github.com/crate-crypto/go-ipa/zzverif/vsched"
	"verif.local/engine/core"
	"verif.local/engine/ref"
)

// C05 — Pedersen commitment equals sum v_i*G_i and is linear.

func c05Window(i int) uint {
	if i < 5 {
		return 16
	}
	return 8
}

// commitAt: Commit of the vector whose only non-zero coefficient is s at position i.
func commitAt(c *ipa.IPAConfig, i int, s *big.Int) banderwagon.Element {
	v := make([]fr.Element, i+1)
	v[i] = frFromBig(s)
	return c.Commit(v)
}

// c05Sweep drives every (value v, carry-in) of window k of point i through Commit, against incrementally
// maintained reference multiples. vals == nil means the full digit range.
func c05Sweep(r *core.Result, c *ipa.IPAConfig, i int, k uint, vals []uint64) {
	w := c05Window(i)
	gi := ref.SRS()[i]
	bk := ref.Mul(gi, pow2(w*k)) // B_k = 2^(wk) * G_i
	var carryBase ref.Pt
	carryScalar := new(big.Int)
	if k > 0 {
		carryScalar.Lsh(new(big.Int).Add(pow2(w-1), bi(1)), w*(k-1)) // window k-1 = 2^(w-1)+1 produces a carry into window k
		carryBase = ref.Mul(gi, carryScalar)
	}
	full := vals == nil
	maxV := uint64(1)<<w - 1
	check := func(v uint64, accNoCarry, accCarry ref.Pt) {
		s := new(big.Int).Lsh(new(big.Int).SetUint64(v), w*k)
		for cin := 0; cin < 2; cin++ {
			sc := s
			want := accNoCarry
			if cin == 1 {
				if k == 0 {
					continue
				}
				sc = new(big.Int).Add(s, carryScalar)
				want = accCarry
			}
			if sc.Cmp(bigR) >= 0 {
				continue
			}
			got := commitAt(c, i, sc)
			r.Evals++
			half := uint64(1) << (w - 1)
			if cin == 1 || v >= half {
				r.Nontrivial++
			}
			// full validity (curve equation) on every 16th digit and around the boundaries; class equality and Z != 0 always
			var msg string
			if v%16 == 0 || v < 4 || v+4 > maxV || (v >= half-2 && v <= half+2) {
				msg = validSame(&got, want)
			} else if p := elToRef(&got); p.Z.Sign() == 0 || !ref.SameClass(p, want) || (p.X.Sign() == 0 && p.Y.Sign() == 0) {
				msg = validSame(&got, want)
				if msg == "" {
					msg = "invalid projective point: " + elString(&got)
				}
			}
			if msg != "" {
				vio(r, "c05.table", "ipa.IPAConfig.Commit", fmt.Sprintf("v[%d] = 0x%s (window %d of %d bits = 0x%x, carry-in %d)", i, sc.Text(16), k, w, v, cin), affStr(want), msg)
			}
		}
	}
	if full {
		acc := ref.Identity()
		accC := carryBase
		for v := uint64(1); v <= maxV; v++ {
			acc = ref.Add(acc, bk)
			if k > 0 {
				accC = ref.Add(accC, bk)
			}
			if new(big.Int).Lsh(new(big.Int).SetUint64(v), w*k).Cmp(bigR) >= 0 {
				break
			}
			check(v, acc, accC)
		}
		return
	}
	for _, v := range vals {
		if v == 0 || v > maxV {
			continue
		}
		acc := ref.Mul(bk, new(big.Int).SetUint64(v))
		var accC ref.Pt
		if k > 0 {
			accC = ref.Add(carryBase, acc)
		}
		check(v, acc, accC)
	}
}

func init() {
	core.Register(&core.Check{
		ID: "C05", Level: "exploration",
		Rule:   "MSMPrecomp.MSM is a sum of independent per-scalar walks over (window, digit, carry-in): every (point i, window k, window value v, carry-in c) is driven through the public Commit as a single-coefficient vector — thorough: all of them (i<5: 16 windows x 65535 values x {0,1}; i>=5: 32 windows x 255 values x {0,1}); quick covers the same table sweep (all five 16-bit points and all 8-bit tables) and lighter chain/vector sets; the configuration is also rebuilt under CPU-count overrides {1,3,5,17} and must be bit-identical — each compared with incrementally maintained reference multiples; then carry chains (runs of 0xFF.. of every length from every window), S_edge scalars at selected positions, vectors of many lengths from POLY, linearity and agreement with MultiScalar; non-trivial = carry-in set or digit >= half range (negated table entry), or a multi-coefficient vector",
		Assume: []string{"reference: textbook twisted-Edwards arithmetic over math/big on the reference CRS (pinned by first/last point and SHA-256 of all 256)", "top windows restricted to values that keep the scalar < r"},
		Units:  c05Units,
	})
}

func c05Units(ctx *core.Ctx) []core.Unit {
	var us []core.Unit
	us = append(us, core.Unit{Name: "SRS equals the reference CRS", Run: func(ctx *core.Ctx, r *core.Result) {
		r.Evals = 256
		r.Nontrivial = 256
		if msg := srsAgree(); msg != "" {
			vio(r, "c05.srs", "ipa.NewIPASettings", "SRS", "the 256 CRS points derived from the seed eth_verkle_oct_2021", msg)
		}
		c := conf()
		q := c.Q
		if msg := validSame(&q, ref.Gen()); msg != "" {
			vio(r, "c05.srs", "ipa.NewIPASettings", "Q", "the generator", msg)
		}
	}})
	us = append(us, core.Unit{Name: "configuration rebuilt under CPU-count overrides", Run: func(ctx *core.Ctx, r *core.Result) {
		if !vsched.Instrumented {
			r.Note("seam", "unavailable (fallback flavour)")
			return
		}
		needRef()
		defer setCPU(0)
		base := conf()
		want := core.Fingerprint(base)
		for _, k := range []int{1, 3, 5, 17} {
			setCPU(k)
			c2, err := ipa.NewIPASettings()
			r.Evals++
			r.Nontrivial++
			if err != nil {
				vio(r, "c05.srs", "ipa.NewIPASettings", fmt.Sprintf("NumCPU/GOMAXPROCS = %d", k), "a configuration", err.Error())
				continue
			}
			if core.Fingerprint(c2) != want {
				vio(r, "c05.srs", "ipa.NewIPASettings", fmt.Sprintf("NumCPU/GOMAXPROCS = %d", k), "bit-identical SRS, tables and weights as under the default CPU count (which are checked against the reference)", "different configuration")
			}
		}
	}})
	boundary16 := []uint64{1, 2, 3, 0x7ffe, 0x7fff, 0x8000, 0x8001, 0x8002, 0xfffe, 0xffff, 0x00ff, 0x0100, 0xff00, 0x1234, 0x1cfa, 0x1cfb}
	for i := 0; i < 5; i++ {
		for k := uint(0); k < 16; k++ {
			i, k := i, k
			fullSweep := true
			name := fmt.Sprintf("16-bit table point %d window %d", i, k)
			if !fullSweep {
				name += " (boundary digits)"
			}
			us = append(us, core.Unit{Name: name, Run: func(ctx *core.Ctx, r *core.Result) {
				needRef()
				var vals []uint64
				if !fullSweep {
					vals = boundary16
				}
				c05Sweep(r, conf(), i, k, vals)
				if i == 0 && k == 3 {
					r.Sample(map[string]interface{}{"point": i, "window": k, "digits": "1..65535", "carry_in": []int{0, 1}, "oracle": "ref(v) = ref(v-1) + 2^(16k) G_i"})
				}
			}})
		}
	}
	for lo := 5; lo < 256; lo += 8 {
		lo := lo
		hi := lo + 8
		if hi > 256 {
			hi = 256
		}
		us = append(us, core.Unit{Name: fmt.Sprintf("8-bit tables points %d..%d all windows", lo, hi-1), Run: func(ctx *core.Ctx, r *core.Result) {
			needRef()
			for i := lo; i < hi; i++ {
				for k := uint(0); k < 32; k++ {
					c05Sweep(r, conf(), i, k, nil)
				}
			}
		}})
	}
	// carry chains
	for _, i := range []int{0, 4, 5, 255} {
		i := i
		us = append(us, core.Unit{Name: fmt.Sprintf("carry chains point %d", i), Run: func(ctx *core.Ctx, r *core.Result) {
			needRef()
			c := conf()
			w := c05Window(i)
			nw := uint(256) / w
			gi := ref.SRS()[i]
			seen := map[string]bool{}
			try := func(s *big.Int, what string) {
				if s.Cmp(bigR) >= 0 || s.Sign() == 0 || seen[s.Text(16)] {
					return
				}
				seen[s.Text(16)] = true
				got := commitAt(c, i, s)
				r.Evals++
				r.Nontrivial++
				want := ref.Mul(gi, s)
				if msg := validSame(&got, want); msg != "" {
					vio(r, "c05.carry", "ipa.IPAConfig.Commit", fmt.Sprintf("v[%d] = 0x%s (%s)", i, s.Text(16), what), affStr(want), msg)
				}
			}
			ones := new(big.Int).Sub(pow2(w), bi(1))
			for start := uint(0); start < nw; start++ {
				for ln := uint(1); start+ln <= nw; ln++ {
					run := new(big.Int)
					for j := uint(0); j < ln; j++ {
						run.Or(run, new(big.Int).Lsh(ones, w*(start+j)))
					}
					try(run, fmt.Sprintf("run of %d all-ones windows from window %d", ln, start))
					if start > 0 {
						lead := new(big.Int).Lsh(new(big.Int).Add(pow2(w-1), bi(1)), w*(start-1))
						try(new(big.Int).Add(run, lead), fmt.Sprintf("run of %d all-ones windows from window %d with a leading carry", ln, start))
						try(new(big.Int).Add(run, new(big.Int).Lsh(pow2(w-1), w*(start-1))), "run preceded by exactly half the window range")
					}
					// run of exactly-half windows
					hrun := new(big.Int)
					for j := uint(0); j < ln; j++ {
						hrun.Or(hrun, new(big.Int).Lsh(pow2(w-1), w*(start+j)))
					}
					try(hrun, "run of half-range windows")
				}
			}
			try(new(big.Int).Sub(bigR, bi(1)), "r-1")
			try(new(big.Int).Sub(bigR, bi(2)), "r-2")
			r.Sample(map[string]interface{}{"point": i, "example": "0xffff…ffff0000 with a leading 0x8001", "scalars": len(seen)})
		}})
	}
	for _, i := range []int{0, 1, 4, 5, 6, 127, 255} {
		i := i
		us = append(us, core.Unit{Name: fmt.Sprintf("S_edge scalars at position %d", i), Run: func(ctx *core.Ctx, r *core.Result) {
			needRef()
			c := conf()
			gi := ref.SRS()[i]
			for _, s := range sEdge(ctx.Seed, ctx.Thorough()) {
				if s.Sign() == 0 {
					continue
				}
				got := commitAt(c, i, s)
				r.Evals++
				r.Nontrivial++
				want := ref.Mul(gi, s)
				if msg := validSame(&got, want); msg != "" {
					vio(r, "c05.scalar", "ipa.IPAConfig.Commit", fmt.Sprintf("v[%d] = 0x%s", i, s.Text(16)), affStr(want), msg)
				}
				// agreement with the generic MSM over the published SRS on the same short vector
				v := make([]fr.Element, i+1)
				v[i] = frFromBig(s)
				if i > 0 {
					v[0] = frFromBig(s)
					want = ref.Add(want, ref.Mul(ref.SRS()[0], s))
					got.Add(&got, func() *banderwagon.Element { e := commitAt(c, 0, s); return &e }())
				}
				ms, err := ipa.MultiScalar(c.SRS[:i+1], v)
				if err != nil {
					vio(r, "c05.multiscalar", "ipa.MultiScalar", fmt.Sprintf("SRS[:%d], v[0]=v[%d]=0x%s", i+1, i, s.Text(16)), "a result", err.Error())
				} else if msg := validSame(&ms, want); msg != "" || ms.Bytes() != got.Bytes() {
					vio(r, "c05.multiscalar", "ipa.MultiScalar", fmt.Sprintf("SRS[:%d], v[0]=v[%d]=0x%s", i+1, i, s.Text(16)), "the same element as Commit and the reference: "+affStr(want), msg)
				}
			}
		}})
	}
	// vectors
	lens := []int{0, 1, 2, 3, 4, 5, 6, 7, 8, 16, 31, 32, 33, 64, 127, 128, 129, 200, 255, 256}
	if ctx.Thorough() {
		lens = nil
		for l := 0; l <= 256; l++ {
			lens = append(lens, l)
		}
	}
	for li := 0; li < len(lens); li += 4 {
		li := li
		hi := li + 4
		if hi > len(lens) {
			hi = len(lens)
		}
		us = append(us, core.Unit{Name: fmt.Sprintf("vectors of lengths %v", lens[li:hi]), Run: func(ctx *core.Ctx, r *core.Result) {
			needRef()
			c := conf()
			polys := polyAlphabet(ctx.Seed)
			for _, L := range lens[li:hi] {
				for pi, p := range polys {
					if !ctx.Thorough() && L > 8 && pi%3 != L%3 {
						continue
					}
					v := p.V[:L]
					if (pi+L)%2 == 0 {
						c.Commit(frsFromBig(polys[9].V)) // history: a full-length commitment of the maximal vector right before
					}
					got := c.Commit(frsFromBig(v))
					r.Evals++
					r.Nontrivial++
					want := ref.Commit(ref.SRS(), v)
					if msg := validSame(&got, want); msg != "" {
						vio(r, "c05.vector", "ipa.IPAConfig.Commit", fmt.Sprintf("polynomial %s truncated to length %d", p.Name, L), affStr(want), msg)
					}
					if L == 33 {
						r.Sample(map[string]interface{}{"vector": p.Name, "length": L, "commitment": hx(func() []byte { b := got.Bytes(); return b[:] }())})
					}
				}
			}
		}})
	}
	us = append(us, core.Unit{Name: "table engines built over re-represented basis points; generic MSM histories (rejected call in between, empty vector)", Run: func(ctx *core.Ctx, r *core.Result) {
		needRef()
		c := conf()
		polys := polyAlphabet(ctx.Seed)
		// (a) NewPrecompMSM over the same 256 group elements in projective representations: same commitments
		for rep := 1; rep < nRepr; rep++ {
			basis := make([]banderwagon.Element, 256)
			for i := range basis {
				basis[i] = reprOf(c.SRS[i], 1+(i+rep)%3)
			}
			var eng banderwagon.MSMPrecomp
			var err error
			in := fmt.Sprintf("banderwagon.NewPrecompMSM(SRS in projective representations, variant %d)", rep)
			if !timed(r, "c05.panic", "banderwagon.NewPrecompMSM", in, func() { eng, err = banderwagon.NewPrecompMSM(basis) }) {
				return
			}
			if err != nil {
				vio(r, "c05.tables", "banderwagon.NewPrecompMSM", in, "an engine", err.Error())
				continue
			}
			for _, p := range []namedPoly{polys[12], polys[8], polys[11], edgePolys()[1]} {
				v := frsFromBig(p.V)
				got := eng.MSM(v)
				want := c.Commit(v)
				r.Evals++
				r.Nontrivial++
				if !got.Equal(&want) || got.Bytes() != want.Bytes() {
					vio(r, "c05.value", "banderwagon.MSMPrecomp.MSM", in+", vector "+p.Name, fmt.Sprintf("the commitment over the normalised basis: %x", want.Bytes()), fmt.Sprintf("%x", got.Bytes()))
				}
			}
		}
		// (b) generic MSM: a good call over basis A, a rejected (wrong-length) call over basis B, a good call over B
		for _, n := range []int{3, 64, 100, 256} {
			A := append([]banderwagon.Element(nil), c.SRS[:n]...)
			B := make([]banderwagon.Element, n)
			for i := range B {
				B[i] = c.SRS[(i+5)%256]
			}
			v := frsFromBig(polys[12].V)[:n]
			padded := make([]fr.Element, 256)
			for i := 0; i < n; i++ {
				padded[(i+5)%256].Add(&padded[(i+5)%256], &v[i])
			}
			want := c.Commit(padded) // sum v_i * SRS[i+5]
			ipa.MultiScalar(A, v)
			ipa.MultiScalar(B, v[:n-1]) // rejected: lengths differ
			got, err := ipa.MultiScalar(B, v)
			r.Evals++
			r.Nontrivial++
			if err != nil || !got.Equal(&want) || got.Bytes() != want.Bytes() {
				vio(r, "c05.multiscalar", "ipa.MultiScalar", fmt.Sprintf("n=%d: MultiScalar(A,v); MultiScalar(B, v[:n-1]) (rejected); MultiScalar(B,v)", n), fmt.Sprintf("sum v_i*B_i = %x", want.Bytes()), fmt.Sprintf("%x err=%v", got.Bytes(), err))
			}
		}
		// (c) the empty vector
		var id banderwagon.Element
		id.SetIdentity()
		for _, mk := range []func() ([]banderwagon.Element, []fr.Element){
			func() ([]banderwagon.Element, []fr.Element) { return nil, nil },
			func() ([]banderwagon.Element, []fr.Element) { return []banderwagon.Element{}, []fr.Element{} },
		} {
			pts, sc := mk()
			got, err := ipa.MultiScalar(pts, sc)
			ce := c.Commit(sc)
			r.Evals++
			r.Nontrivial++
			var sum banderwagon.Element
			sum.Add(&got, &c.SRS[1])
			if err == nil && (!got.Equal(&id) || !ce.Equal(&id) || !sum.Equal(&c.SRS[1])) {
				vio(r, "c05.multiscalar", "ipa.MultiScalar / Commit", "empty vector", "the identity (a valid element: adding it changes nothing)", fmt.Sprintf("MultiScalar=%s Commit=%s", elString(&got), elString(&ce)))
			}
		}
	}})
	us = append(us, core.Unit{Name: "MultiScalar over SRS prefixes of odd lengths under many CPU counts agrees with Commit", Run: func(ctx *core.Ctx, r *core.Result) {
		needRef()
		c := conf()
		if !vsched.Instrumented {
			r.Note("seam", "unavailable (fallback flavour)")
			return
		}
		defer setCPU(0)
		full := frsFromBig(pick(polyAlphabet(ctx.Seed), 12).V)
		for _, cpu := range []int{1, 2, 3, 16, 17, 48, 64, 65, 128, 300, 1024} {
			for _, L := range []int{1, 2, 3, 5, 77, 131, 254, 255, 256} {
				v := full[:L]
				setCPU(0)
				want := c.Commit(v)
				setCPU(cpu)
				var ms banderwagon.Element
				var err error
				in := fmt.Sprintf("MultiScalar(SRS[:%d], prf0[:%d]) NumCPU=%d", L, L, cpu)
				if !timed(r, "c05.panic", "ipa.MultiScalar", in, func() { ms, err = ipa.MultiScalar(c.SRS[:L], v) }) {
					return
				}
				r.Evals++
				r.Nontrivial++
				if err != nil || !ms.Equal(&want) || ms.Bytes() != want.Bytes() {
					vio(r, "c05.multiscalar", "ipa.MultiScalar", in, fmt.Sprintf("the table-based commitment of the same vector: %x", want.Bytes()), fmt.Sprintf("%x err=%v", ms.Bytes(), err))
				}
			}
		}
	}})
	us = append(us, core.Unit{Name: "linearity, single-coefficient update, agreement with MultiScalar", Run: func(ctx *core.Ctx, r *core.Result) {
		needRef()
		c := conf()
		polys := polyAlphabet(ctx.Seed)
		ks := []*big.Int{bi(0), bi(1), bi(2), new(big.Int).Sub(bigR, bi(1)), prfR(ctx.Seed, "c05k", 0)}
		for ai, a := range polys {
			av := frsFromBig(a.V)
			ca := c.Commit(av)
			// MultiScalar over the published SRS
			ms, err := ipa.MultiScalar(c.SRS, av)
			r.Evals++
			r.Nontrivial++
			if err != nil || !ms.Equal(&ca) || ms.Bytes() != ca.Bytes() {
				if !(a.Name == "zero") || err != nil || ms.Bytes() != ca.Bytes() {
					vio(r, "c05.multiscalar", "ipa.MultiScalar", "polynomial "+a.Name, fmt.Sprintf("%x", ca.Bytes()), fmt.Sprintf("%x err=%v", ms.Bytes(), err))
				}
			}
			for bi_, b := range polys {
				if !ctx.Thorough() && (ai+bi_)%3 != 0 {
					continue
				}
				bv := frsFromBig(b.V)
				cb := c.Commit(bv)
				sum := make([]fr.Element, 256)
				for j := range sum {
					sum[j].Add(&av[j], &bv[j])
				}
				cs := c.Commit(sum)
				var add banderwagon.Element
				add.Add(&ca, &cb)
				r.Evals++
				r.Nontrivial++
				if cs.Bytes() != add.Bytes() {
					vio(r, "c05.linear", "ipa.IPAConfig.Commit", fmt.Sprintf("a=%s b=%s", a.Name, b.Name), "Commit(a+b) = Commit(a)+Commit(b)", fmt.Sprintf("%x vs %x", cs.Bytes(), add.Bytes()))
				}
			}
			for _, k := range ks {
				ke := frFromBig(k)
				sc := make([]fr.Element, 256)
				for j := range sc {
					sc[j].Mul(&av[j], &ke)
				}
				cs := c.Commit(sc)
				var mul banderwagon.Element
				mul.ScalarMul(&ca, &ke)
				r.Evals++
				r.Nontrivial++
				if cs.Bytes() != mul.Bytes() {
					vio(r, "c05.linear", "ipa.IPAConfig.Commit", fmt.Sprintf("a=%s k=%s", a.Name, k.Text(16)), "Commit(k*a) = k*Commit(a)", fmt.Sprintf("%x vs %x", cs.Bytes(), mul.Bytes()))
				}
			}
			for _, pos := range []int{0, 4, 5, 128, 255} {
				delta := frFromBig(prfR(ctx.Seed, "c05d", pos))
				upd := append([]fr.Element(nil), av...)
				upd[pos].Add(&upd[pos], &delta)
				cu := c.Commit(upd)
				var dg banderwagon.Element
				dg.ScalarMul(&c.SRS[pos], &delta)
				dg.Add(&dg, &ca)
				r.Evals++
				r.Nontrivial++
				if cu.Bytes() != dg.Bytes() {
					vio(r, "c05.linear", "ipa.IPAConfig.Commit", fmt.Sprintf("a=%s update at %d", a.Name, pos), "Commit(a + delta*e_i) = Commit(a) + delta*G_i", fmt.Sprintf("%x vs %x", cu.Bytes(), dg.Bytes()))
				}
			}
		}
	}})
	return us
}
