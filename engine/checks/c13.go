package checks

import (
	"bytes"
	"crypto/sha256"
	"fmt"
	"math/big"

	multiproof "github.com/crate-crypto/go-ipa"
	"github.com/crate-crypto/go-ipa/bandersnatch"
	"github.com/crate-crypto/go-ipa/bandersnatch/fp"
	"github.com/crate-crypto/go-ipa/bandersnatch/fr"
	"github.com/crate-crypto/go-ipa/banderwagon"
	"github.com/crate-crypto/go-ipa/common"
	"github.com/crate-crypto/go-ipa/common/parallel"
	"github.com/crate-crypto/go-ipa/ipa"
	"verif.local/engine/core"
)

// C13 — operations are pure: config and caller inputs are never modified.

// sharedFingerprint: everything shared and mutable — the configuration and every package's globals.
func sharedFingerprint(c *ipa.IPAConfig) uint64 {
	d := core.NewDeepHasher()
	d.Add(c)
	for _, g := range [][]interface{}{fr.VerifGlobals(), fp.VerifGlobals(), bandersnatch.VerifGlobals(), banderwagon.VerifGlobals(), ipa.VerifGlobals(), multiproof.VerifGlobals(), common.VerifGlobals(), parallel.VerifGlobals()} {
		for _, p := range g {
			d.Add(p)
		}
	}
	return d.Sum()
}

type c13op struct {
	name string
	// prep builds fresh arguments and returns the pointers whose deep content must be bit-identical after
	// the call (slices up to capacity), the call itself (returning a digest of its results), and an optional
	// post-condition on arguments that may legally change representation.
	prep func(c *ipa.IPAConfig, seed int64) (args []interface{}, call func() string, post func() string)
}

func dg(parts ...interface{}) string {
	h := sha256.New()
	for _, p := range parts {
		fmt.Fprintf(h, "%v|", p)
	}
	return fmt.Sprintf("%x", h.Sum(nil)[:10])
}

func frsDigest(v []fr.Element) string {
	h := sha256.New()
	for i := range v {
		b := v[i].Bytes()
		h.Write(b[:])
	}
	return fmt.Sprintf("%x", h.Sum(nil)[:10])
}

// slack returns a copy of v inside a larger backing array (capacity > length).
func slackFr(v []fr.Element) []fr.Element {
	out := make([]fr.Element, len(v), 2*len(v)+8)
	copy(out, v)
	for i := len(v); i < cap(out); i++ {
		out[:cap(out)][i].SetUint64(0xA5A5)
	}
	return out
}

// slackEl returns a copy of v inside a larger backing array (capacity > length, sentinel content beyond len).
func slackEl(v []banderwagon.Element) []banderwagon.Element {
	out := make([]banderwagon.Element, len(v), 3*len(v)+8) // room for an in-place append of vectors of the same size
	copy(out, v)
	full := out[:cap(out)]
	for i := len(v); i < len(full); i++ {
		full[i] = banderwagon.Generator
	}
	return out
}

func c13Menu() []c13op {
	none := func() string { return "" }
	polyF := func(seed int64, i int) []fr.Element { return slackFr(frsFromBig(pick(polyAlphabet(seed), i).V)) }
	var ops []c13op
	add := func(name string, prep func(c *ipa.IPAConfig, seed int64) ([]interface{}, func() string, func() string)) {
		ops = append(ops, c13op{name, prep})
	}
	add("Commit(ramp)", func(c *ipa.IPAConfig, seed int64) ([]interface{}, func() string, func() string) {
		f := polyF(seed, 10)
		return []interface{}{&f}, func() string { e := c.Commit(f); return dg(e.Bytes()) }, none
	})
	add("Commit(short sparse vector)", func(c *ipa.IPAConfig, seed int64) ([]interface{}, func() string, func() string) {
		f := slackFr(frsFromBig([]*big.Int{bi(0), bi(7), bi(0), new(big.Int).Sub(bigR, bi(1)), bi(65536)}))
		return []interface{}{&f}, func() string { e := c.PrecompMSM.MSM(f); return dg(e.Bytes()) }, none
	})
	for _, z := range []int64{3, 300} {
		z := z
		add(fmt.Sprintf("CreateIPAProof(point %d)", z), func(c *ipa.IPAConfig, seed int64) ([]interface{}, func() string, func() string) {
			a := polyF(seed, 12)
			cm := c.Commit(a)
			ze := frFromBig(bi(z))
			return []interface{}{&a, &cm, &ze}, func() string {
				pr, err := ipa.CreateIPAProof(common.NewTranscript("ipa"), c, cm, a, ze)
				return dg(hx(ipaProofBytes(&pr)), err)
			}, none
		})
	}
	for _, good := range []bool{true, false} {
		good := good
		add(fmt.Sprintf("CheckIPAProof(accepting=%v)", good), func(c *ipa.IPAConfig, seed int64) ([]interface{}, func() string, func() string) {
			a := polyF(seed, 13)
			cm := c.Commit(a)
			ze := frFromBig(bi(400))
			pr, _ := ipa.CreateIPAProof(common.NewTranscript("ipa"), c, cm, a, ze)
			pr.L, pr.R = slackEl(pr.L), slackEl(pr.R) // the caller's vectors have spare capacity
			b := c.PrecomputedWeights.ComputeBarycentricCoefficients(ze)
			y, _ := ipa.InnerProd(a, b)
			if !good {
				one := fr.One()
				y.Add(&y, &one)
			}
			return []interface{}{&cm, &pr, &ze, &y}, func() string {
				ok, err := ipa.CheckIPAProof(common.NewTranscript("ipa"), c, cm, pr, ze, y)
				return dg(ok, err)
			}, none
		})
	}
	type mp struct {
		name  string
		zs    []uint8
		polys []int
		reprs []int
		share bool
	}
	for _, m := range []mp{
		{"CreateMultiProof(n=1)", []uint8{9}, []int{10}, nil, false},
		{"CreateMultiProof(n=2 sharing an index)", []uint8{77, 77}, []int{12, 13}, nil, false},
		{"CreateMultiProof(n=3, non-normalised commitments, shared pointer)", []uint8{5, 200, 5}, []int{10, 12, 10}, []int{reprProj, reprProjFlip, reprProj}, true},
		{"CreateMultiProof(n=4, commitment pointers [A,A,B,A])", []uint8{5, 6, 200, 7}, []int{10, 10, 12, 10}, []int{reprProj, reprProj, reprProjFlip, reprProj}, false},
	} {
		m := m
		add(m.name, func(c *ipa.IPAConfig, seed int64) ([]interface{}, func() string, func() string) {
			fs := make([][]fr.Element, len(m.zs))
			Cs := make([]*banderwagon.Element, len(m.zs))
			before := make([]banderwagon.Element, len(m.zs))
			for i := range m.zs {
				fs[i] = polyF(seed, m.polys[i])
				e := c.Commit(fs[i])
				if m.reprs != nil {
					e = reprOf(e, m.reprs[i])
				}
				Cs[i] = &e
				if m.share && i == 2 {
					Cs[2] = Cs[0]
				}
				if len(m.zs) == 4 && (i == 1 || i == 3) {
					Cs[i] = Cs[0]
				}
				before[i] = *Cs[i]
			}
			ptrs := append([]*banderwagon.Element(nil), Cs...)
			zs := append(make([]uint8, 0, len(m.zs)+2), m.zs...)
			return []interface{}{&fs, &zs}, func() string {
					p, err := multiproof.CreateMultiProof(common.NewTranscript("vt"), c, Cs, fs, zs)
					if err != nil {
						return dg(err)
					}
					return dg(hx(proofBytes(p)))
				}, func() string {
					for i := range Cs {
						if Cs[i] != ptrs[i] {
							return fmt.Sprintf("the caller's slice of commitment pointers was rearranged (entry %d)", i)
						}
						if !Cs[i].Equal(&before[i]) || Cs[i].Bytes() != before[i].Bytes() {
							return fmt.Sprintf("commitment %d changed its value", i)
						}
					}
					return ""
				}
		})
	}
	for _, good := range []bool{true, false} {
		good := good
		add(fmt.Sprintf("CheckMultiProof(accepting=%v)", good), func(c *ipa.IPAConfig, seed int64) ([]interface{}, func() string, func() string) {
			s := stmt{label: "vt", zs: []int{3, 200}, polys: []namedPoly{pick(polyAlphabet(seed), 10), pick(polyAlphabet(seed), 12)}}
			is := s.build(c)
			p, err := multiproof.CreateMultiProof(common.NewTranscript("vt"), c, is.Cs, is.fs, is.zs)
			if err != nil {
				panic(core.ImplFault{API: "CreateMultiProof", Input: "honest statement " + s.String(), Got: "error: " + err.Error()})
			}
			if !good {
				one := fr.One()
				is.ys[1].Add(is.ys[1], &one)
			}
			p.IPA.L, p.IPA.R = slackEl(p.IPA.L), slackEl(p.IPA.R)
			is.Cs = append(make([]*banderwagon.Element, 0, 5), is.Cs...)
			is.ys = append(make([]*fr.Element, 0, 5), is.ys...)
			zs := append(make([]uint8, 0, 8), is.zs...)
			return []interface{}{p, &is.Cs, &is.ys, &zs}, func() string {
				ok, err := multiproof.CheckMultiProof(common.NewTranscript("vt"), c, p, is.Cs, is.ys, zs)
				return dg(ok, err)
			}, none
		})
	}
	add("MultiScalar(3 points)", func(c *ipa.IPAConfig, seed int64) ([]interface{}, func() string, func() string) {
		pts := append(make([]banderwagon.Element, 0, 5), reprOf(c.SRS[1], reprProj), c.SRS[2], reprOf(c.SRS[3], reprFlip))
		sc := slackFr(frsFromBig([]*big.Int{bi(1), prfR(seed, "c13", 0), new(big.Int).Sub(bigR, bi(2))}))
		return []interface{}{&pts, &sc}, func() string { e, err := ipa.MultiScalar(pts, sc); return dg(e.Bytes(), err) }, none
	})
	add("MultiScalar(5 points, zero scalars in between)", func(c *ipa.IPAConfig, seed int64) ([]interface{}, func() string, func() string) {
		pts := append(make([]banderwagon.Element, 0, 20), c.SRS[21:26]...)
		sc := slackFr(frsFromBig([]*big.Int{bi(0), prfR(seed, "c13", 7), bi(0), bi(5), bi(0)}))
		return []interface{}{&pts, &sc}, func() string { e, err := ipa.MultiScalar(pts, sc); return dg(e.Bytes(), err) }, none
	})
	add("MultiScalar(config SRS itself, 256 scalars)", func(c *ipa.IPAConfig, seed int64) ([]interface{}, func() string, func() string) {
		sc := polyF(seed, 13)
		return []interface{}{&sc}, func() string { e, err := ipa.MultiScalar(c.SRS, sc); return dg(e.Bytes(), err) }, none
	})
	for _, mont := range []bool{true, false} {
		mont := mont
		add(fmt.Sprintf("MultiExp(40 points, mont=%v, NbTasks=3)", mont), func(c *ipa.IPAConfig, seed int64) ([]interface{}, func() string, func() string) {
			pts := append(make([]banderwagon.Element, 0, 44), c.SRS[100:140]...)
			ss := make([]*big.Int, 40)
			for i := range ss {
				ss[i] = msmScalar(seed, i, 50)
			}
			sc := slackFr(asScalars(ss, mont))
			var res banderwagon.Element
			return []interface{}{&pts, &sc}, func() string {
				out, err := res.MultiExp(pts, sc, banderwagon.MultiExpConfig{NbTasks: 3, ScalarsMont: mont})
				return dg(out.Bytes(), err)
			}, none
		})
	}
	add("empty MultiExp, then the caller updates the returned element in place", func(c *ipa.IPAConfig, seed int64) ([]interface{}, func() string, func() string) {
		return []interface{}{}, func() string {
			var acc banderwagon.Element
			out, err := acc.MultiExp(nil, nil, banderwagon.MultiExpConfig{NbTasks: 2, ScalarsMont: true})
			if err != nil || out == nil {
				return dg(err)
			}
			out.Add(out, &c.SRS[7]) // the result belongs to the caller
			var p banderwagon.Element
			p, err = ipa.MultiScalar(nil, nil)
			p.Add(&p, &c.SRS[8])
			return dg(out.Bytes(), p.Bytes(), err)
		}, none
	})
	add("CreateMultiProof twice over the same, partly pre-normalised commitment objects", func(c *ipa.IPAConfig, seed int64) ([]interface{}, func() string, func() string) {
		fs := [][]fr.Element{polyF(seed, 10), polyF(seed, 12), polyF(seed, 13)}
		Cs := make([]*banderwagon.Element, 3)
		before := make([]banderwagon.Element, 3)
		for i := range fs {
			e := c.Commit(fs[i])
			if i == 1 {
				e.Normalize() // already affine
			}
			Cs[i] = &e
			before[i] = e
		}
		zs := []uint8{4, 4, 250}
		return []interface{}{&fs, &zs}, func() string {
				p1, err1 := multiproof.CreateMultiProof(common.NewTranscript("vt"), c, Cs, fs, zs)
				p2, err2 := multiproof.CreateMultiProof(common.NewTranscript("vt"), c, Cs, fs, zs)
				if err1 != nil || err2 != nil {
					return dg(err1, err2)
				}
				return dg(hx(proofBytes(p1)), hx(proofBytes(p2)))
			}, func() string {
				for i := range Cs {
					if !Cs[i].Equal(&before[i]) || Cs[i].Bytes() != before[i].Bytes() || !Cs[i].IsOnCurve() {
						return fmt.Sprintf("commitment %d changed its value", i)
					}
				}
				return ""
			}
	})
	add("proof Write to a failing writer, then to a healthy one", func(c *ipa.IPAConfig, seed int64) ([]interface{}, func() string, func() string) {
		hb := honestProofBytes(seed, 0)
		var p multiproof.MultiProof
		if err := p.Read(bytes.NewReader(hb)); err != nil {
			panic(core.ImplFault{API: "MultiProof.Read", Input: "bytes of an honest proof", Got: "error: " + err.Error()})
		}
		healthy := ""
		return []interface{}{&p}, func() string {
				e1 := p.Write(&failWriter{failAt: 100})
				e2 := p.Write(&failWriter{failAt: 0})
				e3 := p.IPA.Write(&failWriter{failAt: 543, short: true})
				w := &failWriter{failAt: -1}
				e4 := p.Write(w)
				healthy = hx(w.buf.Bytes())
				return dg(e1 != nil, e2 != nil, e3 != nil, e4, healthy)
			}, func() string {
				if healthy != hx(hb) {
					return fmt.Sprintf("a Write after failed Writes produced %d bytes instead of the proof's 576", len(healthy)/2)
				}
				return ""
			}
	})
	add("BatchNormalize / Normalize", func(c *ipa.IPAConfig, seed int64) ([]interface{}, func() string, func() string) {
		a, b := reprOf(c.SRS[9], reprProj), reprOf(c.SRS[10], reprProjFlip)
		list := []*banderwagon.Element{&a, &b, &a}
		a0, b0 := a, b
		return []interface{}{}, func() string {
				err := banderwagon.BatchNormalize(list)
				x := reprOf(c.SRS[11], reprProj)
				x.Normalize()
				return dg(elString(&a), elString(&b), elString(&x), err)
			}, func() string {
				if !a.Equal(&a0) || !b.Equal(&b0) {
					return "normalised element changed its value"
				}
				return ""
			}
	})
	add("ElementsToBytes / BatchToBytesUncompressed / BatchMapToScalarField", func(c *ipa.IPAConfig, seed int64) ([]interface{}, func() string, func() string) {
		a, b := reprOf(c.SRS[19], reprProj), reprOf(c.SRS[20], reprFlip)
		list := []*banderwagon.Element{&a, &b, &a}
		res := []*fr.Element{new(fr.Element), new(fr.Element), new(fr.Element)}
		return []interface{}{&list}, func() string {
			x := banderwagon.ElementsToBytes(list...)
			y := banderwagon.BatchToBytesUncompressed(list...)
			err := banderwagon.BatchMapToScalarField(res, list)
			return dg(x, y, frToBig(*res[0]), frToBig(*res[1]), err)
		}, none
	})
	add("Element codec: SetBytes / Bytes / uncompressed", func(c *ipa.IPAConfig, seed int64) ([]interface{}, func() string, func() string) {
		src := reprOf(c.SRS[30], reprProjFlip)
		b := src.Bytes()
		buf := append(make([]byte, 0, 40), b[:]...)
		u := src.BytesUncompressedTrusted()
		ub := append(make([]byte, 0, 70), u[:]...)
		return []interface{}{&src, &buf, &ub}, func() string {
			var e, f, g banderwagon.Element
			err1 := e.SetBytes(buf)
			err2 := f.SetBytesUncompressed(ub, true)
			err3 := g.SetBytesUncompressed(ub, false)
			var m fr.Element
			src.MapToScalarField(&m)
			return dg(elString(&e), elString(&f), err1, err2, err3, src.Bytes(), frToBig(m))
		}, none
	})
	add("group operations on caller elements", func(c *ipa.IPAConfig, seed int64) ([]interface{}, func() string, func() string) {
		a, b := reprOf(c.SRS[40], reprProj), c.SRS[41]
		s := frFromBig(prfR(seed, "c13", 1))
		return []interface{}{&a, &b, &s}, func() string {
			var x, y, z, w, v banderwagon.Element
			x.Add(&a, &b)
			y.Sub(&a, &b)
			z.ScalarMul(&a, &s)
			w.Double(&b)
			v.Neg(&a)
			return dg(x.Bytes(), y.Bytes(), z.Bytes(), w.Bytes(), v.Bytes(), a.Equal(&b))
		}, none
	})
	add("operations with the package-level Generator / Identity / config.Q / SRS elements as operands", func(c *ipa.IPAConfig, seed int64) ([]interface{}, func() string, func() string) {
		s := frFromBig(prfR(seed, "c13", 2))
		return []interface{}{&s}, func() string {
			var x, y, z banderwagon.Element
			x.ScalarMul(&banderwagon.Generator, &s)
			y.Add(&banderwagon.Identity, &c.Q)
			z.Sub(&c.SRS[0], &c.SRS[255])
			t := common.NewTranscript("g")
			t.AppendPoint(&c.Q, []byte("Q"))
			t.AppendPoint(&banderwagon.Identity, []byte("I"))
			ch := t.ChallengeScalar([]byte("c"))
			return dg(x.Bytes(), y.Bytes(), z.Bytes(), frToBig(ch))
		}, none
	})
	add("DivideOnDomain / ComputeBarycentricCoefficients / InnerProd", func(c *ipa.IPAConfig, seed int64) ([]interface{}, func() string, func() string) {
		f := polyF(seed, 12)
		z := frFromBig(bi(1000))
		return []interface{}{&f, &z}, func() string {
			q := c.PrecomputedWeights.DivideOnDomain(200, f)
			b := c.PrecomputedWeights.ComputeBarycentricCoefficients(z)
			ip, err := ipa.InnerProd(f, b)
			return dg(frsDigest(q), frsDigest(b), frToBig(ip), err)
		}, none
	})
	add("fr.BatchInvert / PowersOf", func(c *ipa.IPAConfig, seed int64) ([]interface{}, func() string, func() string) {
		v := slackFr(frsFromBig([]*big.Int{bi(3), bi(0), prfR(seed, "c13", 3), new(big.Int).Sub(bigR, bi(1))}))
		x := frFromBig(prfR(seed, "c13", 4))
		return []interface{}{&v, &x}, func() string {
			inv := fr.BatchInvert(v)
			pw := common.PowersOf(x, 9)
			return dg(frsDigest(inv), frsDigest(pw))
		}, none
	})
	add("proof Write / Read / Equal", func(c *ipa.IPAConfig, seed int64) ([]interface{}, func() string, func() string) {
		hb := honestProofBytes(seed, 0)
		buf := append(make([]byte, 0, 600), hb...)
		var p multiproof.MultiProof
		if err := p.Read(bytes.NewReader(hb)); err != nil {
			panic(core.ImplFault{API: "MultiProof.Read", Input: "bytes of an honest proof", Got: "error: " + err.Error()})
		}
		p.IPA.L, p.IPA.R = slackEl(p.IPA.L), slackEl(p.IPA.R)
		return []interface{}{&buf, &p}, func() string {
			var q multiproof.MultiProof
			err := q.Read(bytes.NewReader(buf))
			var out bytes.Buffer
			err2 := p.Write(&out)
			return dg(err, err2, hx(out.Bytes()), p.Equal(q), q.IPA.Equal(p.IPA))
		}, none
	})
	add("transcript with caller labels that have spare capacity", func(c *ipa.IPAConfig, seed int64) ([]interface{}, func() string, func() string) {
		l1 := append(make([]byte, 0, 64), "label-one"...)
		l2 := append(make([]byte, 0, 64), "z"...)
		msg := append(make([]byte, 0, 64), "message"...)
		s := frFromBig(prfR(seed, "c13", 5))
		return []interface{}{&l1, &l2, &msg, &s}, func() string {
			t := common.NewTranscript("caller")
			t.DomainSep(l1)
			t.AppendMessage(msg, l2)
			t.AppendScalar(&s, l1)
			c1 := t.ChallengeScalar(l2)
			t.AppendMessage(msg, l1)
			c2 := t.ChallengeScalar(l1)
			return dg(frToBig(c1), frToBig(c2))
		}, none
	})
	add("fr codecs and string conversions", func(c *ipa.IPAConfig, seed int64) ([]interface{}, func() string, func() string) {
		b1 := append(make([]byte, 0, 48), be32(new(big.Int).Sub(pow2(256), bi(9)))...)
		b2 := append(make([]byte, 0, 48), be32(prfR(seed, "c13", 6))...)
		b3 := append(make([]byte, 0, 80), be32(prfR(seed, "c13", 8))...)
		b3 = append(b3, 1, 2, 3, 4, 5, 6, 7, 8) // a 40-byte little-endian string
		// short strings that are the front part of a larger buffer whose remaining bytes are not zero
		big64 := bytes.Repeat([]byte{0xA5}, 64)
		b4, b5 := big64[:20:64], big64[32:33:64]
		return []interface{}{&b1, &b2, &b3, &b4, &b5}, func() string {
			var x, y, z, w fr.Element
			var u, v fr.Element
			var s1, s2, s3, s4 fr.Element
			s1.SetBytesLE(b4)
			s2.SetBytes(b4)
			_, _ = s3.SetBytesLECanonical(b4)
			s4.SetBytesLE(b5)
			defer func() { _ = frsDigest([]fr.Element{s1, s2, s3, s4}) }()
			u.SetBytesLE(b3)
			v.SetBytes(b3)
			_, _ = u.SetBytesLECanonical(b3)
			x.SetBytes(b1)
			y.SetBytesLE(b2)
			_, err := z.SetBytesLECanonical(b2)
			w.SetString("123456789012345678901234567890")
			return dg(frToBig(x), frToBig(y), frToBig(z), err, w.String(), x.Bytes(), y.BytesLE())
		}, none
	})
	add("SqrtPrecomp / GetPointFromX", func(c *ipa.IPAConfig, seed int64) ([]interface{}, func() string, func() string) {
		v := fpFromBig(bi(1234567 * 1234567))
		v2 := fpFromBig(bi(7654321 * 7654321))
		x := fpFromBig(bi(3)) // the abscissa of a curve point
		return []interface{}{&v, &v2, &x}, func() string {
			// results are kept by the caller across later calls
			r := fp.SqrtPrecomp(&v)
			p := bandersnatch.GetPointFromX(&x, true)
			r2 := fp.SqrtPrecomp(&v2)
			p2 := bandersnatch.GetPointFromX(&x, false)
			var sq, sq2 fp.Element
			if r != nil {
				sq.Square(r)
			}
			if r2 != nil {
				sq2.Square(r2)
			}
			s := ""
			if p != nil {
				s = p.X.String() + p.Y.String()
			}
			return dg(r != nil, p != nil, p2 != nil, sq.Equal(&v), sq2.Equal(&v2), s)
		}, none
	})
	add("degenerate batches: zeros in fr.BatchInvert (ends and middle, 300 values), a zero-valued Element in the batch codecs", func(c *ipa.IPAConfig, seed int64) ([]interface{}, func() string, func() string) {
		v := make([]fr.Element, 300)
		for i := range v {
			if i%3 == 1 {
				v[i] = frFromBig(bi(int64(i + 5)))
			}
		}
		v = slackFr(v)
		a := reprOf(c.SRS[21], reprProj)
		var zero banderwagon.Element
		list := []*banderwagon.Element{&a, &zero, &a}
		return []interface{}{&v, &list}, func() string {
			inv := fr.BatchInvert(v)
			res := []*fr.Element{new(fr.Element), new(fr.Element), new(fr.Element)}
			err := banderwagon.BatchMapToScalarField(res, list)
			err2 := banderwagon.BatchNormalize([]*banderwagon.Element{&zero})
			return dg(frsDigest(inv), err != nil, err2 != nil)
		}, none
	})
	add("calls that end with an error (malformed proof, short polynomial, mismatched MSM, un-normalisable batch, invalid encodings)", func(c *ipa.IPAConfig, seed int64) ([]interface{}, func() string, func() string) {
		p := c12Fixture(c, seed)
		bad := ipa.IPAProof{L: slackEl(p.proof.L[:7]), R: slackEl(p.proof.R), A_scalar: p.proof.A_scalar}
		s := stmt{label: "vt", zs: []int{3, 200}, polys: []namedPoly{pick(polyAlphabet(seed), 10), pick(polyAlphabet(seed), 12)}}
		is := s.build(c)
		mp, err := multiproof.CreateMultiProof(common.NewTranscript("vt"), c, is.Cs, is.fs, is.zs)
		if err != nil {
			panic(core.ImplFault{API: "CreateMultiProof", Input: "honest statement " + s.String(), Got: "error: " + err.Error()})
		}
		short := &multiproof.MultiProof{D: mp.D, IPA: ipa.IPAProof{L: slackEl(mp.IPA.L[:7]), R: slackEl(mp.IPA.R), A_scalar: mp.IPA.A_scalar}}
		pts := []banderwagon.Element{c.SRS[1], c.SRS[2], c.SRS[3]}
		sc := slackFr(frsFromBig([]*big.Int{bi(3), bi(4)}))
		a255 := slackFr(p.a[:255])
		return []interface{}{&bad, short, &is.Cs, &is.ys, &sc, &a255}, func() string {
			ok1, e1 := ipa.CheckIPAProof(common.NewTranscript("ipa"), c, p.cm, bad, p.z, p.y)
			ok2, e2 := multiproof.CheckMultiProof(common.NewTranscript("vt"), c, short, is.Cs, is.ys, is.zs)
			_, e3 := ipa.CreateIPAProof(common.NewTranscript("ipa"), c, p.cm, a255, p.z)
			var e banderwagon.Element
			_, e4 := e.MultiExp(pts, sc, banderwagon.MultiExpConfig{NbTasks: 2, ScalarsMont: true})
			l := make([]*banderwagon.Element, 40)
			for i := range l {
				v := reprOf(c.SRS[i], reprProj)
				l[i] = &v
			}
			var z banderwagon.Element
			l[20] = &z
			e5 := banderwagon.BatchNormalize(l)
			var x fr.Element
			_, e6 := x.SetBytesLECanonical(bytes.Repeat([]byte{0xff}, 32))
			e7 := e.SetBytes(bytes.Repeat([]byte{0xff}, 32))
			var rd multiproof.MultiProof
			e8 := rd.Read(bytes.NewReader(make([]byte, 100)))
			return dg(ok1, e1 != nil, ok2, e2 != nil, e3 != nil, e4 != nil, e5 != nil, e6 != nil, e7 != nil, e8 != nil)
		}, none
	})
	add("SetBigInt / SetInterface with integers outside [0, r) owned by the caller", func(c *ipa.IPAConfig, seed int64) ([]interface{}, func() string, func() string) {
		v1 := new(big.Int).Add(bigR, bi(5))
		v2 := new(big.Int).Neg(bi(7))
		v3 := new(big.Int).Lsh(bigR, 3)
		v4 := new(big.Int).Set(bigR)
		return []interface{}{v1, v2, v3, v4}, func() string {
			var a, b, d, e, f fr.Element
			a.SetBigInt(v1)
			b.SetBigInt(v2)
			d.SetBigInt(v3)
			e.SetBigInt(v4)
			_, err := f.SetInterface(v1)
			return dg(frToBig(a), frToBig(b), frToBig(d), frToBig(e), frToBig(f), err, v1.String(), v2.String(), v3.String(), v4.String())
		}, none
	})
	add("batch encoders on 1100 caller elements in projective form", func(c *ipa.IPAConfig, seed int64) ([]interface{}, func() string, func() string) {
		store := make([]banderwagon.Element, 1100)
		list := make([]*banderwagon.Element, len(store))
		for i := range store {
			store[i] = reprOf(c.SRS[(i*11)%256], 1+i%3)
			list[i] = &store[i]
		}
		return []interface{}{&store}, func() string {
			x := banderwagon.ElementsToBytes(list...)
			y := banderwagon.BatchToBytesUncompressed(list...)
			res := make([]*fr.Element, len(list))
			for i := range res {
				res[i] = new(fr.Element)
			}
			err := banderwagon.BatchMapToScalarField(res, list)
			return dg(x[0], x[1099], y[0][:8], y[1099][:8], frToBig(*res[0]), frToBig(*res[1099]), err)
		}, none
	})
	add("CreateMultiProof + CheckMultiProof of a single opening", func(c *ipa.IPAConfig, seed int64) ([]interface{}, func() string, func() string) {
		s := stmt{label: "one", zs: []int{9}, polys: []namedPoly{pick(polyAlphabet(seed), 12)}}
		is := s.build(c)
		return []interface{}{&is.fs, &is.zs}, func() string {
			p, err := multiproof.CreateMultiProof(common.NewTranscript("one"), c, is.Cs, is.fs, is.zs)
			if err != nil {
				return dg(err)
			}
			ok, verr := multiproof.CheckMultiProof(common.NewTranscript("one"), c, p, is.Cs, is.ys, is.zs)
			return dg(hx(proofBytes(p)), ok, verr)
		}, none
	})
	add("proofs read into variables that already hold a proof; the caller keeps value copies of the earlier proofs", func(c *ipa.IPAConfig, seed int64) ([]interface{}, func() string, func() string) {
		h0 := append(make([]byte, 0, 600), honestProofBytes(seed, 0)...)
		h1 := append(make([]byte, 0, 600), honestProofBytes(seed, 1)...)
		var mp multiproof.MultiProof
		var ip ipa.IPAProof
		if e1, e2 := mp.Read(bytes.NewReader(h0)), ip.Read(bytes.NewReader(h0[32:])); e1 != nil || e2 != nil {
			panic(core.ImplFault{API: "MultiProof.Read / IPAProof.Read", Input: "bytes of an honest proof", Got: fmt.Sprint(e1, e2)})
		}
		// value copies taken by the caller: they are the caller's data from now on and are not passed to any call
		keepM, keepI := mp, ip
		return []interface{}{&h0, &h1, &keepM, &keepI}, func() string {
			e3 := mp.Read(bytes.NewBuffer(append([]byte(nil), h1...)))
			e4 := ip.Read(bytes.NewReader(h1[32:]))
			e5 := ip.Read(bytes.NewReader(h0[32:300])) // truncated
			return dg(e3, e4, e5 != nil, hx(proofBytes(&mp)))
		}, none
	})
	add("fr comparisons and predicates on caller elements (LexicographicallyLargest, Cmp, IsZero, IsUint64, Legendre, Equal), repeated", func(c *ipa.IPAConfig, seed int64) ([]interface{}, func() string, func() string) {
		xs := slackFr(frsFromBig([]*big.Int{bi(1), bi(2), new(big.Int).Sub(bigR, bi(1)), new(big.Int).Sub(bigR, bi(2)), prfR(seed, "c13", 11), new(big.Int).Rsh(bigR, 1)}))
		return []interface{}{&xs}, func() string {
			out := ""
			for round := 0; round < 2; round++ {
				for i := range xs {
					out += fmt.Sprint(xs[i].LexicographicallyLargest(), xs[i].Cmp(&xs[(i+1)%len(xs)]), xs[i].IsZero(), xs[i].IsUint64(), xs[i].Legendre(), xs[i].Equal(&xs[0]))
				}
			}
			return dg(out, frsDigest(xs))
		}, none
	})
	return ops
}

// probe: a fixed computation whose result must not depend on the history that precedes it.
func c13Probe(c *ipa.IPAConfig, seed int64) string {
	f := frsFromBig(pick(polyAlphabet(seed), 10).V)
	cm := c.Commit(f)
	t := common.NewTranscript("probe")
	t.AppendPoint(&cm, []byte("C"))
	ch := t.ChallengeScalar([]byte("x"))
	hb := honestProofBytes(seed, 1)
	var p multiproof.MultiProof
	err := p.Read(bytes.NewReader(hb))
	s := stmt{label: "x", zs: []int{255}, polys: []namedPoly{pick(polyAlphabet(seed), 13)}}
	is := s.build(c)
	ok, verr := multiproof.CheckMultiProof(common.NewTranscript("x"), c, &p, is.Cs, is.ys, is.zs)
	return dg(cm.Bytes(), frToBig(ch), err, ok, verr)
}

func init() {
	core.Register(&core.Check{
		ID: "C13", Level: "model_checking",
		Rule:   "explicit-state search on the fingerprint of everything shared and mutable (deep reflect/unsafe hash of the IPAConfig incl. all precomputed tables, and of every package-level variable: generator, identities, labels, moduli, sqrt tables ...): a menu of 31 API calls with fresh arguments is applied from every reachable state; after EVERY call the shared fingerprint must equal the initial one (on a pure tree the state space is one state with 31 self-loops and the search completes), every caller-supplied argument must be bit-identical to its pre-call deep copy up to slice capacity (commitments given to CreateMultiProof may only change representation), and each call's result digest must equal its result on a fresh process state; the same argument buffers refilled with different content must give the results of fresh arguments (nothing remembered per address); then ALL histories of depth 2 (3 thorough) over the menu with the same checks and a probe call at the end; a state is a distinct shared fingerprint, a transition one API call",
		Assume: []string{"the fingerprint covers memory reachable from the config and from the exported/unexported package variables of go-ipa (gnark-crypto internals are outside)", "result digests are deterministic functions of the inputs (established by C03)"},
		Units:  c13Units,
	})
}

func c13Units(ctx *core.Ctx) []core.Unit {
	var us []core.Unit
	n := len(c13Menu())
	runOp := func(r *core.Result, c *ipa.IPAConfig, seed int64, op c13op, hist string, base map[string]string, fp0 uint64, checkShared bool) {
		args, call, post := op.prep(c, seed)
		before := core.Fingerprint(args...)
		var digest string
		if !guard(r, "c13.panic", op.name, hist, func() { digest = call() }) {
			return
		}
		r.Transitions++
		r.Evals++
		if after := core.Fingerprint(args...); after != before {
			vio(r, "c13.args", op.name, hist, "caller-supplied arguments bit-identical after the call (slices up to capacity)", "an argument was modified")
		}
		if msg := post(); msg != "" {
			vio(r, "c13.args", op.name, hist, "arguments that may be re-normalised keep their value", msg)
		}
		if want, ok := base[op.name]; ok && want != digest {
			vio(r, "c13.history", op.name, hist, "same result as on a fresh state: "+want, digest)
		}
		if checkShared {
			if fp := sharedFingerprint(c); fp != fp0 {
				vio(r, "c13.shared", op.name, hist, "configuration and package-level variables unchanged", "shared fingerprint changed")
			}
		}
	}
	baseline := func(c *ipa.IPAConfig, seed int64, r *core.Result) (map[string]string, uint64) {
		fp0 := sharedFingerprint(c)
		base := map[string]string{}
		for _, op := range c13Menu() {
			_, call, _ := op.prep(c, seed)
			var d string
			if guard(r, "c13.panic", op.name, "baseline "+op.name, func() { d = call() }) {
				base[op.name] = d
			}
		}
		base["probe"] = c13Probe(c, seed)
		if sharedFingerprint(c) != fp0 {
			// localised by the depth-1 unit
		}
		return base, fp0
	}
	us = append(us, core.Unit{Name: "depth 1: every menu call from the initial state, shared fingerprint after each", Run: func(ctx *core.Ctx, r *core.Result) {
		needRef()
		c := conf()
		fp0 := sharedFingerprint(c)
		d := core.NewDeepHasher()
		d.Add(c)
		r.Note("config_bytes_hashed", d.N)
		states := map[uint64]bool{fp0: true}
		base := map[string]string{}
		for _, op := range c13Menu() {
			runOp(r, c, ctx.Seed, op, "initial state; "+op.name, base, fp0, true)
			states[sharedFingerprint(c)] = true
			r.Nontrivial++
		}
		// second round: same calls again, results must repeat
		for _, op := range c13Menu() {
			_, call, _ := op.prep(c, ctx.Seed)
			base[op.name] = call()
		}
		for _, op := range c13Menu() {
			runOp(r, c, ctx.Seed, op, "after the whole menu; "+op.name, base, fp0, true)
		}
		r.States = int64(len(states))
		r.Traces = r.Transitions
		r.Sample(map[string]interface{}{"call": "CreateMultiProof(n=2 sharing an index)", "checked": "shared fingerprint (config ~" + fmt.Sprint(d.N>>20) + " MiB + package variables), argument deep copies up to capacity, result digest"})
	}})
	us = append(us, core.Unit{Name: "the same argument buffers reused with different content (results must not be remembered per address)", Run: func(ctx *core.Ctx, r *core.Result) {
		needRef()
		c := conf()
		polys := polyAlphabet(ctx.Seed)
		// persistent buffers, overwritten in place for every variant
		poly := make([]fr.Element, 256)
		poly2 := make([]fr.Element, 256)
		pts := make([]banderwagon.Element, 4)
		sc := make([]fr.Element, 4)
		var el, el2 banderwagon.Element
		ptrs := []*banderwagon.Element{&el, &el2, &el}
		buf32 := make([]byte, 32)
		fsBuf := [][]fr.Element{poly, poly2}
		zsBuf := []uint8{0, 0}
		CsBuf := []*banderwagon.Element{&el, &el2}
		var prBuf ipa.IPAProof
		res := []*fr.Element{new(fr.Element), new(fr.Element), new(fr.Element)}
		fill := func(v int, fresh bool) (fPoly, fPoly2 []fr.Element, fPts []banderwagon.Element, fSc []fr.Element, fPtrs []*banderwagon.Element, fBuf []byte, fFs [][]fr.Element, fZs []uint8, fCs []*banderwagon.Element, fRes []*fr.Element) {
			fPoly, fPoly2, fPts, fSc, fPtrs, fBuf, fFs, fZs, fCs, fRes = poly, poly2, pts, sc, ptrs, buf32, fsBuf, zsBuf, CsBuf, res
			if fresh {
				fPoly, fPoly2 = make([]fr.Element, 256), make([]fr.Element, 256)
				fPts, fSc = make([]banderwagon.Element, 4), make([]fr.Element, 4)
				a, b := new(banderwagon.Element), new(banderwagon.Element)
				fPtrs = []*banderwagon.Element{a, b, a}
				fBuf = make([]byte, 32)
				fFs = [][]fr.Element{fPoly, fPoly2}
				fZs = []uint8{0, 0}
				fCs = []*banderwagon.Element{a, b}
				fRes = []*fr.Element{new(fr.Element), new(fr.Element), new(fr.Element)}
			}
			copy(fPoly, frsFromBig(pick(polys, 8+v).V))
			copy(fPoly2, frsFromBig(pick(polys, 11+v).V))
			for i := range fPts {
				fPts[i] = reprOf(c.SRS[(i*17+v*5)%256], (i+v)%nRepr)
				fSc[i] = frFromBig(msmScalar(ctx.Seed, i+v*4, 0))
			}
			*fPtrs[0] = reprOf(c.SRS[(40+v)%256], 1+v%3)
			*fPtrs[1] = reprOf(c.SRS[(90+v*3)%256], 1+(v+1)%3)
			b := c.SRS[(200+v)%256].Bytes()
			copy(fBuf, b[:])
			fZs[0], fZs[1] = uint8(3+v), uint8(200-v)
			return
		}
		type call struct {
			name string
			f    func(fPoly, fPoly2 []fr.Element, fPts []banderwagon.Element, fSc []fr.Element, fPtrs []*banderwagon.Element, fBuf []byte, fFs [][]fr.Element, fZs []uint8, fCs []*banderwagon.Element, fRes []*fr.Element, pr *ipa.IPAProof) string
		}
		calls := []call{
			{"Commit", func(p, _ []fr.Element, _ []banderwagon.Element, _ []fr.Element, _ []*banderwagon.Element, _ []byte, _ [][]fr.Element, _ []uint8, _ []*banderwagon.Element, _ []*fr.Element, _ *ipa.IPAProof) string {
				e := c.Commit(p)
				return dg(e.Bytes())
			}},
			{"MultiScalar", func(_, _ []fr.Element, ps []banderwagon.Element, ss []fr.Element, _ []*banderwagon.Element, _ []byte, _ [][]fr.Element, _ []uint8, _ []*banderwagon.Element, _ []*fr.Element, _ *ipa.IPAProof) string {
				e, err := ipa.MultiScalar(ps, ss)
				return dg(e.Bytes(), err)
			}},
			{"ElementsToBytes/BatchMapToScalarField/Bytes/MapToScalarField", func(_, _ []fr.Element, _ []banderwagon.Element, _ []fr.Element, pp []*banderwagon.Element, _ []byte, _ [][]fr.Element, _ []uint8, _ []*banderwagon.Element, rs []*fr.Element, _ *ipa.IPAProof) string {
				x := banderwagon.ElementsToBytes(pp...)
				err := banderwagon.BatchMapToScalarField(rs, pp)
				var m fr.Element
				pp[0].MapToScalarField(&m)
				return dg(x, frToBig(*rs[0]), frToBig(*rs[1]), frToBig(*rs[2]), err, pp[1].Bytes(), frToBig(m))
			}},
			{"SetBytes/ReadPoint", func(_, _ []fr.Element, _ []banderwagon.Element, _ []fr.Element, _ []*banderwagon.Element, b []byte, _ [][]fr.Element, _ []uint8, _ []*banderwagon.Element, _ []*fr.Element, _ *ipa.IPAProof) string {
				var e banderwagon.Element
				err := e.SetBytes(b)
				p, err2 := common.ReadPoint(bytes.NewReader(b))
				return dg(elString(&e), err, p != nil && p.Equal(&e), err2)
			}},
			{"DivideOnDomain/BatchInvert", func(p, _ []fr.Element, _ []banderwagon.Element, ss []fr.Element, _ []*banderwagon.Element, _ []byte, _ [][]fr.Element, zs []uint8, _ []*banderwagon.Element, _ []*fr.Element, _ *ipa.IPAProof) string {
				q := c.PrecomputedWeights.DivideOnDomain(zs[0], p)
				return dg(frsDigest(q), frsDigest(fr.BatchInvert(ss)))
			}},
			{"CreateMultiProof+CheckMultiProof", func(_, _ []fr.Element, _ []banderwagon.Element, _ []fr.Element, _ []*banderwagon.Element, _ []byte, fs [][]fr.Element, zs []uint8, Cs []*banderwagon.Element, _ []*fr.Element, _ *ipa.IPAProof) string {
				*Cs[0] = c.Commit(fs[0])
				*Cs[1] = c.Commit(fs[1])
				p, err := multiproof.CreateMultiProof(common.NewTranscript("vt"), c, Cs, fs, zs)
				if err != nil {
					return dg(err)
				}
				y0, y1 := fs[0][zs[0]], fs[1][zs[1]]
				ok, verr := multiproof.CheckMultiProof(common.NewTranscript("vt"), c, p, Cs, []*fr.Element{&y0, &y1}, zs)
				return dg(hx(proofBytes(p)), ok, verr)
			}},
			{"CreateIPAProof+CheckIPAProof through one reused proof object", func(p, _ []fr.Element, _ []banderwagon.Element, _ []fr.Element, _ []*banderwagon.Element, _ []byte, _ [][]fr.Element, zs []uint8, _ []*banderwagon.Element, _ []*fr.Element, pr *ipa.IPAProof) string {
				cm := c.Commit(p)
				z := frFromBig(bi(int64(300 + int(zs[0]))))
				np, err := ipa.CreateIPAProof(common.NewTranscript("ipa"), c, cm, p, z)
				if err != nil {
					return dg(err)
				}
				// overwrite the contents of the reused proof object in place
				if len(pr.L) == len(np.L) {
					copy(pr.L, np.L)
					copy(pr.R, np.R)
					pr.A_scalar = np.A_scalar
				} else {
					*pr = np
				}
				b := c.PrecomputedWeights.ComputeBarycentricCoefficients(z)
				y, _ := ipa.InnerProd(p, b)
				ok, verr := ipa.CheckIPAProof(common.NewTranscript("ipa"), c, cm, *pr, z, y)
				return dg(hx(ipaProofBytes(pr)), ok, verr)
			}},
		}
		for _, cl := range calls {
			for _, v := range []int{0, 1, 2, 0, 2} {
				a1, a2, a3, a4, a5, a6, a7, a8, a9, a10 := fill(v, true)
				var frp ipa.IPAProof
				want := cl.f(a1, a2, a3, a4, a5, a6, a7, a8, a9, a10, &frp)
				b1, b2, b3, b4, b5, b6, b7, b8, b9, b10 := fill(v, false)
				desc := fmt.Sprintf("%s: persistent argument buffers refilled with variant %d", cl.name, v)
				var got string
				if !guard(r, "c13.panic", cl.name, desc, func() { got = cl.f(b1, b2, b3, b4, b5, b6, b7, b8, b9, b10, &prBuf) }) {
					continue
				}
				r.Evals++
				r.Transitions++
				r.Nontrivial++
				if got != want {
					vio(r, "c13.history", cl.name, desc, "same result as with freshly allocated arguments holding the same values", "different result")
				}
			}
		}
		r.States = 1
		r.Traces = r.Transitions
		r.Sample(map[string]interface{}{"history": "MultiScalar over the same slices refilled with variants 0,1,2,0,2", "oracle": "result with freshly allocated arguments of equal value"})
	}})
	depth := 2
	if ctx.Thorough() {
		depth = 3
	}
	for first := 0; first < n; first++ {
		first := first
		us = append(us, core.Unit{Name: fmt.Sprintf("histories of depth %d starting with call #%d, probe at the end", depth, first), Run: func(ctx *core.Ctx, r *core.Result) {
			needRef()
			c := conf()
			menu := c13Menu()
			base, fp0 := baseline(c, ctx.Seed, r)
			states := map[uint64]bool{fp0: true}
			var rec func(hist []int)
			rec = func(hist []int) {
				if len(hist) == depth {
					// replay the history on the real objects, then the probe
					desc := "history:"
					for _, oi := range hist {
						desc += " " + menu[oi].name + ";"
						runOp(r, c, ctx.Seed, menu[oi], desc, base, fp0, false)
					}
					if got := c13Probe(c, ctx.Seed); got != base["probe"] {
						vio(r, "c13.history", "probe (Commit + challenge + CheckMultiProof)", desc, "probe result as on a fresh state", "different")
					}
					fp := sharedFingerprint(c)
					states[fp] = true
					if fp != fp0 {
						vio(r, "c13.shared", "history", desc, "configuration and package-level variables unchanged", "shared fingerprint changed")
					}
					r.Nontrivial++
					return
				}
				for oi := range menu {
					rec(append(hist, oi))
				}
			}
			rec([]int{first})
			r.States = int64(len(states))
			r.Traces = r.Nontrivial
			r.Sample(map[string]interface{}{"history": menu[first].name + "; " + menu[(first+7)%n].name + "; probe", "depth": depth})
		}})
	}
	return us
}
