package checks

import (
	"fmt"
	"math/big"
	"sort"
	"strings"

	"github.com/crate-crypto/go-ipa/zzverif/vsched"
	"verif.local/engine/core"
	"verif.local/engine/explore"
)

// SELFTEST — the engine must find seeded bugs and reproduce closed-form counts before any check is trusted.

func outcomeSet(st *explore.Stats) string {
	var ks []string
	for k := range st.Outcomes {
		ks = append(ks, k)
	}
	sort.Strings(ks)
	return strings.Join(ks, "|")
}

func init() {
	core.Register(&core.Check{
		ID: "SELFTEST", Level: "other", Rule: "engine self-test", Workers: 4,
		Units: func(ctx *core.Ctx) []core.Unit {
			fail := func(r *core.Result, what string) {
				r.ToolError = "engine self-test failed: " + what
			}
			return []core.Unit{
				{Name: "closed-form counts", Run: func(ctx *core.Ctx, r *core.Result) {
					if !vsched.Instrumented {
						return
					}
					// k goroutines, each one Counter.Add then exit; the root waits on a WaitGroup.
					fanin := func(k int) func() string {
						return func() string {
							ch := vsched.MakeChan[int](0)
							for i := 0; i < k; i++ {
								vsched.Go1(func(i int) { ch.Send(i) }, i)
							}
							o := ""
							for i := 0; i < k; i++ {
								o += fmt.Sprint(ch.Recv())
							}
							return o
						}
					}
					fact := []int{1, 1, 2, 6, 24}
					for k := 2; k <= 4; k++ {
						d := explore.DPOR(fanin(k), explore.Options{DataBudget: -1})
						if len(d.Outcomes) != fact[k] || !d.Exhaustive {
							fail(r, fmt.Sprintf("DPOR fan-in k=%d: %d arrival orders, want %d", k, len(d.Outcomes), fact[k]))
						}
						if k <= 3 {
							n := explore.Naive(fanin(k), explore.Options{})
							if outcomeSet(n) != outcomeSet(d) {
								fail(r, fmt.Sprintf("DPOR and reduction-free search disagree on fan-in k=%d", k))
							}
						}
						r.Evals += int64(d.Execs)
					}
					// independent goroutines: exactly one trace
					indep := func() string {
						var wg vsched.WaitGroup
						cs := make([]vsched.Counter, 5)
						for i := range cs {
							wg.Add(1)
							vsched.Go1(func(i int) { cs[i].Add(1); cs[i].Add(1); wg.Done() }, i)
						}
						wg.Wait()
						return "ok"
					}
					d := explore.DPOR(indep, explore.Options{DataBudget: -1})
					if d.Complete != 1 {
						fail(r, fmt.Sprintf("5 independent goroutines: %d complete traces, want 1", d.Complete))
					}
					// two goroutines with 2 yields each, no reduction: C(6,3)=20 interleavings of 3 steps each (start+2 yields) ... counted empirically against the multinomial
					two := func() string {
						var wg vsched.WaitGroup
						for i := 0; i < 2; i++ {
							wg.Add(1)
							vsched.Go0(func() { vsched.Yield(); wg.Done() })
						}
						wg.Wait()
						return "ok"
					}
					n := explore.Naive(two, explore.Options{})
					if !n.Exhaustive || n.Execs < 20 {
						fail(r, fmt.Sprintf("reduction-free search of 2x(start,yield,done,exit): %d executions", n.Execs))
					}
					r.Evals += int64(n.Execs)
				}},
				{Name: "seeded bugs are found", Run: func(ctx *core.Ctx, r *core.Result) {
					if !vsched.Instrumented {
						return
					}
					// lost update: read-then-write through visible counter operations
					lost := func() string {
						var c vsched.Counter
						var wg vsched.WaitGroup
						for i := 0; i < 2; i++ {
							wg.Add(1)
							vsched.Go0(func() { v := c.Read(); vsched.Yield(); c.Add(v + 1 - c.Read()); wg.Done() })
						}
						wg.Wait()
						return fmt.Sprint(c.Read())
					}
					for _, st := range []*explore.Stats{explore.DPOR(lost, explore.Options{DataBudget: -1}), explore.Bounded(lost, explore.Options{MaxBound: 2})} {
						if st.Outcomes["1"] == 0 || st.Outcomes["2"] == 0 {
							fail(r, fmt.Sprintf("lost update not found by %s: %v", st.Mode, st.Outcomes))
						}
						r.Evals += int64(st.Execs)
					}
					// deadlock: undersized buffered channel, nobody receives until all have sent
					dead := func() string {
						ch := vsched.MakeChan[int](1)
						var wg vsched.WaitGroup
						for i := 0; i < 2; i++ {
							wg.Add(1)
							vsched.Go0(func() { ch.Send(1); wg.Done() })
						}
						wg.Wait()
						return "ok"
					}
					st := explore.DPOR(dead, explore.Options{DataBudget: -1})
					if st.Deadlocks == 0 {
						fail(r, "seeded deadlock not found")
					}
					// missing join: early return visible only under some schedules
					early := func() string {
						var fin vsched.Counter
						vsched.Go0(func() { vsched.Yield(); fin.Add(1) })
						return fmt.Sprint(fin.Read())
					}
					st = explore.DPOR(early, explore.Options{DataBudget: -1})
					if st.Outcomes["0"] == 0 || st.Outcomes["1"] == 0 {
						fail(r, fmt.Sprintf("missing join: outcomes %v", st.Outcomes))
					}
					// use after Put: pool poisoning
					old := vsched.PoolPoison
					vsched.PoolPoison = func(x interface{}) { x.(*big.Int).SetInt64(-99) }
					pool := &vsched.Pool{New: func() interface{} { return new(big.Int) }}
					uap := func() string {
						v := pool.Get().(*big.Int)
						v.SetInt64(7)
						pool.Put(v)
						return v.String() // use after Put
					}
					x := explore.RunOnce(uap, nil)
					vsched.PoolPoison = old
					if x.Obs != "-99" {
						fail(r, "use-after-Put not exposed by poisoning: "+x.Obs)
					}
					// pool answers: all of {reuse, new} explored
					pool2 := &vsched.Pool{New: func() interface{} { return big.NewInt(0) }}
					pa := func() string {
						a := pool2.Get().(*big.Int)
						a.SetInt64(5)
						pool2.Put(a)
						b := pool2.Get().(*big.Int)
						s := b.String()
						pool2.Put(b)
						return s
					}
					st = explore.DPOR(pa, explore.Options{DataBudget: -1, MaxExecs: 200})
					if len(st.Outcomes) < 2 {
						fail(r, fmt.Sprintf("pool answers not enumerated: %v", st.Outcomes))
					}
					r.Evals += int64(st.Execs)
				}},
				{Name: "shim vs native primitives", Run: func(ctx *core.Ctx, r *core.Result) {
					// pass-through mode: behaviour of the shim channel/WaitGroup equals the native one on a few programs
					ch := vsched.MakeChan[int](2)
					ch.Send(1)
					ch.Send(2)
					if ch.Len() != 2 || ch.Cap() != 2 || ch.Recv() != 1 {
						fail(r, "pass-through channel misbehaves")
					}
					ch.Close()
					if v, ok := ch.Recv2(); v != 2 || !ok {
						fail(r, "pass-through closed channel drains wrongly")
					}
					if _, ok := ch.Recv2(); ok {
						fail(r, "pass-through closed channel reports ok")
					}
					if vsched.Instrumented {
						// controlled mode: same program, same answers
						x := explore.RunOnce(func() string {
							c := vsched.MakeChan[int](2)
							c.Send(1)
							c.Send(2)
							a := c.Recv()
							c.Close()
							b, ok1 := c.Recv2()
							_, ok2 := c.Recv2()
							return fmt.Sprint(a, b, ok1, ok2)
						}, nil)
						if x.Obs != "1 2 true false" {
							fail(r, "controlled channel semantics: "+x.Outcome())
						}
						y := explore.RunOnce(func() string {
							c := vsched.MakeChan[int](0)
							c.Close()
							c.Send(1)
							return "no panic"
						}, nil)
						if !strings.Contains(y.Outcome(), "send on closed channel") {
							fail(r, "send on closed channel does not panic: "+y.Outcome())
						}
					}
					r.Evals += 3
				}},
			}
		},
	})
}
