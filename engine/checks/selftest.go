package checks

import (
	"fmt"
	"github.com/crate-crypto/go-ipa/zzverif/vatomic"
	"math/big"
	"os"
	"sort"
	"strings"

	"github.com/crate-crypto/go-ipa/zzverif/vsched"
	"verif.local/engine/core"
	"verif.local/engine/explore"
)

// SELFTEST — the engine must find seeded bugs and reproduce closed-form counts before any check is trusted.

func outcomeSet(st *explore.Stats) string {
	var ks []string
	for k := range st.Outcomes {
		ks = append(ks, k)
	}
	sort.Strings(ks)
	return strings.Join(ks, "|")
}

func selfFail(r *core.Result, what string) {
	if r.ToolError == "" {
		r.ToolError = "engine self-test failed: " + what
	} else {
		r.ToolError += "\n" + what
	}
}

func selftestFamily2(part, parts int) core.Unit {
	return core.Unit{Name: fmt.Sprintf("DPOR vs reduction-free search: 3 goroutines + root, counter/unbuffered channel/mutex/pool, part %d/%d", part, parts), Run: func(ctx *core.Ctx, r *core.Result) {
		if !vsched.Instrumented {
			return
		}
		// operations: 0 R (counter read), 1 A (counter add local+1), 2 S (send on an unbuffered channel),
		// 3 V (receive), 4 L (lock; read-modify-write of a plain variable; unlock), 5 P (pool get, observe, put)
		mism, compared := 0, 0
		defer func() { r.Note("n_programs_compared", compared) }()
		for code := 0; code < 1296 && mism < 3; code++ {
			ops := [4]int{code % 6, (code / 6) % 6, (code / 36) % 6, (code / 216) % 6}
			body := func() string {
				var c vsched.Counter
				ch := vsched.MakeChan[int](0)
				var mu vsched.Mutex
				plain := 0
				pool := &vsched.Pool{New: func() interface{} { return new(int) }}
				locs := [4]int{1, 2, 3, 4}
				do := func(op int, loc *int) {
					switch op {
					case 0:
						*loc = c.Read()
					case 1:
						c.Add(*loc + 1)
					case 2:
						ch.Send(*loc)
					case 3:
						*loc = ch.Recv() + 10
					case 4:
						mu.Lock()
						plain = plain*2 + *loc
						mu.Unlock()
					case 5:
						x := pool.Get().(*int)
						*loc = *loc*100 + *x
						*x = *loc % 7
						pool.Put(x)
					}
				}
				var wg vsched.WaitGroup
				for g := 0; g < 3; g++ {
					wg.Add(1)
					vsched.Go1(func(g int) { do(ops[g], &locs[g]); wg.Done() }, g)
				}
				do(ops[3], &locs[3])
				wg.Wait()
				return fmt.Sprint(locs, c.Read(), plain)
			}
			if code%parts != part {
				continue
			}
			n := explore.Naive(body, explore.Options{MaxExecs: 12000})
			if !n.Exhaustive {
				continue // too many interleavings for the reduction-free search: not compared
			}
			d := explore.DPOR(body, explore.Options{DataBudget: -1, MaxExecs: 100000})
			r.Evals += int64(d.Execs + n.Execs)
			compared++
			if !d.Exhaustive {
				selfFail(r, fmt.Sprintf("generated program %v did not finish", ops))
				mism++
				continue
			}
			if outcomeSet(d) != outcomeSet(n) {
				selfFail(r, fmt.Sprintf("DPOR and reduction-free search disagree on generated 3-goroutine program %v:\n dpor : %s\n naive: %s", ops, outcomeSet(d), outcomeSet(n)))
				mism++
			}
		}
	}}
}

func init() {
	core.Register(&core.Check{
		ID: "SELFTEST", Level: "other", Rule: "engine self-test",
		Units: func(ctx *core.Ctx) []core.Unit {
			fail := func(r *core.Result, what string) {
				if r.ToolError == "" {
					r.ToolError = "engine self-test failed: " + what
				} else {
					r.ToolError += "\n" + what
				}
			}
			us := []core.Unit{
				{Name: "closed-form counts", Run: func(ctx *core.Ctx, r *core.Result) {
					if !vsched.Instrumented {
						return
					}
					// k goroutines, each one Counter.Add then exit; the root waits on a WaitGroup.
					fanin := func(k int) func() string {
						return func() string {
							ch := vsched.MakeChan[int](0)
							for i := 0; i < k; i++ {
								vsched.Go1(func(i int) { ch.Send(i) }, i)
							}
							o := ""
							for i := 0; i < k; i++ {
								o += fmt.Sprint(ch.Recv())
							}
							return o
						}
					}
					fact := []int{1, 1, 2, 6, 24}
					for k := 2; k <= 4; k++ {
						d := explore.DPOR(fanin(k), explore.Options{DataBudget: -1})
						if len(d.Outcomes) != fact[k] || !d.Exhaustive {
							fail(r, fmt.Sprintf("DPOR fan-in k=%d: %d arrival orders, want %d", k, len(d.Outcomes), fact[k]))
						}
						if k <= 3 {
							n := explore.Naive(fanin(k), explore.Options{})
							if outcomeSet(n) != outcomeSet(d) {
								fail(r, fmt.Sprintf("DPOR and reduction-free search disagree on fan-in k=%d", k))
							}
						}
						r.Evals += int64(d.Execs)
					}
					// independent goroutines: exactly one trace
					indep := func() string {
						var wg vsched.WaitGroup
						cs := make([]vsched.Counter, 5)
						for i := range cs {
							wg.Add(1)
							vsched.Go1(func(i int) { cs[i].Add(1); cs[i].Add(1); wg.Done() }, i)
						}
						wg.Wait()
						return "ok"
					}
					d := explore.DPOR(indep, explore.Options{DataBudget: -1})
					if d.Complete != 1 {
						fail(r, fmt.Sprintf("5 independent goroutines: %d complete traces, want 1", d.Complete))
					}
					// two goroutines with 2 yields each, no reduction: C(6,3)=20 interleavings of 3 steps each (start+2 yields) ... counted empirically against the multinomial
					two := func() string {
						var wg vsched.WaitGroup
						for i := 0; i < 2; i++ {
							wg.Add(1)
							vsched.Go0(func() { vsched.Yield(); wg.Done() })
						}
						wg.Wait()
						return "ok"
					}
					n := explore.Naive(two, explore.Options{})
					if !n.Exhaustive || n.Execs < 20 {
						fail(r, fmt.Sprintf("reduction-free search of 2x(start,yield,done,exit): %d executions", n.Execs))
					}
					r.Evals += int64(n.Execs)
				}},
				{Name: "seeded bugs are found", Run: func(ctx *core.Ctx, r *core.Result) {
					if !vsched.Instrumented {
						return
					}
					// lost update: read-then-write through visible counter operations
					lost := func() string {
						var c vsched.Counter
						var wg vsched.WaitGroup
						for i := 0; i < 2; i++ {
							wg.Add(1)
							vsched.Go0(func() { v := c.Read(); vsched.Yield(); c.Add(v + 1 - c.Read()); wg.Done() })
						}
						wg.Wait()
						return fmt.Sprint(c.Read())
					}
					for _, st := range []*explore.Stats{explore.DPOR(lost, explore.Options{DataBudget: -1}), explore.Bounded(lost, explore.Options{MaxBound: 2})} {
						if st.Outcomes["1"] == 0 || st.Outcomes["2"] == 0 {
							fail(r, fmt.Sprintf("lost update not found by %s: %v", st.Mode, st.Outcomes))
						}
						r.Evals += int64(st.Execs)
					}
					// deadlock: undersized buffered channel, nobody receives until all have sent
					dead := func() string {
						ch := vsched.MakeChan[int](1)
						var wg vsched.WaitGroup
						for i := 0; i < 2; i++ {
							wg.Add(1)
							vsched.Go0(func() { ch.Send(1); wg.Done() })
						}
						wg.Wait()
						return "ok"
					}
					st := explore.DPOR(dead, explore.Options{DataBudget: -1})
					if st.Deadlocks == 0 {
						fail(r, "seeded deadlock not found")
					}
					// missing join: early return visible only under some schedules
					early := func() string {
						var fin vsched.Counter
						vsched.Go0(func() { vsched.Yield(); fin.Add(1) })
						return fmt.Sprint(fin.Read())
					}
					st = explore.DPOR(early, explore.Options{DataBudget: -1})
					if st.Outcomes["0"] == 0 || st.Outcomes["1"] == 0 {
						fail(r, fmt.Sprintf("missing join: outcomes %v", st.Outcomes))
					}
					// use after Put: pool poisoning
					old := vsched.PoolPoison
					vsched.PoolPoison = func(x interface{}) { x.(*big.Int).SetInt64(-99) }
					pool := &vsched.Pool{New: func() interface{} { return new(big.Int) }}
					uap := func() string {
						v := pool.Get().(*big.Int)
						v.SetInt64(7)
						pool.Put(v)
						return v.String() // use after Put
					}
					x := explore.RunOnce(uap, nil)
					vsched.PoolPoison = old
					if x.Obs != "-99" {
						fail(r, "use-after-Put not exposed by poisoning: "+x.Obs)
					}
					// pool answers: all of {reuse, new} explored
					pool2 := &vsched.Pool{New: func() interface{} { return big.NewInt(0) }}
					pa := func() string {
						a := pool2.Get().(*big.Int)
						a.SetInt64(5)
						pool2.Put(a)
						b := pool2.Get().(*big.Int)
						s := b.String()
						pool2.Put(b)
						return s
					}
					st = explore.DPOR(pa, explore.Options{DataBudget: -1, MaxExecs: 200})
					if len(st.Outcomes) < 2 {
						fail(r, fmt.Sprintf("pool answers not enumerated: %v", st.Outcomes))
					}
					r.Evals += int64(st.Execs)
				}},
				{Name: "seeded bugs of two callers at once are found by the caller-switch search (and only with its ingredients)", Run: func(ctx *core.Ctx, r *core.Result) {
					if !vsched.Instrumented {
						return
					}
					two := func(mk func() func(k int) string) func() string {
						return func() string {
							f := mk() // fresh shared state for every execution
							outs := make([]string, 2)
							var wg vsched.WaitGroup
							wg.Add(2)
							vsched.Go1(func(k int) { defer wg.Done(); outs[0] = f(k) }, 0)
							vsched.Go1(func(k int) { defer wg.Done(); outs[1] = f(k) }, 1)
							wg.Wait()
							return outs[0] + "|" + outs[1]
						}
					}
					search := func(body func() string, post bool) *explore.Stats {
						vsched.FamilyAffinity, vsched.PostPoints = true, post
						defer func() { vsched.FamilyAffinity, vsched.PostPoints = false, false }()
						return explore.Bounded(body, explore.Options{MaxBound: 1, SchedOnly: true, Allow: callerSwitch})
					}
					// (1) a table published before it is complete: flag stored (atomically), data written afterwards
					mk1 := func() func() string {
						return two(func() func(k int) string {
							var built uint32
							var mu vsched.Mutex
							table := 0
							return func(k int) string {
								if vatomic.LoadUint32(&built) == 0 {
									mu.Lock()
									if vatomic.LoadUint32(&built) == 0 {
										vatomic.StoreUint32(&built, 1)
										table = 42
									}
									mu.Unlock()
								}
								return fmt.Sprint(table)
							}
						})
					}
					if st := search(mk1(), true); st.Outcomes["42|42"] == 0 || len(st.Outcomes) < 2 {
						fail(r, fmt.Sprintf("flag-before-data publication not found with post points: %v", st.Outcomes))
					} else {
						r.Evals += int64(st.Execs)
					}
					if st := search(mk1(), false); len(st.Outcomes) != 1 {
						fail(r, fmt.Sprintf("flag-before-data publication: expected to be invisible without post points (a point before each operation only): %v", st.Outcomes))
					}
					if st := explore.DPOR(mk1(), explore.Options{DataBudget: -1}); len(st.Outcomes) != 1 {
						fail(r, fmt.Sprintf("flag-before-data publication: DPOR is expected not to see the unsynchronised accesses: %v", st.Outcomes))
					}
					// (2) a memo refilled under a lock and read after the lock was released
					mk2 := func() func() string {
						return two(func() func(k int) string {
							var mu vsched.Mutex
							row := 0
							return func(k int) string {
								mu.Lock()
								row = 10 + k
								mu.Unlock()
								return fmt.Sprint(row)
							}
						})
					}
					if st := search(mk2(), true); st.Outcomes["10|11"] == 0 || len(st.Outcomes) < 2 {
						fail(r, fmt.Sprintf("read-after-unlock of a shared memo not found: %v", st.Outcomes))
					} else {
						r.Evals += int64(st.Execs)
					}
					// (3) a scratch buffer shared without any synchronisation, used across a fan-out of the call
					mk3 := func() func() string {
						return two(func() func(k int) string {
							scratch := 0
							return func(k int) string {
								scratch = 100 + k
								var wg vsched.WaitGroup
								got := 0
								wg.Add(1)
								vsched.Go0(func() { got = scratch; wg.Done() })
								wg.Wait()
								return fmt.Sprint(got)
							}
						})
					}
					if st := search(mk3(), false); st.Outcomes["100|101"] == 0 || len(st.Outcomes) < 2 {
						fail(r, fmt.Sprintf("unsynchronised scratch buffer across a fan-out not found: %v", st.Outcomes))
					} else {
						r.Evals += int64(st.Execs)
					}
					// (3b) a scratch variable shared by the worker closures of ONE call (points as the instrumenter
					// places them: before and after the statements naming it), found by the unfiltered bounded search
					wk := func(shared bool) func() string {
						return func() string {
							out := make([]int, 4)
							var scratch int
							var wg vsched.WaitGroup
							for w := 0; w < 2; w++ {
								wg.Add(1)
								vsched.Go1(func(w int) {
									defer wg.Done()
									for i := w * 2; i < w*2+2; i++ {
										if shared {
											vsched.GP()
											scratch = i * 10
											vsched.GP()
											vsched.GP()
											out[i] = scratch
											vsched.GP()
										} else {
											local := i * 10
											out[i] = local
										}
									}
								}, w)
							}
							wg.Wait()
							return fmt.Sprint(out)
						}
					}
					vsched.GlobalPoints = true
					stw := explore.Bounded(wk(true), explore.Options{MaxBound: 1, SchedOnly: true, Spread: true})
					sto := explore.Bounded(wk(false), explore.Options{MaxBound: 1, SchedOnly: true, Spread: true})
					vsched.GlobalPoints = false
					if stw.Outcomes["[0 10 20 30]"] == 0 || len(stw.Outcomes) < 2 {
						fail(r, fmt.Sprintf("scratch variable shared by the workers of one call not found: %v", stw.Outcomes))
					}
					if len(sto.Outcomes) != 1 {
						fail(r, fmt.Sprintf("workers with local scratch reported as schedule-dependent: %v", sto.Outcomes))
					}
					r.Evals += int64(stw.Execs + sto.Execs)
					// (4) correct counterparts give one outcome
					ok1 := func() func() string {
						return two(func() func(k int) string {
							var built uint32
							var mu vsched.Mutex
							table := 0
							return func(k int) string {
								if vatomic.LoadUint32(&built) == 0 {
									mu.Lock()
									if vatomic.LoadUint32(&built) == 0 {
										table = 42
										vatomic.StoreUint32(&built, 1)
									}
									mu.Unlock()
								}
								return fmt.Sprint(table)
							}
						})
					}
					if st := search(ok1(), true); len(st.Outcomes) != 1 || st.Outcomes["42|42"] == 0 {
						fail(r, fmt.Sprintf("correct lazy initialisation reported as schedule-dependent: %v", st.Outcomes))
					}
					if st := explore.DPOR(ok1(), explore.Options{DataBudget: -1}); len(st.Outcomes) != 1 || st.Execs < 2 {
						fail(r, fmt.Sprintf("DPOR over atomic operations: %d executions, outcomes %v", st.Execs, st.Outcomes))
					}
				}},
				{Name: "DPOR vs reduction-free search on a family of small programs", Run: func(ctx *core.Ctx, r *core.Result) {
					if !vsched.Instrumented {
						return
					}
					type prog struct {
						name string
						body func() string
					}
					progs := []prog{
						{"2 producers, 1 consumer, buffered(1)", func() string {
							ch := vsched.MakeChan[int](1)
							for i := 0; i < 2; i++ {
								vsched.Go1(func(i int) { ch.Send(i); ch.Send(10 + i) }, i)
							}
							o := ""
							for i := 0; i < 4; i++ {
								o += fmt.Sprint(ch.Recv(), ",")
							}
							return o
						}},
						{"read-modify-write + rendezvous", func() string {
							var c vsched.Counter
							ch := vsched.MakeChan[int](0)
							vsched.Go0(func() { v := c.Read(); c.Add(v + 1); ch.Send(1) })
							vsched.Go0(func() { v := c.Read(); c.Add(v + 5); ch.Send(2) })
							a := ch.Recv()
							x := c.Read()
							b := ch.Recv()
							return fmt.Sprint(a, x, b, c.Read())
						}},
						{"pool identity", func() string {
							p := &vsched.Pool{New: func() interface{} { return new(int) }}
							var wg vsched.WaitGroup
							outs := make([]string, 2)
							for i := 0; i < 2; i++ {
								wg.Add(1)
								vsched.Go1(func(i int) {
									x := p.Get().(*int)
									outs[i] = fmt.Sprint(*x)
									*x = i + 1
									p.Put(x)
									wg.Done()
								}, i)
							}
							wg.Wait()
							return outs[0] + "/" + outs[1]
						}},
						{"mutex sections + unprotected read", func() string {
							var mu vsched.Mutex
							var c vsched.Counter
							var wg vsched.WaitGroup
							for i := 0; i < 2; i++ {
								wg.Add(1)
								vsched.Go1(func(i int) { mu.Lock(); v := c.Read(); c.Add(v*2 + i + 1 - v); mu.Unlock(); wg.Done() }, i)
							}
							early := c.Read()
							wg.Wait()
							return fmt.Sprint(early, c.Read())
						}},
						{"close vs send race observed by the receiver", func() string {
							ch := vsched.MakeChan[int](2)
							vsched.Go0(func() { ch.Send(7) })
							vsched.Go0(func() { vsched.Yield(); ch.Send(8) })
							a, ok1 := ch.Recv2()
							b, ok2 := ch.Recv2()
							return fmt.Sprint(a, ok1, b, ok2)
						}},
					}
					for _, p := range progs {
						d := explore.DPOR(p.body, explore.Options{DataBudget: -1, MaxExecs: 200000})
						n := explore.Naive(p.body, explore.Options{MaxExecs: 2000000})
						if f := explore.DPOR(p.body, explore.Options{DataBudget: -1, MaxExecs: 200000, FullRace: true}); outcomeSet(f) != outcomeSet(d) || f.Execs != d.Execs {
							fail(r, fmt.Sprintf("incremental and textbook race detection differ on %q: %d vs %d executions\n incr: %s\n full: %s", p.name, d.Execs, f.Execs, outcomeSet(d), outcomeSet(f)))
						}
						r.Evals += int64(d.Execs + n.Execs)
						if !d.Exhaustive || !n.Exhaustive {
							fail(r, "self-test program did not finish: "+p.name)
						}
						if outcomeSet(d) != outcomeSet(n) {
							fail(r, fmt.Sprintf("DPOR and reduction-free search disagree on %q:\n dpor : %s\n naive: %s", p.name, outcomeSet(d), outcomeSet(n)))
						}
						if d.Execs > n.Execs {
							fail(r, fmt.Sprintf("DPOR explored more executions (%d) than the reduction-free search (%d) on %q", d.Execs, n.Execs, p.name))
						}
					}
				}},
				{Name: "DPOR vs reduction-free search on all 1024 generated programs", Run: func(ctx *core.Ctx, r *core.Result) {
					if !vsched.Instrumented {
						return
					}
					// programs: goroutines G1, G2 run two operations each, the root runs one operation and then
					// observes everything; operations: R = read the counter into a local, A = add (local+1) to the
					// counter, S = send the local on a buffered(2) channel, V = receive into the local.
					type env struct {
						c  vsched.Counter
						ch *vsched.Chan[int]
					}
					do := func(e *env, op int, loc *int) {
						switch op {
						case 0:
							*loc = e.c.Read()
						case 1:
							e.c.Add(*loc + 1)
						case 2:
							e.ch.Send(*loc)
						case 3:
							*loc = e.ch.Recv() + 10
						}
					}
					mism := 0
					for code := 0; code < 1024 && mism < 3; code++ {
						if dbg := os.Getenv("VERIF_DEBUG_PROG"); dbg != "" && dbg != fmt.Sprint(code) {
							continue
						}
						ops := [5]int{code & 3, (code >> 2) & 3, (code >> 4) & 3, (code >> 6) & 3, (code >> 8) & 3}
						body := func() string {
							e := &env{ch: vsched.MakeChan[int](2)}
							var wg vsched.WaitGroup
							locs := [3]int{1, 2, 3}
							for g := 0; g < 2; g++ {
								wg.Add(1)
								vsched.Go1(func(g int) {
									do(e, ops[2*g], &locs[g])
									do(e, ops[2*g+1], &locs[g])
									wg.Done()
								}, g)
							}
							do(e, ops[4], &locs[2])
							wg.Wait()
							return fmt.Sprint(locs, e.c.Read(), e.ch.Len())
						}
						d := explore.DPOR(body, explore.Options{DataBudget: -1, MaxExecs: 100000, FullRace: os.Getenv("VERIF_FULLRACE") != "", Debug: os.Getenv("VERIF_DEBUG_PROG") != ""})
						n := explore.Naive(body, explore.Options{MaxExecs: 1000000})
						r.Evals += int64(d.Execs + n.Execs)
						if !d.Exhaustive || !n.Exhaustive {
							fail(r, fmt.Sprintf("generated program %v did not finish", ops))
							mism++
							continue
						}
						if outcomeSet(d) != outcomeSet(n) {
							fail(r, fmt.Sprintf("DPOR and reduction-free search disagree on generated program %v:\n dpor : %s\n naive: %s", ops, outcomeSet(d), outcomeSet(n)))
							mism++
						}
					}
				}},
				{Name: "shim vs native primitives", Run: func(ctx *core.Ctx, r *core.Result) {
					// pass-through mode: behaviour of the shim channel/WaitGroup equals the native one on a few programs
					ch := vsched.MakeChan[int](2)
					ch.Send(1)
					ch.Send(2)
					if ch.Len() != 2 || ch.Cap() != 2 || ch.Recv() != 1 {
						fail(r, "pass-through channel misbehaves")
					}
					ch.Close()
					if v, ok := ch.Recv2(); v != 2 || !ok {
						fail(r, "pass-through closed channel drains wrongly")
					}
					if _, ok := ch.Recv2(); ok {
						fail(r, "pass-through closed channel reports ok")
					}
					if vsched.Instrumented {
						// controlled mode: same program, same answers
						x := explore.RunOnce(func() string {
							c := vsched.MakeChan[int](2)
							c.Send(1)
							c.Send(2)
							a := c.Recv()
							c.Close()
							b, ok1 := c.Recv2()
							_, ok2 := c.Recv2()
							return fmt.Sprint(a, b, ok1, ok2)
						}, nil)
						if x.Obs != "1 2 true false" {
							fail(r, "controlled channel semantics: "+x.Outcome())
						}
						y := explore.RunOnce(func() string {
							c := vsched.MakeChan[int](0)
							c.Close()
							c.Send(1)
							return "no panic"
						}, nil)
						if !strings.Contains(y.Outcome(), "send on closed channel") {
							fail(r, "send on closed channel does not panic: "+y.Outcome())
						}
					}
					r.Evals += 3
				}},
			}
			for p := 0; p < 16; p++ {
				us = append(us, selftestFamily2(p, 16))
			}
			return us
		},
	})
}
