package checks

import (
	"fmt"
	"math/big"

	"github.com/crate-crypto/go-ipa/bandersnatch"
	"github.com/crate-crypto/go-ipa/bandersnatch/fr"
	"github.com/crate-crypto/go-ipa/banderwagon"
	"verif.local/engine/core"
	"verif.local/engine/ref"
)

// C08 — group operations implement the prime-order Banderwagon group law.

type c08el struct {
	name string
	pt   ref.Pt // normalised reference point
}

func c08Elements(seed int64) []c08el {
	srs := ref.SRS()
	g := ref.Gen()
	norm := func(p ref.Pt) ref.Pt { x, y := ref.Affine(p); return ref.Pt{X: x, Y: y, Z: bi(1)} }
	els := []c08el{
		{"identity", ref.Identity()},
		{"G", g},
		{"-G", norm(ref.Neg(g))},
		{"2G", norm(ref.Add(g, g))},
		{"3G", norm(ref.Add(ref.Add(g, g), g))},
		{"G_0", norm(srs[0])},
		{"G_255", norm(srs[255])},
		{"k1*G", norm(ref.Mul(g, prfR(seed, "c08", 1)))},
		{"k2*G_7", norm(ref.Mul(srs[7], prfR(seed, "c08", 2)))},
	}
	return els
}

// validSame: the implementation element is a valid curve point of the same class as want.
func validSame(e *banderwagon.Element, want ref.Pt) string {
	p := elToRef(e)
	if p.Z.Sign() == 0 {
		return "Z = 0: " + elString(e)
	}
	if !ref.OnCurve(p) {
		return "not on the curve: " + elString(e)
	}
	if !ref.SameClass(p, want) {
		x, y := ref.Affine(p)
		return fmt.Sprintf("different group element: affine (%s, %s)", x.Text(16), y.Text(16))
	}
	return ""
}

func affStr(p ref.Pt) string {
	x, y := ref.Affine(p)
	return fmt.Sprintf("class of (%s, %s)", x.Text(16), y.Text(16))
}

func init() {
	core.Register(&core.Check{
		ID: "C08", Level: "exploration",
		Rule:   "elements E = {identity, G, -G, 2G, 3G, G_0, G_255, two PRF multiples} x 4 representations (Z=1, rescaled, (-x,-y), both; the flipped identity is (0,-1)); ALL pairs through Add/Sub/AddMixed with all aliasing patterns (fresh receiver, receiver=op1, =op2, =both), all elements through Double/Neg/Set/Normalize; ScalarMul for every (element, representation) x every scalar of S_edge (0,1,2,r-1,r-2,(r+-1)/2, every 2^k and 2^k+-1, GLV eigenvalue neighbours, PRF); laws (s+t)P=sP+tP, s(P+Q)=sP+sQ, 0*P, (r-1)P+P over S_small^2 x E; a case = (operation, operands, representations, aliasing); non-trivial = an operand not in normalised canonical form, an aliased receiver, or a scalar from the edge alphabet",
		Assume: []string{"oracle: independent affine/projective twisted-Edwards law over math/big, compared up to the class {P, P+(0,-1)}; every result must also be a valid curve point with Z != 0"},
		Units:  c08Units,
	})
}

func c08Units(ctx *core.Ctx) []core.Unit {
	var us []core.Unit
	us = append(us, core.Unit{Name: "Add/Sub/AddMixed all pairs x representations x aliasing", Run: func(ctx *core.Ctx, r *core.Result) {
		needRef()
		els := c08Elements(ctx.Seed)
		{
			// history: results of empty/small MSMs are accumulated into in place (ordinary caller behaviour)
			// before the laws are checked; SetIdentity and "+ identity" must be unaffected
			var acc banderwagon.Element
			if out, err := acc.MultiExp(nil, nil, banderwagon.MultiExpConfig{NbTasks: 1, ScalarsMont: true}); err == nil && out != nil {
				out.Add(out, &banderwagon.Generator)
				out.Double(out)
			}
			var idn banderwagon.Element
			idn.SetIdentity().Add(&idn, &banderwagon.Generator)
		}
		for _, a := range els {
			for ra := 0; ra < nRepr; ra++ {
				ea := reprOf(elFromRef(a.pt), ra)
				for _, b := range els {
					sum := ref.Add(a.pt, b.pt)
					diff := ref.Sub(a.pt, b.pt)
					for rb := 0; rb < nRepr; rb++ {
						eb := reprOf(elFromRef(b.pt), rb)
						in := fmt.Sprintf("P=%s[%s] Q=%s[%s]", a.name, reprNames[ra], b.name, reprNames[rb])
						r.Evals += 8
						if ra != 0 || rb != 0 {
							r.Nontrivial += 8
						} else {
							r.Nontrivial += 6
						}
						chk := func(api string, got *banderwagon.Element, want ref.Pt) {
							if msg := validSame(got, want); msg != "" {
								vio(r, "c08.law", api, in, affStr(want), msg)
							}
						}
						// fresh receiver
						x, y := ea, eb
						z := dirtyEl()
						z.Add(&x, &y)
						chk("banderwagon.Element.Add", &z, sum)
						if x != ea || y != eb {
							vio(r, "c08.operand_intact", "banderwagon.Element.Add", in, "operands unchanged", "modified")
						}
						z2 := dirtyEl()
						z2.Sub(&x, &y)
						chk("banderwagon.Element.Sub", &z2, diff)
						if x != ea || y != eb {
							vio(r, "c08.operand_intact", "banderwagon.Element.Sub", in, "operands unchanged", "modified")
						}
						// operand variables with a history: they held another value (normalised by the API, computed
						// projectively, decoded) before the operand was assigned to them with Set
						for k := 0; k < 3; k++ {
							hx, hy := withHistory(ea, k), withHistory(eb, (k+1)%3)
							zh := dirtyEl()
							zh.Add(&hx, &hy)
							chk(fmt.Sprintf("banderwagon.Element.Add (operand variables with history %d)", k), &zh, sum)
							zh = dirtyEl()
							zh.Sub(&hx, &hy)
							chk(fmt.Sprintf("banderwagon.Element.Sub (operand variables with history %d)", k), &zh, diff)
							if !hx.Equal(&ea) || !hy.Equal(&eb) || hx.Bytes() != ea.Bytes() {
								vio(r, "c08.law", "banderwagon.Element.Set / Equal / Bytes", in, "a variable assigned with Set is Equal to (and encoded like) the source", fmt.Sprintf("history %d: not equal", k))
							}
						}
						// receiver = op1
						x, y = ea, eb
						x.Add(&x, &y)
						chk("banderwagon.Element.Add(z=p1)", &x, sum)
						x, y = ea, eb
						x.Sub(&x, &y)
						chk("banderwagon.Element.Sub(z=p1)", &x, diff)
						// receiver = op2
						x, y = ea, eb
						y.Add(&x, &y)
						chk("banderwagon.Element.Add(z=p2)", &y, sum)
						x, y = ea, eb
						y.Sub(&x, &y)
						chk("banderwagon.Element.Sub(z=p2)", &y, diff)
						// AddMixed with the second operand in affine form
						bx, by := ref.Affine(elToRef(&eb))
						aff := bandersnatch.PointAffine{X: fpFromBig(bx), Y: fpFromBig(by)}
						x = ea
						z3 := dirtyEl()
						z3.AddMixed(&x, aff)
						chk("banderwagon.Element.AddMixed", &z3, sum)
						x.AddMixed(&x, aff)
						chk("banderwagon.Element.AddMixed(z=p1)", &x, sum)
					}
				}
				// unary, and both-operands-aliased
				in := fmt.Sprintf("P=%s[%s]", a.name, reprNames[ra])
				dbl := ref.Add(a.pt, a.pt)
				r.Evals += 8
				r.Nontrivial += 8
				chk := func(api string, got *banderwagon.Element, want ref.Pt) {
					if msg := validSame(got, want); msg != "" {
						vio(r, "c08.law", api, in, affStr(want), msg)
					}
				}
				x := ea
				z := dirtyEl()
				z.Double(&x)
				chk("banderwagon.Element.Double", &z, dbl)
				x.Double(&x)
				chk("banderwagon.Element.Double(z=p1)", &x, dbl)
				x = ea
				x.Add(&x, &x)
				chk("banderwagon.Element.Add(z=p1=p2)", &x, dbl)
				x = ea
				x.Sub(&x, &x)
				chk("banderwagon.Element.Sub(z=p1=p2)", &x, ref.Identity())
				x = ea
				z.Neg(&x)
				chk("banderwagon.Element.Neg", &z, ref.Neg(a.pt))
				x.Neg(&x)
				chk("banderwagon.Element.Neg(z=p1)", &x, ref.Neg(a.pt))
				x = ea
				z.Set(&x)
				if z != ea {
					vio(r, "c08.law", "banderwagon.Element.Set", in, "identical copy", elString(&z))
				}
				z.SetIdentity()
				chk("banderwagon.Element.SetIdentity", &z, ref.Identity())
				x = ea
				var id banderwagon.Element
				id.SetIdentity()
				z.Add(&x, &id)
				chk("banderwagon.Element.Add(P, identity)", &z, a.pt)
				x = ea
				if err := x.Normalize(); err != nil {
					vio(r, "c08.law", "banderwagon.Element.Normalize", in, "no error", err.Error())
				} else if elToRef(&x).Z.Cmp(bi(1)) != 0 {
					vio(r, "c08.law", "banderwagon.Element.Normalize", in, "Z = 1", elString(&x))
				} else {
					chk("banderwagon.Element.Normalize", &x, a.pt)
				}
				if !ea.IsOnCurve() {
					vio(r, "c08.law", "banderwagon.Element.IsOnCurve", in, "true", "false")
				}
			}
		}
		r.Sample(map[string]interface{}{"pair": "P=2G[projflip] Q=G_255[proj]", "ops": "Add, Sub, AddMixed in 4 aliasing patterns"})
	}})
	// ScalarMul: sharded over the scalar alphabet
	const shards = 16
	for sh := 0; sh < shards; sh++ {
		sh := sh
		us = append(us, core.Unit{Name: fmt.Sprintf("ScalarMul E x REPR x S_edge shard %d/%d", sh, shards), Run: func(ctx *core.Ctx, r *core.Result) {
			needRef()
			els := c08Elements(ctx.Seed)
			ss := sEdge(ctx.Seed, true)
			r.Note("n_scalars", len(ss))
			for si := sh; si < len(ss); si += shards {
				s := ss[si]
				se := frFromBig(s)
				for _, a := range els {
					want := ref.Mul(a.pt, s)
					for ra := 0; ra < nRepr; ra++ {
						ea := reprOf(elFromRef(a.pt), ra)
						in := fmt.Sprintf("P=%s[%s] s=%s", a.name, reprNames[ra], s.Text(16))
						r.Evals += 2
						r.Nontrivial += 2
						x := ea
						sc := se
						z := dirtyEl()
						if guard(r, "c08.panic", "banderwagon.Element.ScalarMul", in, func() { z.ScalarMul(&x, &sc) }) {
							if msg := validSame(&z, want); msg != "" {
								vio(r, "c08.scalarmul", "banderwagon.Element.ScalarMul", in, affStr(want), msg)
							}
							if x != ea || sc != se {
								vio(r, "c08.operand_intact", "banderwagon.Element.ScalarMul", in, "operands unchanged", "modified")
							}
						}
						x = ea
						if guard(r, "c08.panic", "banderwagon.Element.ScalarMul(z=p1)", in, func() { x.ScalarMul(&x, &sc) }) {
							if msg := validSame(&x, want); msg != "" {
								vio(r, "c08.scalarmul", "banderwagon.Element.ScalarMul(z=p1)", in, affStr(want), msg)
							}
						}
					}
				}
			}
			if sh == 0 {
				r.Sample(map[string]interface{}{"element": "G_0[flip]", "scalar": ss[len(ss)/2].Text(16), "n_scalars": len(ss)})
			}
		}})
	}
	// algebraic laws on the implementation itself
	for sh := 0; sh < 8; sh++ {
		sh := sh
		us = append(us, core.Unit{Name: fmt.Sprintf("laws over S_small^2 x E shard %d/8", sh), Run: func(ctx *core.Ctx, r *core.Result) {
			needRef()
			els := c08Elements(ctx.Seed)
			all := sEdge(ctx.Seed, false)
			small := all
			if len(small) > 50 {
				small = small[:50]
			}
			if !ctx.Thorough() && len(small) > 24 {
				small = small[:24]
			}
			var id banderwagon.Element
			id.SetIdentity()
			n := 0
			for i, s := range small {
				for j, t := range small {
					n++
					if n%8 != sh {
						continue
					}
					se, te := frFromBig(s), frFromBig(t)
					var st fr.Element
					st.Add(&se, &te)
					for k, a := range els {
						ea := reprOf(elFromRef(a.pt), (i+j+k)%nRepr)
						eb := reprOf(elFromRef(els[(k+3)%len(els)].pt), (i+k)%nRepr)
						in := fmt.Sprintf("P=%s Q=%s s=%s t=%s", a.name, els[(k+3)%len(els)].name, s.Text(16), t.Text(16))
						r.Evals += 2
						r.Nontrivial += 2
						var l, r1, r2, rs banderwagon.Element
						l.ScalarMul(&ea, &st)
						r1.ScalarMul(&ea, &se)
						r2.ScalarMul(&ea, &te)
						rs.Add(&r1, &r2)
						if !l.Equal(&rs) || l.Bytes() != rs.Bytes() {
							vio(r, "c08.distrib", "banderwagon.Element.ScalarMul", in, "(s+t)P = sP + tP", fmt.Sprintf("%x vs %x", l.Bytes(), rs.Bytes()))
						}
						var pq, l2, q2, rs2 banderwagon.Element
						pq.Add(&ea, &eb)
						l2.ScalarMul(&pq, &se)
						q2.ScalarMul(&eb, &se)
						rs2.Add(&r1, &q2)
						if !l2.Equal(&rs2) || l2.Bytes() != rs2.Bytes() {
							vio(r, "c08.distrib", "banderwagon.Element.ScalarMul", in, "s(P+Q) = sP + sQ", fmt.Sprintf("%x vs %x", l2.Bytes(), rs2.Bytes()))
						}
					}
				}
			}
			if sh == 0 {
				rm1 := frFromBig(new(big.Int).Sub(bigR, bi(1)))
				zero := frFromBig(bi(0))
				for _, a := range els {
					for ra := 0; ra < nRepr; ra++ {
						ea := reprOf(elFromRef(a.pt), ra)
						in := fmt.Sprintf("P=%s[%s]", a.name, reprNames[ra])
						r.Evals += 2
						var z, w banderwagon.Element
						z.ScalarMul(&ea, &zero)
						if msg := validSame(&z, ref.Identity()); msg != "" {
							vio(r, "c08.scalarmul", "banderwagon.Element.ScalarMul", in+" s=0 (=r)", "identity", msg)
						}
						w.ScalarMul(&ea, &rm1)
						w.Add(&w, &ea)
						if msg := validSame(&w, ref.Identity()); msg != "" || !w.Equal(&id) {
							vio(r, "c08.scalarmul", "banderwagon.Element.ScalarMul", in+" (r-1)P + P", "identity", msg)
						}
					}
				}
			}
		}})
	}
	return us
}

// withHistory returns a variable that holds e (assigned with Set) after having held something else that the
// API itself produced: 0 = a value normalised by Normalize, 1 = a projective result of Double, 2 = a decoded
// element. Representation bookkeeping that an implementation attaches to a variable must follow the value.
func withHistory(e banderwagon.Element, kind int) banderwagon.Element {
	var q banderwagon.Element
	switch kind {
	case 0:
		q = reprOf(banderwagon.Generator, reprProj)
		q.Normalize()
	case 1:
		q = banderwagon.Generator
		q.Double(&q)
		q.Add(&q, &banderwagon.Generator)
	default:
		b := banderwagon.Generator.Bytes()
		q.SetBytes(b[:])
	}
	q.Set(&e)
	return q
}
