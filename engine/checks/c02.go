package checks

import (
	"fmt"
	"github.com/crate-crypto/go-ipa/zzverif/vsched"
	"math/big"

	multiproof "github.com/crate-crypto/go-ipa"
	"github.com/crate-crypto/go-ipa/bandersnatch/fr"
	"github.com/crate-crypto/go-ipa/banderwagon"
	"github.com/crate-crypto/go-ipa/common"
	"github.com/crate-crypto/go-ipa/ipa"
	"verif.local/engine/core"
	"verif.local/engine/ref"
)

// C02 — verifier soundness: accepts only what the reference verifier accepts.

// tuple is one verifier input (implementation objects; the reference sees exactly the same values).
type tuple struct {
	label string
	Cs    []banderwagon.Element
	ys    []fr.Element
	zs    []uint8
	D     banderwagon.Element
	L, R  []banderwagon.Element
	A     fr.Element
}

func (t tuple) clone() tuple {
	c := t
	c.Cs = append([]banderwagon.Element(nil), t.Cs...)
	c.ys = append([]fr.Element(nil), t.ys...)
	c.zs = append([]uint8(nil), t.zs...)
	c.L = append([]banderwagon.Element(nil), t.L...)
	c.R = append([]banderwagon.Element(nil), t.R...)
	return c
}

type pert struct {
	name     string
	t        tuple
	reprOnly bool // must not change the decision (accept)
	nonPoint bool // a proof/statement component is not a group element at all (the zero value of the type): never accepted
}

// decideImpl runs CheckMultiProof under recover.
func decideImpl(r *core.Result, c *ipa.IPAConfig, t tuple, desc string) (ok bool, err error, ran bool) {
	Cs := make([]*banderwagon.Element, len(t.Cs))
	for i := range t.Cs {
		e := t.Cs[i]
		Cs[i] = &e
	}
	ys := make([]*fr.Element, len(t.ys))
	for i := range t.ys {
		y := t.ys[i]
		ys[i] = &y
	}
	proof := &multiproof.MultiProof{D: t.D, IPA: ipa.IPAProof{L: append([]banderwagon.Element(nil), t.L...), R: append([]banderwagon.Element(nil), t.R...), A_scalar: t.A}}
	ran = guard(r, "c02.panic", "CheckMultiProof", desc, func() {
		ok, err = multiproof.CheckMultiProof(common.NewTranscript(t.label), c, proof, Cs, ys, append([]uint8(nil), t.zs...))
	})
	return
}

// decideImplShared is decideImpl with one *Element per distinct commitment value: openings of the same
// commitment share the pointer (the usual way a caller passes one commitment opened at several points).
func decideImplShared(r *core.Result, c *ipa.IPAConfig, t tuple, desc string) (ok bool, err error, ran bool) {
	Cs := make([]*banderwagon.Element, len(t.Cs))
	for i := range t.Cs {
		for j := 0; j < i; j++ {
			if t.Cs[j] == t.Cs[i] {
				Cs[i] = Cs[j]
				break
			}
		}
		if Cs[i] == nil {
			e := t.Cs[i]
			Cs[i] = &e
		}
	}
	ys := make([]*fr.Element, len(t.ys))
	for i := range t.ys {
		y := t.ys[i]
		ys[i] = &y
	}
	proof := &multiproof.MultiProof{D: t.D, IPA: ipa.IPAProof{L: append([]banderwagon.Element(nil), t.L...), R: append([]banderwagon.Element(nil), t.R...), A_scalar: t.A}}
	ran = guard(r, "c02.panic", "CheckMultiProof", desc, func() {
		ok, err = multiproof.CheckMultiProof(common.NewTranscript(t.label), c, proof, Cs, ys, append([]uint8(nil), t.zs...))
	})
	return
}

func decideRef(t tuple) (acc, shape bool) {
	Cs := make([]ref.Pt, len(t.Cs))
	for i := range t.Cs {
		Cs[i] = elToRef(&t.Cs[i])
	}
	ys := make([]*big.Int, len(t.ys))
	for i := range t.ys {
		ys[i] = frToBig(t.ys[i])
	}
	zs := make([]int, len(t.zs))
	for i := range t.zs {
		zs[i] = int(t.zs[i])
	}
	var pr ref.IPAProof
	for i := range t.L {
		pr.L = append(pr.L, elToRef(&t.L[i]))
	}
	for i := range t.R {
		pr.R = append(pr.R, elToRef(&t.R[i]))
	}
	pr.A = frToBig(t.A)
	d := t.D
	return ref.MultiVerify(ref.NewTranscript(t.label), ref.SRS(), elToRef(&d), pr, Cs, ys, zs)
}

// honestTuple: the prover's proof for s as a value tuple. ok=false when the base cannot be used: the prover
// failed or both verifiers reject its proof (a C01/C03 matter — noted, the unit is then not exhaustive); if the
// implementation's verdict on the prover's proof differs from the reference verifier's, that is a C02
// violation in itself.
func honestTuple(r *core.Result, c *ipa.IPAConfig, s stmt) (tuple, bool) {
	var proof *multiproof.MultiProof
	var is implStmt
	var ok bool
	var perr, verr error
	if !timed(r, "c02.panic", "CreateMultiProof / CheckMultiProof", "honest statement "+s.String(), func() { proof, is, ok, perr, verr, _ = proveVerify(c, s) }) {
		return tuple{}, false
	}
	if perr != nil || proof == nil {
		r.Note("base_unusable", fmt.Sprintf("%s: the prover returned %v (a C01 matter)", s.String(), perr))
		r.Exhaustive = false
		return tuple{}, false
	}
	t := tuple{label: s.label, D: proof.D, L: proof.IPA.L, R: proof.IPA.R, A: proof.IPA.A_scalar, zs: is.zs}
	for i := range is.Cs {
		t.Cs = append(t.Cs, *is.Cs[i])
		t.ys = append(t.ys, *is.ys[i])
	}
	t = t.clone()
	acc, _ := decideRef(t)
	implAcc := ok && verr == nil
	r.Evals++
	if implAcc != acc {
		vio(r, "c02.agree", "CheckMultiProof", "the prover's own proof for "+s.String(), fmt.Sprintf("the reference verifier's decision: accept=%v", acc), fmt.Sprintf("accept=%v err=%v", ok, verr))
		return t, false
	}
	if !acc {
		r.Note("base_unusable", fmt.Sprintf("%s: the prover's proof is rejected by both verifiers (a C01/C03 matter)", s.String()))
		r.Exhaustive = false
		return t, false
	}
	return t, true
}

func sameEl(a, b *banderwagon.Element) bool { return ref.SameClass(elToRef(a), elToRef(b)) }

// sameTuple: the two tuples are the same statement and proof as values (group elements up to class).
func sameTuple(a, b tuple) bool {
	if a.label != b.label || len(a.Cs) != len(b.Cs) || len(a.ys) != len(b.ys) || len(a.zs) != len(b.zs) || len(a.L) != len(b.L) || len(a.R) != len(b.R) {
		return false
	}
	for i := range a.Cs {
		if !sameEl(&a.Cs[i], &b.Cs[i]) {
			return false
		}
	}
	for i := range a.ys {
		if !a.ys[i].Equal(&b.ys[i]) {
			return false
		}
	}
	for i := range a.zs {
		if a.zs[i] != b.zs[i] {
			return false
		}
	}
	for i := range a.L {
		if !sameEl(&a.L[i], &b.L[i]) {
			return false
		}
	}
	for i := range a.R {
		if !sameEl(&a.R[i], &b.R[i]) {
			return false
		}
	}
	return sameEl(&a.D, &b.D) && a.A.Equal(&b.A)
}

func perturbations(base tuple, other tuple, salt int, all bool) []pert {
	var ps []pert
	g := banderwagon.Generator
	var id banderwagon.Element
	id.SetIdentity()
	add := func(name string, f func(t *tuple), reprOnly bool) {
		t := base.clone()
		f(&t)
		if !reprOnly && sameTuple(t, base) {
			// not a change of value on this base (e.g. -identity, a:=0 when a is already 0): must stay accepted
			name += " (no change of value on this base)"
			reprOnly = true
		}
		ps = append(ps, pert{name: name, t: t, reprOnly: reprOnly})
	}
	elPerts := func(what string, get func(t *tuple) *banderwagon.Element, full bool) {
		{
			t := base.clone()
			*get(&t) = banderwagon.Element{}
			ps = append(ps, pert{name: what + ":=Element{} (not a point)", t: t, nonPoint: true})
		}
		add(what+"+G", func(t *tuple) { e := get(t); e.Add(e, &g) }, false)
		if full {
			add("-"+what, func(t *tuple) { e := get(t); e.Neg(e) }, false)
			add(what+":=identity", func(t *tuple) { *get(t) = id }, false)
			add("2*"+what, func(t *tuple) { e := get(t); e.Double(e) }, false)
		}
	}
	n := len(base.Cs)
	for i := 0; i < n; i++ {
		i := i
		elPerts(fmt.Sprintf("C_%d", i), func(t *tuple) *banderwagon.Element { return &t.Cs[i] }, true)
		for j := 0; j < n; j++ {
			j := j
			if j != i && !sameEl(&base.Cs[i], &base.Cs[j]) {
				add(fmt.Sprintf("C_%d:=C_%d", i, j), func(t *tuple) { t.Cs[i] = t.Cs[j] }, false)
			}
		}
		for _, nz := range []int{(int(base.zs[i]) + 1) % 256, (int(base.zs[i]) + 255) % 256, 0, 255} {
			nz := nz
			if nz != int(base.zs[i]) {
				add(fmt.Sprintf("z_%d:=%d", i, nz), func(t *tuple) { t.zs[i] = uint8(nz) }, false)
			}
		}
		one := fr.One()
		add(fmt.Sprintf("y_%d+1", i), func(t *tuple) { t.ys[i].Add(&t.ys[i], &one) }, false)
		if !base.ys[i].IsZero() {
			add(fmt.Sprintf("y_%d:=0", i), func(t *tuple) { t.ys[i].SetZero() }, false)
			add(fmt.Sprintf("-y_%d", i), func(t *tuple) { t.ys[i].Neg(&t.ys[i]) }, false)
		}
		for j := 0; j < n; j++ {
			j := j
			if j != i && !base.ys[i].Equal(&base.ys[j]) {
				add(fmt.Sprintf("y_%d:=y_%d", i, j), func(t *tuple) { t.ys[i] = t.ys[j] }, false)
			}
		}
		for k := 1; k < nRepr; k++ {
			k := k
			add(fmt.Sprintf("C_%d re-represented as %s", i, reprNames[k]), func(t *tuple) { t.Cs[i] = reprOf(t.Cs[i], k) }, true)
		}
	}
	elPerts("D", func(t *tuple) *banderwagon.Element { return &t.D }, true)
	for k := 1; k < nRepr; k++ {
		k := k
		add("D re-represented as "+reprNames[k], func(t *tuple) { t.D = reprOf(t.D, k) }, true)
	}
	for j := 0; j < 8; j++ {
		j := j
		full := all || j == salt%8 || j == 7-salt%8
		elPerts(fmt.Sprintf("L_%d", j), func(t *tuple) *banderwagon.Element { return &t.L[j] }, full)
		elPerts(fmt.Sprintf("R_%d", j), func(t *tuple) *banderwagon.Element { return &t.R[j] }, full)
		if full {
			add(fmt.Sprintf("swap L_%d,R_%d", j, j), func(t *tuple) { t.L[j], t.R[j] = t.R[j], t.L[j] }, false)
			for k := 1; k < nRepr; k++ {
				k := k
				add(fmt.Sprintf("L_%d re-represented as %s", j, reprNames[k]), func(t *tuple) { t.L[j] = reprOf(t.L[j], k) }, true)
				add(fmt.Sprintf("R_%d re-represented as %s", j, reprNames[(k+1)%nRepr]), func(t *tuple) { t.R[j] = reprOf(t.R[j], (k+1)%nRepr) }, true)
			}
		}
		if j < 7 {
			add(fmt.Sprintf("swap L_%d,L_%d", j, j+1), func(t *tuple) { t.L[j], t.L[j+1] = t.L[j+1], t.L[j] }, false)
		}
	}
	one := fr.One()
	add("a+1", func(t *tuple) { t.A.Add(&t.A, &one) }, false)
	add("a:=0", func(t *tuple) { t.A.SetZero() }, false)
	add("-a", func(t *tuple) { t.A.Neg(&t.A) }, false)
	// order and number of openings
	differs := func(i, j int) bool {
		return !(sameEl(&base.Cs[i], &base.Cs[j]) && base.zs[i] == base.zs[j] && base.ys[i].Equal(&base.ys[j]))
	}
	for i := 0; i < n; i++ {
		for j := i + 1; j < n; j++ {
			i, j := i, j
			if differs(i, j) {
				add(fmt.Sprintf("transpose openings %d,%d", i, j), func(t *tuple) {
					t.Cs[i], t.Cs[j] = t.Cs[j], t.Cs[i]
					t.ys[i], t.ys[j] = t.ys[j], t.ys[i]
					t.zs[i], t.zs[j] = t.zs[j], t.zs[i]
				}, false)
			}
		}
	}
	if n == 3 && (differs(0, 1) || differs(1, 2)) {
		add("rotate openings", func(t *tuple) {
			t.Cs = append(t.Cs[1:], t.Cs[0])
			t.ys = append(t.ys[1:], t.ys[0])
			t.zs = append(t.zs[1:], t.zs[0])
		}, false)
	}
	if n > 1 {
		add("drop last opening", func(t *tuple) { t.Cs, t.ys, t.zs = t.Cs[:n-1], t.ys[:n-1], t.zs[:n-1] }, false)
	}
	add("duplicate last opening", func(t *tuple) {
		t.Cs, t.ys, t.zs = append(t.Cs, t.Cs[n-1]), append(t.ys, t.ys[n-1]), append(t.zs, t.zs[n-1])
	}, false)
	add("label:=\"\"", func(t *tuple) { t.label = "" }, false)
	add("label+x", func(t *tuple) { t.label += "x" }, false)
	// splices with another honest proof
	add("D of another proof", func(t *tuple) { t.D = other.D }, false)
	add("IPA of another proof", func(t *tuple) { t.L, t.R, t.A = other.L, other.R, other.A }, false)
	add("L vector of another proof", func(t *tuple) { t.L = other.L }, false)
	add("R vector of another proof, a of another proof", func(t *tuple) { t.R, t.A = other.R, other.A }, false)
	add("L and R vectors exchanged", func(t *tuple) { t.L, t.R = t.R, t.L }, false)
	// arbitrary valid elements / scalars
	add("D:=G_5", func(t *tuple) { t.D = conf().SRS[5] }, false)
	add("a:=r-1", func(t *tuple) { t.A = frFromBig(new(big.Int).Sub(bigR, bi(1))) }, false)
	add("all L_j:=G", func(t *tuple) {
		for j := range t.L {
			t.L[j] = g
		}
	}, false)
	return ps
}

func c02Bases(seed int64, thorough bool) []stmt {
	polys := polyAlphabet(seed)
	p := func(i int) namedPoly { return pick(polys, i) }
	bases := []stmt{
		{label: "vt", zs: []int{0}, polys: []namedPoly{p(10)}},
		{label: "vt", zs: []int{200, 200}, polys: []namedPoly{p(12), p(8)}},
		{label: "vt", zs: []int{5, 255, 5}, polys: []namedPoly{p(13), p(10), p(11)}},
		{label: "", zs: []int{1, 128}, polys: []namedPoly{p(2), p(9)}},
		{label: "multiproof", zs: []int{254, 0, 127}, polys: []namedPoly{p(12), p(12), p(5)}},
		{label: "vt", zs: []int{77}, polys: []namedPoly{p(0)}},
		{label: "vt", zs: []int{3, 3, 3}, polys: []namedPoly{p(10), p(13), p(12)}},
		{label: "vt", zs: []int{255, 0}, polys: []namedPoly{p(11), p(1)}},
	}
	if thorough {
		for i := 0; i < 24; i++ {
			n := i%3 + 1
			s := stmt{label: []string{"vt", "", "x"}[i%3]}
			for k := 0; k < n; k++ {
				s.zs = append(s.zs, z7[(i*3+k*5)%7])
				s.polys = append(s.polys, p(i+k*3))
			}
			bases = append(bases, s)
		}
	}
	return bases
}

func init() {
	core.Register(&core.Check{
		ID: "C02", Level: "exploration",
		Rule:   "for each honest base proof (n in 1..3 openings over mixed indices; 8 bases quick, 32 thorough): EVERY single-component perturbation of a fixed menu — C_i in {+G,-,identity,C_j,2x}, z_i in {+-1,0,255}, y_i in {+1,0,-,y_j}, D, every L_j/R_j (+G everywhere; -,identity,2x,swap on selected rounds, all rounds thorough), a in {+1,0,-}, every transposition/rotation, drop/duplicate an opening, label changes, splices with a second honest proof, arbitrary valid elements — plus representation-only changes of every group element, all shape errors (len Cs,ys,zs in {0,1,2}^3; len L,R in {0,7,8,9}^2), the same menu on ipa.CheckIPAProof, proofs forged through the prover API with polynomials that do not match the commitments, a 1025-opening statement with late/compensating false claims, and the challenge powers themselves; the implementation's decision is compared with the reference verifier's on exactly the same tuple; non-trivial = every perturbed or re-represented tuple",
		Assume: []string{"agreement with the specification's verification equation is checked, not cryptographic soundness", "tuples contain valid group elements only (the all-zero pseudo-point is exercised in C07)", "the reference verifier is bound to the pinned IPA/multiproof vectors"},
		Units:  c02Units,
	})
}

func c02Units(ctx *core.Ctx) []core.Unit {
	var us []core.Unit
	bases := c02Bases(ctx.Seed, ctx.Thorough())
	const parts = 3
	for bi_, s := range bases {
		for part := 0; part < parts; part++ {
			bi_, s, part := bi_, s, part
			us = append(us, core.Unit{Name: fmt.Sprintf("base %d (%s) perturbations part %d/%d", bi_, s, part, parts), Run: func(ctx *core.Ctx, r *core.Result) {
				needRef()
				c := conf()
				base, ok1 := honestTuple(r, c, s)
				other, ok2 := honestTuple(r, c, bases[(bi_+1)%len(bases)])
				if !ok1 || !ok2 {
					return
				}
				ps := perturbations(base, other, bi_, ctx.Thorough())
				// a statement about the zero polynomial has the all-identity proof for every index, so changed
				// statements can be true and provable by the same proof: only agreement with the reference is demanded
				degenerate := false
				for _, p := range s.polys {
					if p.Name == "zero" {
						degenerate = true
					}
				}
				if part == 0 {
					ps = append([]pert{{name: "honest (unperturbed)", t: base, reprOnly: true}}, ps...)
				}
				for pi, p := range ps {
					if pi%parts != part {
						continue
					}
					desc := s.String() + " :: " + p.name
					ok, err, ran := decideImpl(r, c, p.t, desc)
					if !ran {
						continue
					}
					if p.nonPoint {
						r.Evals++
						r.Nontrivial++
						if ok {
							vio(r, "c02.reject", "CheckMultiProof", desc, "never accepted: a component of the tuple is not a group element", fmt.Sprintf("accepted=%v err=%v", ok, err))
						}
						continue
					}
					acc, shape := decideRef(p.t)
					r.Evals++
					r.Nontrivial++
					switch {
					case ok != acc:
						vio(r, "c02.agree", "CheckMultiProof", desc, fmt.Sprintf("reference verifier: accepted=%v", acc), fmt.Sprintf("accepted=%v err=%v", ok, err))
					case (err != nil) != shape:
						vio(r, "c02.shape", "CheckMultiProof", desc, fmt.Sprintf("shape error=%v", shape), fmt.Sprintf("err=%v", err))
					case p.reprOnly && !ok:
						vio(r, "c02.repr", "CheckMultiProof", desc, "a representation-only change keeps the proof accepted", fmt.Sprintf("accepted=%v err=%v", ok, err))
					case !p.reprOnly && ok && !degenerate:
						vio(r, "c02.reject", "CheckMultiProof", desc, "a changed statement/proof is rejected", "accepted (by the reference too)")
					}
					if pi == 5 {
						r.Sample(map[string]interface{}{"base": s.String(), "perturbation": p.name, "impl": ok, "reference": acc})
					}
				}
			}})
		}
	}
	us = append(us, core.Unit{Name: "proofs produced by the prover API for inconsistent inputs (commitments of f, polynomials f')", Run: func(ctx *core.Ctx, r *core.Result) {
		needRef()
		c := conf()
		polys := polyAlphabet(ctx.Seed)
		type forge struct {
			name string
			zs   []int
			real []namedPoly // committed polynomials
			used []namedPoly // polynomials the prover computes with
		}
		zero, ramp, prf0, prf1, e5 := polys[0], polys[10], polys[12], polys[13], namedPoly{"e5", unitVec(5)}
		rampAt7 := namedPoly{"ramp with f[7]:=0", append([]*big.Int(nil), ramp.V...)}
		rampAt7.V[7] = bi(0)
		cases := []forge{
			{"claim y=0 at an otherwise unused index by proving with the zero polynomial", []int{7, 200}, []namedPoly{prf0, prf1}, []namedPoly{zero, prf1}},
			{"claim y=0 at an otherwise unused index by zeroing one evaluation", []int{7, 200}, []namedPoly{ramp, prf1}, []namedPoly{rampAt7, prf1}},
			{"claim y=0 on a single opening", []int{7}, []namedPoly{prf0}, []namedPoly{zero}},
			{"another polynomial altogether", []int{3, 3}, []namedPoly{prf0, ramp}, []namedPoly{prf1, ramp}},
			{"true zero evaluation at an unused index (honest)", []int{7, 200}, []namedPoly{e5, prf1}, []namedPoly{e5, prf1}},
			{"true zero evaluations at two unused indices (honest)", []int{7, 9, 200}, []namedPoly{e5, e5, prf1}, []namedPoly{e5, e5, prf1}},
			{"zero polynomial among others (honest)", []int{7, 200, 7}, []namedPoly{zero, prf1, zero}, []namedPoly{zero, prf1, zero}},
		}
		for _, fc := range cases {
			sReal := stmt{label: "vt", zs: fc.zs, polys: fc.real}
			isReal := sReal.build(c)
			fsUsed := make([][]fr.Element, len(fc.used))
			for i := range fc.used {
				fsUsed[i] = frsFromBig(fc.used[i].V)
			}
			desc := "forged via CreateMultiProof(Cs of f, polynomials f'): " + fc.name
			var proof *multiproof.MultiProof
			var perr error
			if !guard(r, "c02.panic", "CreateMultiProof", desc, func() {
				proof, perr = multiproof.CreateMultiProof(common.NewTranscript("vt"), c, isReal.Cs, fsUsed, isReal.zs)
			}) || perr != nil {
				continue
			}
			t := tuple{label: "vt", D: proof.D, L: proof.IPA.L, R: proof.IPA.R, A: proof.IPA.A_scalar, zs: isReal.zs}
			for i := range isReal.Cs {
				t.Cs = append(t.Cs, *isReal.Cs[i])
				t.ys = append(t.ys, fsUsed[i][fc.zs[i]]) // the value the forged proof claims
			}
			ok, err, ran := decideImpl(r, c, t, desc)
			if !ran {
				continue
			}
			acc, shape := decideRef(t)
			r.Evals++
			r.Nontrivial++
			if ok != acc || (err != nil) != shape {
				vio(r, "c02.agree", "CheckMultiProof", desc, fmt.Sprintf("reference verifier: accepted=%v", acc), fmt.Sprintf("accepted=%v err=%v", ok, err))
			}
			honest := true
			for i := range fc.real {
				if fc.real[i].Name != fc.used[i].Name {
					honest = false
				}
			}
			if ok != honest && acc == ok {
				vio(r, "c02.reject", "CheckMultiProof", desc, fmt.Sprintf("accepted=%v", honest), fmt.Sprintf("accepted=%v (reference agrees)", ok))
			}
		}
		r.Sample(map[string]interface{}{"case": cases[0].name, "expected": "rejected by the implementation and by the reference verifier"})
	}})
	us = append(us, core.Unit{Name: "many openings (n = 1025: more than 1024 powers of r) and the powers themselves", Run: func(ctx *core.Ctx, r *core.Result) {
		needRef()
		c := conf()
		// the challenge powers, directly
		x := prfR(ctx.Seed, "c02pow", 0)
		xe := frFromBig(x)
		for _, n := range []int{1, 2, 3, 31, 32, 33, 255, 256, 257, 1023, 1024, 1025, 1026, 2047, 2048, 2049, 4097} {
			var pw []fr.Element
			in := fmt.Sprintf("PowersOf(x, %d)", n)
			if !guard(r, "c02.panic", "common.PowersOf", in, func() { pw = common.PowersOf(xe, n) }) {
				continue
			}
			r.Evals++
			r.Nontrivial++
			if len(pw) != n {
				vio(r, "c02.powers", "common.PowersOf", in, fmt.Sprintf("%d powers", n), fmt.Sprint(len(pw)))
				continue
			}
			p := bi(1)
			for i := 0; i < n; i++ {
				if frToBig(pw[i]).Cmp(p) != 0 {
					vio(r, "c02.powers", "common.PowersOf", in, fmt.Sprintf("result[%d] = x^%d", i, i), frToBig(pw[i]).Text(16))
					break
				}
				p = ref.MulR(p, x)
			}
		}
		// a statement with more openings than any internal chunk size; honest and with one wrong claim late in the list
		polys := polyAlphabet(ctx.Seed)
		n := 1025
		s := stmt{label: "vt"}
		for i := 0; i < n; i++ {
			s.zs = append(s.zs, (i*7)%256)
			s.polys = append(s.polys, pick(polys, 8+i%6))
		}
		base, okb := honestTuple(r, c, s)
		if !okb {
			return
		}
		for _, mod := range []string{"honest", "y_1024+1", "y_1023+1 and y_1024 adjusted", "swap openings 1023,1024"} {
			t := base.clone()
			one := fr.One()
			switch mod {
			case "y_1024+1":
				t.ys[1024].Add(&t.ys[1024], &one)
			case "y_1023+1 and y_1024 adjusted":
				// a compensating pair of false claims that is accepted iff openings 1023 and 1024 get the same weight
				t.zs[1024] = t.zs[1023]
				t.ys[1023].Add(&t.ys[1023], &one)
				t.ys[1024].Sub(&t.ys[1024], &one)
			case "swap openings 1023,1024":
				t.Cs[1023], t.Cs[1024] = t.Cs[1024], t.Cs[1023]
				t.ys[1023], t.ys[1024] = t.ys[1024], t.ys[1023]
				t.zs[1023], t.zs[1024] = t.zs[1024], t.zs[1023]
			}
			desc := fmt.Sprintf("%d openings :: %s", n, mod)
			ok, err, ran := decideImpl(r, c, t, desc)
			if !ran {
				continue
			}
			acc, shape := decideRef(t)
			r.Evals++
			r.Nontrivial++
			if ok != acc || (err != nil) != shape {
				vio(r, "c02.agree", "CheckMultiProof", desc, fmt.Sprintf("reference verifier: accepted=%v", acc), fmt.Sprintf("accepted=%v err=%v", ok, err))
			} else if (mod == "honest") != ok {
				vio(r, "c02.reject", "CheckMultiProof", desc, fmt.Sprintf("accepted=%v", mod == "honest"), fmt.Sprintf("accepted=%v (reference agrees)", ok))
			}
		}
		r.Sample(map[string]interface{}{"openings": n, "variants": "honest; wrong y at 1024; compensating wrong claims at 1023/1024; transposition 1023<->1024"})
	}})
	us = append(us, core.Unit{Name: "statements whose repeated commitments share one pointer (all partitions of 4, selected of 5)", Run: func(ctx *core.Ctx, r *core.Result) {
		needRef()
		c := conf()
		polys := polyAlphabet(ctx.Seed)
		pats := []string{"AAAA", "AAAB", "AABA", "ABAA", "ABBB", "AABB", "ABAB", "ABBA", "AABC", "ABAC", "ABCA", "ABBC", "ABCB", "ABCC", "ABCD", "AABCB", "AABBC", "ABCAB", "AABAC"}
		for pi2, pat := range pats {
			st := stmt{label: "vt"}
			for i, ch := range pat {
				k := int(ch - 'A')
				st.polys = append(st.polys, []namedPoly{polys[10], polys[12], polys[8], polys[13]}[k])
				st.share = append(st.share, k+1)
				st.zs = append(st.zs, []int{7, 9, 200, 9, 7}[(i+pi2)%5])
			}
			base, okb := honestTuple(r, c, st)
			if !okb {
				continue
			}
			one := fr.One()
			for _, mod := range []string{"honest", "y_last+1", "y of the second occurrence of B := the value of C at that index"} {
				t := base.clone()
				switch mod {
				case "y_last+1":
					t.ys[len(t.ys)-1].Add(&t.ys[len(t.ys)-1], &one)
				case "y of the second occurrence of B := the value of C at that index":
					bi2, ci := -1, -1
					seenB := false
					for i, ch := range pat {
						if ch == 'B' {
							if seenB {
								bi2 = i
							}
							seenB = true
						}
						if ch == 'C' {
							ci = i
						}
					}
					if bi2 < 0 || ci < 0 {
						continue
					}
					t.ys[bi2] = frFromBig(st.polys[ci].V[st.zs[bi2]])
				}
				desc := fmt.Sprintf("commitment pointers %s zs=%v :: %s", pat, st.zs, mod)
				ok, err, ran := decideImplShared(r, c, t, desc)
				if !ran {
					continue
				}
				acc, shape := decideRef(t)
				r.Evals++
				r.Nontrivial++
				if ok != acc || (err != nil) != shape {
					vio(r, "c02.agree", "CheckMultiProof", desc, fmt.Sprintf("reference verifier: accepted=%v", acc), fmt.Sprintf("accepted=%v err=%v", ok, err))
				}
			}
		}
		r.Sample(map[string]interface{}{"pattern": "AABCB: openings 0,1 share the pointer of A; 2 and 4 share B; 3 is C", "variants": "honest; last y + 1; second B claims C's value"})
	}})
	us = append(us, core.Unit{Name: "honest and false statements under CPU counts 1..300 (decision independent of the configuration)", Run: func(ctx *core.Ctx, r *core.Result) {
		needRef()
		if !vsched.Instrumented {
			r.Note("seam", "unavailable (fallback flavour)")
			return
		}
		c := conf()
		defer setCPU(0)
		for bi_, s := range bases[:3] {
			base, okb := honestTuple(r, c, s)
			if !okb {
				continue
			}
			bad := base.clone()
			one := fr.One()
			bad.ys[len(bad.ys)-1].Add(&bad.ys[len(bad.ys)-1], &one)
			accBad, _ := decideRef(bad)
			for _, cpu := range []int{1, 2, 3, 5, 16, 17, 48, 64, 65, 72, 96, 128, 300} {
				setCPU(cpu)
				for k, t := range []tuple{base, bad} {
					desc := fmt.Sprintf("base %d, %s statement, NumCPU/GOMAXPROCS=%d", bi_, []string{"honest", "false (last y + 1)"}[k], cpu)
					ok, err, ran := decideImpl(r, c, t, desc)
					if !ran {
						continue
					}
					want := k == 0 || accBad
					r.Evals++
					r.Nontrivial++
					if (ok && err == nil) != want {
						vio(r, "c02.agree", "CheckMultiProof", desc, fmt.Sprintf("reference verifier: accepted=%v", want), fmt.Sprintf("accepted=%v err=%v", ok, err))
					}
				}
			}
		}
	}})
	us = append(us, core.Unit{Name: "one proof object edited in place between verifications and serialisations", Run: func(ctx *core.Ctx, r *core.Result) {
		needRef()
		c := conf()
		for bi_, s := range bases[:4] {
			base, okb := honestTuple(r, c, s)
			other, oko := honestTuple(r, c, bases[(bi_+1)%len(bases)])
			if !okb || !oko {
				continue
			}
			Cs := make([]*banderwagon.Element, len(base.Cs))
			ys := make([]*fr.Element, len(base.ys))
			for i := range Cs {
				e, y := base.Cs[i], base.ys[i]
				Cs[i], ys[i] = &e, &y
			}
			// ONE object, used throughout
			p := &multiproof.MultiProof{D: base.D, IPA: ipa.IPAProof{L: append([]banderwagon.Element(nil), base.L...), R: append([]banderwagon.Element(nil), base.R...), A_scalar: base.A}}
			verify := func(desc string, want bool) {
				var ok bool
				var err error
				if !guard(r, "c02.panic", "CheckMultiProof", desc, func() {
					ok, err = multiproof.CheckMultiProof(common.NewTranscript(base.label), c, p, Cs, ys, append([]uint8(nil), base.zs...))
				}) {
					return
				}
				r.Evals++
				r.Nontrivial++
				if (ok && err == nil) != want {
					vio(r, "c02.history", "CheckMultiProof", fmt.Sprintf("base %d, one proof object: %s", bi_, desc), fmt.Sprintf("accept=%v (the decision depends on the present content of the proof object only)", want), fmt.Sprintf("accept=%v err=%v", ok, err))
				}
			}
			bytesOf := func() string { return hx(proofBytes(p)) }
			verify("honest", true)
			b0 := bytesOf()
			edits := []struct {
				name       string
				do, undo   func()
				stillValid bool
			}{
				{"D := D of another proof", func() { p.D = other.D }, func() { p.D = base.D }, sameEl(&other.D, &base.D)},
				{"D := 2*D (in place)", func() { p.D.Double(&p.D) }, func() { p.D = base.D }, false},
				{"L[0] := L[1]", func() { p.IPA.L[0] = p.IPA.L[1] }, func() { p.IPA.L[0] = base.L[0] }, sameEl(&base.L[0], &base.L[1])},
				{"R[7] := -R[7] (in place)", func() { p.IPA.R[7].Neg(&p.IPA.R[7]) }, func() { p.IPA.R[7] = base.R[7] }, false},
				{"a := a+1", func() { one := fr.One(); p.IPA.A_scalar.Add(&p.IPA.A_scalar, &one) }, func() { p.IPA.A_scalar = base.A }, false},
				{"D re-represented (projective, same element)", func() { p.D = reprOf(p.D, reprProjFlip) }, func() { p.D = base.D }, true},
			}
			cur := func() tuple {
				t := base.clone()
				t.D, t.A = p.D, p.IPA.A_scalar
				t.L = append([]banderwagon.Element(nil), p.IPA.L...)
				t.R = append([]banderwagon.Element(nil), p.IPA.R...)
				return t
			}
			for _, e := range edits {
				e.do()
				// expected: the reference verifier's decision on the present content; the bytes change exactly
				// when a group element or the scalar changed as a value
				acc, _ := decideRef(cur())
				e.stillValid = sameTuple(cur(), base)
				verify("after "+e.name, acc)
				if b := bytesOf(); (b == b0) != e.stillValid {
					vio(r, "c02.history", "MultiProof.Write", fmt.Sprintf("base %d, one proof object after %s", bi_, e.name), "the serialisation reflects the present content of the proof object", "bytes of an earlier content (or a change where the element is the same)")
				}
				verify("again after "+e.name, acc)
				e.undo()
				verify("after undoing "+e.name, true)
				if bytesOf() != b0 {
					vio(r, "c02.history", "MultiProof.Write", fmt.Sprintf("base %d, one proof object after undoing %s", bi_, e.name), "the honest bytes", "different bytes")
				}
			}
		}
	}})
	us = append(us, core.Unit{Name: "shape errors", Run: func(ctx *core.Ctx, r *core.Result) {
		needRef()
		c := conf()
		base, okb := honestTuple(r, c, bases[2])
		if !okb {
			return
		}
		// history: after every malformed call, a fixed false claim must still be rejected and the honest
		// tuple still accepted (nothing may survive from a call that ended with an error)
		falseClaim := base.clone()
		falseClaim.ys[0].Add(&falseClaim.ys[0], &[]fr.Element{fr.One()}[0])
		nErr := 0
		afterError := func(desc string) {
			nErr++
			first, second := base, falseClaim // alternate which of the two follows the failed call directly
			if nErr%2 == 0 {
				first, second = falseClaim, base
			}
			for _, t := range []tuple{first, second} {
				honest := sameTuple(t, base)
				ok, err, ran := decideImpl(r, c, t, "after "+desc)
				if ran && (ok != honest || err != nil) {
					vio(r, "c02.history", "CheckMultiProof", fmt.Sprintf("after %s: %s", desc, map[bool]string{true: "the honest tuple", false: "y_0+1 with the honest proof"}[honest]), fmt.Sprintf("(%v, nil)", honest), fmt.Sprintf("(%v, %v)", ok, err))
				}
			}
		}
		for lc := 0; lc <= 2; lc++ {
			for ly := 0; ly <= 2; ly++ {
				for lz := 0; lz <= 2; lz++ {
					t := base.clone()
					t.Cs, t.ys, t.zs = t.Cs[:lc], t.ys[:ly], t.zs[:lz]
					desc := fmt.Sprintf("len(Cs)=%d len(ys)=%d len(zs)=%d", lc, ly, lz)
					ok, err, ran := decideImpl(r, c, t, desc)
					if !ran {
						continue
					}
					r.Evals++
					r.Nontrivial++
					wantErr := !(lc == ly && ly == lz && lc > 0)
					if wantErr && (err == nil || ok) {
						vio(r, "c02.shape", "CheckMultiProof", desc, "(false, error)", fmt.Sprintf("(%v, %v)", ok, err))
					}
					if !wantErr && (err != nil || ok) {
						vio(r, "c02.shape", "CheckMultiProof", desc, "(false, nil): well-shaped but not the proven statement", fmt.Sprintf("(%v, %v)", ok, err))
					}
					if wantErr {
						afterError(desc)
					}
				}
			}
		}
		for _, ll := range []int{0, 7, 8, 9} {
			for _, lr := range []int{0, 7, 8, 9} {
				t := base.clone()
				mk := func(src []banderwagon.Element, n int) []banderwagon.Element {
					out := append([]banderwagon.Element(nil), src...)
					for len(out) < n {
						out = append(out, banderwagon.Generator)
					}
					return out[:n]
				}
				t.L, t.R = mk(t.L, ll), mk(t.R, lr)
				desc := fmt.Sprintf("len(L)=%d len(R)=%d", ll, lr)
				ok, err, ran := decideImpl(r, c, t, desc)
				if !ran {
					continue
				}
				r.Evals++
				r.Nontrivial++
				if ll == 8 && lr == 8 {
					if !ok || err != nil {
						vio(r, "c02.shape", "CheckMultiProof", desc, "(true, nil)", fmt.Sprintf("(%v, %v)", ok, err))
					}
				} else if err == nil || ok {
					vio(r, "c02.shape", "CheckMultiProof", desc, "(false, error)", fmt.Sprintf("(%v, %v)", ok, err))
				}
				if ll != 8 || lr != 8 {
					// a malformed proof carrying otherwise honest data, then the false claim
					afterError(desc)
				}
				// the same through ipa.CheckIPAProof
				var ok2 bool
				var err2 error
				pr := ipa.IPAProof{L: t.L, R: t.R, A_scalar: t.A}
				if guard(r, "c02.panic", "ipa.CheckIPAProof", desc, func() {
					ok2, err2 = ipa.CheckIPAProof(common.NewTranscript("x"), c, banderwagon.Generator, pr, fr.One(), fr.One())
				}) {
					r.Evals++
					if (ll != 8 || lr != 8) && (err2 == nil || ok2) {
						vio(r, "c02.shape", "ipa.CheckIPAProof", desc, "(false, error)", fmt.Sprintf("(%v, %v)", ok2, err2))
					}
				}
			}
		}
		r.Sample(map[string]interface{}{"shapes": "len(Cs),len(ys),len(zs) in {0,1,2}^3; len(L),len(R) in {0,7,8,9}^2"})
	}})
	// the same idea on ipa.CheckIPAProof directly
	for part := 0; part < 2; part++ {
		part := part
		us = append(us, core.Unit{Name: fmt.Sprintf("ipa.CheckIPAProof perturbations part %d/2", part), Run: func(ctx *core.Ctx, r *core.Result) {
			needRef()
			c := conf()
			polys := polyAlphabet(ctx.Seed)
			type ipaCase struct {
				poly namedPoly
				z    *big.Int
			}
			cases := []ipaCase{{polys[10], bi(3)}, {polys[12], bi(300)}, {polys[13], new(big.Int).Sub(bigR, bi(1))}, {polys[8], bi(255)}}
			n := 0
			for _, cs := range cases {
				a := frsFromBig(cs.poly.V)
				cm := c.Commit(a)
				ze := frFromBig(cs.z)
				proof, err := ipa.CreateIPAProof(common.NewTranscript("ipa"), c, cm, a, ze)
				if err != nil {
					panic(core.ImplFault{API: "ipa.CreateIPAProof", Input: "honest opening", Got: "error: " + err.Error()})
				}
				y := ref.Inner(cs.poly.V, ref.BVec(cs.z))
				type ic struct {
					name string
					cm   banderwagon.Element
					pr   ipa.IPAProof
					z, y *big.Int
					lbl  string
					keep bool
				}
				cp := func(p ipa.IPAProof) ipa.IPAProof {
					return ipa.IPAProof{L: append([]banderwagon.Element(nil), p.L...), R: append([]banderwagon.Element(nil), p.R...), A_scalar: p.A_scalar}
				}
				g := banderwagon.Generator
				var list []ic
				list = append(list, ic{"honest", cm, cp(proof), cs.z, y, "ipa", true})
				for k := 1; k < nRepr; k++ {
					list = append(list, ic{"commitment re-represented as " + reprNames[k], reprOf(cm, k), cp(proof), cs.z, y, "ipa", true})
				}
				var cg banderwagon.Element
				cg.Add(&cm, &g)
				list = append(list, ic{"commitment+G", cg, cp(proof), cs.z, y, "ipa", false})
				list = append(list, ic{"result+1", cm, cp(proof), cs.z, ref.AddR(y, bi(1)), "ipa", false})
				list = append(list, ic{"result:=0", cm, cp(proof), cs.z, bi(0), "ipa", y.Sign() == 0})
				list = append(list, ic{"point+1", cm, cp(proof), ref.AddR(cs.z, bi(1)), y, "ipa", false})
				list = append(list, ic{"point:=0", cm, cp(proof), bi(0), y, "ipa", false})
				list = append(list, ic{"label", cm, cp(proof), cs.z, y, "ipb", false})
				for j := 0; j < 8; j++ {
					p1 := cp(proof)
					p1.L[j].Add(&p1.L[j], &g)
					list = append(list, ic{fmt.Sprintf("L_%d+G", j), cm, p1, cs.z, y, "ipa", false})
					p2 := cp(proof)
					p2.R[j].Neg(&p2.R[j])
					list = append(list, ic{fmt.Sprintf("-R_%d", j), cm, p2, cs.z, y, "ipa", false})
					p3 := cp(proof)
					p3.L[j] = reprOf(p3.L[j], 1+j%3)
					list = append(list, ic{fmt.Sprintf("L_%d re-represented", j), cm, p3, cs.z, y, "ipa", true})
				}
				pa := cp(proof)
				one := fr.One()
				pa.A_scalar.Add(&pa.A_scalar, &one)
				list = append(list, ic{"a+1", cm, pa, cs.z, y, "ipa", false})
				for _, x := range list {
					n++
					if n%2 != part {
						continue
					}
					desc := fmt.Sprintf("poly=%s point=%s :: %s", cs.poly.Name, clipHex(cs.z), x.name)
					var ok bool
					var verr error
					if !guard(r, "c02.panic", "ipa.CheckIPAProof", desc, func() {
						ok, verr = ipa.CheckIPAProof(common.NewTranscript(x.lbl), c, x.cm, x.pr, frFromBig(x.z), frFromBig(x.y))
					}) {
						continue
					}
					cmm := x.cm
					acc := ref.IPAVerifyFast(ref.NewTranscript(x.lbl), ref.SRS(), elToRef(&cmm), refIPAProof(x.pr), x.z, x.y)
					r.Evals++
					r.Nontrivial++
					if ok != acc || verr != nil {
						vio(r, "c02.agree", "ipa.CheckIPAProof", desc, fmt.Sprintf("reference verifier: accepted=%v", acc), fmt.Sprintf("accepted=%v err=%v", ok, verr))
					} else if ok != x.keep {
						vio(r, "c02.reject", "ipa.CheckIPAProof", desc, fmt.Sprintf("accepted=%v", x.keep), fmt.Sprintf("accepted=%v (reference agrees)", ok))
					}
				}
			}
		}})
	}
	return us
}
