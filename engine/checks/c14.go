package checks

import (
	"bytes"
	"crypto/sha256"
	"fmt"
	"math/big"

	"github.com/crate-crypto/go-ipa/banderwagon"
	"github.com/crate-crypto/go-ipa/common"
	"github.com/crate-crypto/go-ipa/zzverif/vsched"
	"verif.local/engine/core"
	"verif.local/engine/explore"
	"verif.local/engine/ref"
)

// C14 — transcript challenges follow the specified hash chain and bind all messages.

type trOp struct {
	name  string
	chal  bool
	impl  func(t *common.Transcript) *big.Int // returns the challenge for challenge ops
	refop func(t *ref.Transcript) *big.Int
	bytes []byte // bytes the specification absorbs for this operation (label || message); for challenges: the label
}

func c14Menu(seed int64) []trOp {
	var ops []trOp
	dom := func(l string) {
		ops = append(ops, trOp{name: fmt.Sprintf("DomainSep(%q)", l),
			impl:  func(t *common.Transcript) *big.Int { t.DomainSep([]byte(l)); return nil },
			refop: func(t *ref.Transcript) *big.Int { t.DomainSep(l); return nil }, bytes: []byte(l)})
	}
	msg := func(m []byte, l string) {
		name := fmt.Sprintf("AppendMessage(%d bytes, %q)", len(m), l)
		ops = append(ops, trOp{name: name,
			impl:  func(t *common.Transcript) *big.Int { t.AppendMessage(m, []byte(l)); return nil },
			refop: func(t *ref.Transcript) *big.Int { t.AppendMessage(m, l); return nil }, bytes: append([]byte(l), m...)})
	}
	sc := func(s *big.Int, l string) {
		e := frFromBig(s)
		ops = append(ops, trOp{name: fmt.Sprintf("AppendScalar(%s, %q)", clipHex(s), l),
			impl:  func(t *common.Transcript) *big.Int { x := e; t.AppendScalar(&x, []byte(l)); return nil },
			refop: func(t *ref.Transcript) *big.Int { t.AppendScalar(s, l); return nil }, bytes: append([]byte(l), ref.LE32(s)...)})
	}
	pt := func(p ref.Pt, kind int, pname string, l string) {
		e := reprOf(elFromRef(p), kind)
		c := ref.Compress(p)
		ops = append(ops, trOp{name: fmt.Sprintf("AppendPoint(%s[%s], %q)", pname, reprNames[kind], l),
			impl:  func(t *common.Transcript) *big.Int { x := e; t.AppendPoint(&x, []byte(l)); return nil },
			refop: func(t *ref.Transcript) *big.Int { t.AppendPoint(p, l); return nil }, bytes: append([]byte(l), c[:]...)})
	}
	ch := func(l string) {
		ops = append(ops, trOp{name: fmt.Sprintf("ChallengeScalar(%q)", l), chal: true,
			impl:  func(t *common.Transcript) *big.Int { c := t.ChallengeScalar([]byte(l)); return frToBig(c) },
			refop: func(t *ref.Transcript) *big.Int { return t.Challenge(l) }, bytes: []byte(l)})
	}
	// simplest first
	ch("")
	ch("a")
	dom("")
	dom("a")
	msg(nil, "")
	msg([]byte("b"), "a")
	sc(bi(0), "a")
	pt(ref.Gen(), reprNorm, "G", "C")
	ch("ab")
	ch("r")
	dom("ab")
	dom("multiproof")
	msg(nil, "ab")
	msg(make([]byte, 64), "C")
	msg(bytes.Repeat([]byte{0x5a}, 1100), "a")
	sc(new(big.Int).Sub(bigR, bi(1)), "z")
	sc(prfR(seed, "c14", 0), "")
	pt(ref.Gen(), reprProjFlip, "G", "C")
	pt(ref.Identity(), reprFlip, "identity", "D")
	pt(ref.SRS()[7], reprProj, "G_7", "")
	return ops
}

func clipHex(s *big.Int) string {
	t := s.Text(16)
	if len(t) > 10 {
		return t[:10] + "…"
	}
	return t
}

type c14walker struct {
	r      *core.Result
	ops    []trOp
	label  string
	states map[[32]byte]bool
	maxLen int
	nSeq   int64
}

// run replays one history on fresh implementation and reference transcripts; every challenge is compared.
func (w *c14walker) run(seq []int) {
	ti := common.NewTranscript(w.label)
	tr := ref.NewTranscript(w.label)
	h := sha256.New()
	h.Write([]byte(w.label))
	h.Write([]byte{0xff, byte(len(w.label))})
	for step, oi := range seq {
		op := w.ops[oi]
		got := op.impl(ti)
		want := op.refop(tr)
		w.r.Transitions++
		// reference-state key: the framed list of absorbed segments (what the specification binds)
		if op.chal {
			h.Write([]byte{0xfe})
		}
		h.Write(op.bytes)
		if op.chal {
			h.Write([]byte{0xfd})
			if got.Cmp(want) != 0 {
				vio(w.r, "c14.challenge", "common.Transcript.ChallengeScalar", w.describe(seq[:step+1]), want.Text(16), got.Text(16))
				return
			}
		}
	}
	var k [32]byte
	copy(k[:], h.Sum(nil))
	w.states[k] = true
	w.nSeq++
}

func (w *c14walker) describe(seq []int) string {
	s := fmt.Sprintf("NewTranscript(%q)", w.label)
	for _, oi := range seq {
		s += "; " + w.ops[oi].name
	}
	return s
}

func (w *c14walker) dfs(seq []int) {
	// every explored history ends with a challenge so that its whole content is observed
	full := append(append([]int(nil), seq...), 0)
	w.run(full)
	if len(seq) >= w.maxLen {
		return
	}
	for oi := range w.ops {
		w.dfs(append(seq, oi))
	}
}

func init() {
	core.Register(&core.Check{
		ID: "C14", Level: "model_checking",
		Rule:   "explicit-state exploration of the transcript machine: ALL operation sequences up to length 5 (6 thorough) over a 20-operation menu (DomainSep/AppendMessage/AppendScalar/AppendPoint/ChallengeScalar with labels {\"\",a,ab,protocol labels}, messages {empty,1,64,1100 bytes}, scalars {0,r-1,PRF}, points in 4 representations incl. the identity as (0,-1)) x protocol label {\"\",vt}, each history closed by a challenge and replayed on a fresh implementation transcript and on the reference; a state is the reference's framed absorbed-byte history (distinct ones counted with a hash set), a transition one real API call; plus the same *Element / *fr.Element variable appended repeatedly while it changes; plus long chains: a challenge after every pending size 0..5000 bytes, 64 consecutive challenges, many small appends crossing the 1024-byte initial buffer",
		Assume: []string{"reference transcript: SHA-256 chain of the specification (pinned by the cross-implementation vectors)", "the transcript has no framing: binding is 'iff the reference absorbs the same byte stream', nothing stricter"},
		Units:  c14Units,
	})
}

func c14Units(ctx *core.Ctx) []core.Unit {
	var us []core.Unit
	maxLen := 4
	if ctx.Thorough() {
		maxLen = 5
	}
	for _, label := range []string{"", "vt"} {
		for first := 0; first < 20; first++ {
			label, first := label, first
			us = append(us, core.Unit{Name: fmt.Sprintf("histories label=%q first op #%d, %d more ops + closing challenge", label, first, maxLen), Run: func(ctx *core.Ctx, r *core.Result) {
				needRef()
				w := &c14walker{r: r, ops: c14Menu(ctx.Seed), label: label, states: map[[32]byte]bool{}, maxLen: maxLen + 1}
				w.dfs([]int{first})
				r.Evals = w.nSeq
				r.Traces = w.nSeq
				r.States = int64(len(w.states))
				r.Nontrivial = int64(len(w.states))
				r.Sample(map[string]interface{}{"history": w.describe([]int{first, 14, 7, 9, 18, 0}), "menu_size": len(w.ops)})
			}})
		}
	}
	us = append(us, core.Unit{Name: "every sync.Pool answer inside challenges (pooled objects poisoned on Put), <= 2 deviations", Run: func(ctx *core.Ctx, r *core.Result) {
		if !vsched.Instrumented {
			r.Note("seam", "unavailable (fallback flavour)")
			return
		}
		needRef()
		old := vsched.PoolPoison
		vsched.PoolPoison = poisonBig
		defer func() { vsched.PoolPoison = old }()
		ops := c14Menu(ctx.Seed)
		seqs := [][]int{{6, 0, 7, 9, 15, 1}, {0, 0, 0}, {14, 8, 16, 9, 0}, {17, 18, 1, 5, 8}}
		for _, seq := range seqs {
			tr := ref.NewTranscript("pool")
			want := ""
			for _, oi := range seq {
				if c := ops[oi].refop(tr); c != nil {
					want += c.Text(16) + ","
				}
			}
			want += tr.Challenge("end").Text(16)
			body := func() string {
				ti := common.NewTranscript("pool")
				out := ""
				for _, oi := range seq {
					if c := ops[oi].impl(ti); c != nil {
						out += c.Text(16) + ","
					}
				}
				return out + frToBig(ti.ChallengeScalar([]byte("end"))).Text(16)
			}
			name := "transcript history " + fmt.Sprint(seq) + " under every pool answer"
			st := core.Explore(r, core.SchedSpec{Name: name, API: "common.Transcript.ChallengeScalar", Check: "c14.pool", Body: body, Expect: want, Mode: "bounded", Opt: explore.Options{MaxBound: 2, DataOnly: true}})
			r.Evals += int64(st.Execs)
			r.Nontrivial += int64(st.Complete)
			r.Traces += int64(st.Complete)
		}
	}})
	us = append(us, core.Unit{Name: "AppendScalar over the edge-scalar alphabet (incl. values with a tiny Montgomery representation)", Run: func(ctx *core.Ctx, r *core.Result) {
		needRef()
		ed := sEdge(ctx.Seed, ctx.Thorough())
		for i, sv := range ed {
			e := frFromBig(sv)
			ti := common.NewTranscript("vt")
			tr := ref.NewTranscript("vt")
			ti.AppendScalar(&e, []byte("s"))
			tr.AppendScalar(sv, "s")
			// a second scalar, so that a framing that merges or shortens the first one shifts the stream
			o := frFromBig(ed[(i*7+1)%len(ed)])
			ti.AppendScalar(&o, []byte("t"))
			tr.AppendScalar(ed[(i*7+1)%len(ed)], "t")
			got, want := frToBig(ti.ChallengeScalar([]byte("c"))), tr.Challenge("c")
			r.Evals++
			r.Nontrivial++
			if got.Cmp(want) != 0 {
				vio(r, "c14.challenge", "common.Transcript.AppendScalar / ChallengeScalar", fmt.Sprintf("AppendScalar(%s, s); AppendScalar(%s, t); ChallengeScalar(c)", sv.Text(16), ed[(i*7+1)%len(ed)].Text(16)), want.Text(16), got.Text(16))
			}
		}
	}})
	us = append(us, core.Unit{Name: "long chains: pending sizes 0..5000, consecutive challenges, many small appends", Run: func(ctx *core.Ctx, r *core.Result) {
		needRef()
		states := map[string]bool{}
		cmp := func(desc string, got, want *big.Int) {
			r.Evals++
			r.Transitions++
			states[want.Text(16)] = true
			if got.Cmp(want) != 0 {
				vio(r, "c14.challenge", "common.Transcript.ChallengeScalar", desc, want.Text(16), got.Text(16))
			}
		}
		maxN := 5000
		for n := 0; n <= maxN; n++ {
			if !ctx.Thorough() && n > 1200 && n%7 != 0 && n%1024 > 2 && n%1024 < 1022 {
				continue
			}
			m := make([]byte, n)
			for i := range m {
				m[i] = byte(i*7 + n)
			}
			ti := common.NewTranscript("vt")
			tr := ref.NewTranscript("vt")
			ti.AppendMessage(m, []byte("m"))
			tr.AppendMessage(m, "m")
			cmp(fmt.Sprintf("NewTranscript(vt); AppendMessage(%d bytes); ChallengeScalar(x)", n), frToBig(ti.ChallengeScalar([]byte("x"))), tr.Challenge("x"))
			// a second segment after the buffer has grown
			ti.AppendMessage(m[:n/2], []byte("n"))
			tr.AppendMessage(m[:n/2], "n")
			cmp(fmt.Sprintf("... AppendMessage(%d bytes); ChallengeScalar(y)", n/2), frToBig(ti.ChallengeScalar([]byte("y"))), tr.Challenge("y"))
		}
		// many small appends (a multiproof absorbs ~100 bytes per opening before its first challenge)
		g := banderwagon.Generator
		for _, cnt := range []int{1, 9, 10, 11, 12, 31, 32, 33, 100, 300} {
			ti := common.NewTranscript("multi")
			tr := ref.NewTranscript("multi")
			for i := 0; i < cnt; i++ {
				s := bi(int64(i))
				e := frFromBig(s)
				ti.AppendPoint(&g, []byte("C"))
				tr.AppendPoint(ref.Gen(), "C")
				ti.AppendScalar(&e, []byte("z"))
				tr.AppendScalar(s, "z")
				ti.AppendScalar(&e, []byte("y"))
				tr.AppendScalar(s, "y")
			}
			cmp(fmt.Sprintf("%d x (AppendPoint, AppendScalar, AppendScalar) then ChallengeScalar(r)", cnt), frToBig(ti.ChallengeScalar([]byte("r"))), tr.Challenge("r"))
			// 64 consecutive challenges
			for i := 0; i < 64; i++ {
				cmp(fmt.Sprintf("%d openings absorbed, consecutive challenge #%d", cnt, i+2), frToBig(ti.ChallengeScalar([]byte("x"))), tr.Challenge("x"))
			}
		}
		// the same *Element / *fr.Element variable appended repeatedly while the caller changes it in between
		// (what is absorbed must be the value at the time of the call, not something remembered per address)
		{
			// one label buffer reused for every operation and rewritten between them ("round-0", "round-1", ...)
			ti := common.NewTranscript("labels")
			tr := ref.NewTranscript("labels")
			lb := []byte("round-0")
			desc := "one label buffer rewritten between calls:"
			for i := 0; i < 9; i++ {
				lb[6] = byte('0' + i)
				l := string(lb)
				switch i % 3 {
				case 0:
					cmp(desc+fmt.Sprintf(" ChallengeScalar(%q)", l), frToBig(ti.ChallengeScalar(lb)), tr.Challenge(l))
				case 1:
					ti.AppendMessage([]byte{byte(i)}, lb)
					tr.AppendMessage([]byte{byte(i)}, l)
				default:
					ti.DomainSep(lb)
					tr.DomainSep(l)
				}
				desc += fmt.Sprintf(" op%d(%q)", i%3, l)
			}
			lb[6] = 'x'
			cmp(desc+" ChallengeScalar(end)", frToBig(ti.ChallengeScalar([]byte("end"))), tr.Challenge("end"))
		}
		{
			ti := common.NewTranscript("alias")
			tr := ref.NewTranscript("alias")
			p := banderwagon.Generator
			rp := ref.Gen()
			s := frFromBig(bi(5))
			sv := bi(5)
			desc := "aliased appends:"
			for i := 0; i < 12; i++ {
				ti.AppendPoint(&p, []byte("P"))
				tr.AppendPoint(rp, "P")
				ti.AppendScalar(&s, []byte("s"))
				tr.AppendScalar(sv, "s")
				desc += fmt.Sprintf(" AppendPoint(&p); AppendScalar(&s); [step %d]", i)
				if i%3 == 2 {
					cmp(desc+" ChallengeScalar(c)", frToBig(ti.ChallengeScalar([]byte("c"))), tr.Challenge("c"))
				}
				switch i % 4 {
				case 0:
					p.Double(&p)
					rp = ref.Add(rp, rp)
				case 1:
					p = reprOf(p, reprProjFlip) // same element, other representation, same address
				case 2:
					p.Add(&p, &banderwagon.Generator)
					rp = ref.Add(rp, ref.Gen())
				case 3:
					p.Neg(&p)
					rp = ref.Neg(rp)
				}
				s.Double(&s)
				sv = ref.AddR(sv, sv)
			}
			cmp(desc+" ChallengeScalar(end)", frToBig(ti.ChallengeScalar([]byte("end"))), tr.Challenge("end"))
		}
		// length-64 mixed chain
		ops := c14Menu(ctx.Seed)
		for rep := 0; rep < 20; rep++ {
			ti := common.NewTranscript("chain")
			tr := ref.NewTranscript("chain")
			desc := "mixed chain:"
			for i := 0; i < 64; i++ {
				op := ops[(i*7+rep*3+i*i)%len(ops)]
				desc += " " + op.name
				got := op.impl(ti)
				want := op.refop(tr)
				if op.chal {
					cmp(desc, got, want)
				}
			}
			cmp(desc+" ChallengeScalar(end)", frToBig(ti.ChallengeScalar([]byte("end"))), tr.Challenge("end"))
		}
		r.States = int64(len(states))
		r.Nontrivial = int64(len(states))
		r.Traces = r.Evals
		r.Sample(map[string]interface{}{"history": "NewTranscript(vt); AppendMessage(1025 bytes); ChallengeScalar(x); AppendMessage(512 bytes); ChallengeScalar(y)"})
	}})
	return us
}
