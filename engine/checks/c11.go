package checks

import (
	"fmt"
	"math/big"

	"github.com/crate-crypto/go-ipa/bandersnatch/fr"
	"github.com/crate-crypto/go-ipa/banderwagon"
	"github.com/crate-crypto/go-ipa/zzverif/vsched"
	"verif.local/engine/core"
	"verif.local/engine/ref"
)

// C11 — map-to-scalar-field is a well-defined function on group elements.

type c11roll struct {
	byClass map[[32]byte]string // canonical class bytes -> map value (hex)
	byValue map[string][32]byte // map value -> class bytes (injectivity)
}

func c11Invariant(roll *c11roll) regInv {
	return func(r *core.Result, s *regState, hist string) {
		r.Evals++
		vals := [2]fr.Element{dirtyFr(), dirtyFr()}
		for i := 0; i < 2; i++ {
			e := s.e[i]
			reg := fmt.Sprintf("r%d", i)
			want := ref.MapToField(s.p[i])
			keep := e
			e.MapToScalarField(&vals[i])
			if e != keep {
				vio(r, "c11.input_intact", "banderwagon.Element.MapToScalarField", hist, reg+" unchanged", "modified")
			}
			if frToBig(vals[i]).Cmp(want) != 0 {
				vio(r, "c11.value", "banderwagon.Element.MapToScalarField", hist, reg+" -> LE(x/y) mod r = "+want.Text(16), frToBig(vals[i]).Text(16)+" ("+elString(&e)+")")
				continue
			}
			cls := ref.Compress(s.p[i])
			v := want.Text(16)
			if old, ok := roll.byClass[cls]; ok && old != v {
				vio(r, "c11.welldefined", "banderwagon.Element.MapToScalarField", hist, "same value for every representation of one element: "+old, v)
			}
			roll.byClass[cls] = v
			if oc, ok := roll.byValue[v]; ok && oc != cls {
				vio(r, "c11.injective", "banderwagon.Element.MapToScalarField", hist, "different elements have different x/y", fmt.Sprintf("value %s for classes %x and %x", v, oc, cls))
			}
			roll.byValue[v] = cls
		}
		// batch variant on both orderings and with a duplicate
		e0, e1 := s.e[0], s.e[1]
		for _, order := range [][]int{{0, 1}, {1, 0}, {0, 0, 1}, {1}} {
			els := make([]*banderwagon.Element, len(order))
			res := make([]*fr.Element, len(order))
			for k, o := range order {
				if o == 0 {
					els[k] = &e0
				} else {
					els[k] = &e1
				}
				d := dirtyFr()
				res[k] = &d
			}
			orig := append([]*fr.Element(nil), res...) // the caller's own variables
			if err := banderwagon.BatchMapToScalarField(res, els); err != nil {
				vio(r, "c11.batch", "banderwagon.BatchMapToScalarField", hist, "no error", err.Error())
				continue
			}
			for k, o := range order {
				if res[k] != orig[k] {
					vio(r, "c11.batch", "banderwagon.BatchMapToScalarField", hist+fmt.Sprintf(" order=%v", order), fmt.Sprintf("result[%d] still points to the caller's variable", k), "the slot was redirected to another variable")
				}
				if !orig[k].Equal(&vals[o]) {
					vio(r, "c11.batch", "banderwagon.BatchMapToScalarField", hist+fmt.Sprintf(" order=%v", order), fmt.Sprintf("the caller's variable for slot %d holds the single-call value %s", k, frToBig(vals[o]).Text(16)), frToBig(*orig[k]).Text(16))
				}
				if !res[k].Equal(&vals[o]) {
					vio(r, "c11.batch", "banderwagon.BatchMapToScalarField", hist+fmt.Sprintf(" order=%v", order), fmt.Sprintf("result[%d] = single-call value %s", k, frToBig(vals[o]).Text(16)), frToBig(*res[k]).Text(16))
				}
			}
		}
		if e0 != s.e[0] || e1 != s.e[1] {
			vio(r, "c11.input_intact", "banderwagon.BatchMapToScalarField", hist, "elements unchanged", "modified")
		}
	}
}

func init() {
	base := regUnits("C11", func() regInv {
		return c11Invariant(&c11roll{byClass: map[[32]byte]string{}, byValue: map[string][32]byte{}})
	}, 3, 4)
	core.Register(&core.Check{
		ID: "C11", Level: "model_checking",
		Rule:   "same explicit-state search as C07 (31 operations, all sequences up to depth 3 (4 thorough), exact-limb state keys); in every distinct state MapToScalarField(r_i) = reference LE(x/y mod p) mod r, equal for all representations of one class reached along different paths (hash set over all visited classes), different for different classes (injectivity on the visited classes), BatchMapToScalarField on every register ordering incl. a duplicate equals the single calls; plus batches of lengths 0..8192 (incl. 127..129, 511..513, 1000, 1024, 1025, 2048, 4095..4097, 8192) with duplicates and the identity under several CPU counts, results read through the caller's own (pre-filled) variables, length mismatch = error; non-trivial = every visited state",
		Assume: []string{"reference: x/y over math/big, little-endian integer value reduced mod r", "class identity from the reference group law along the same history"},
		Units: func(ctx *core.Ctx) []core.Unit {
			us := base(ctx)
			us = append(us, core.Unit{Name: "batches of lengths 0..300 with duplicates and the identity", Run: func(ctx *core.Ctx, r *core.Result) {
				needRef()
				c := conf()
				lens := []int{0, 1, 2, 3, 15, 16, 17, 31, 32, 33, 127, 128, 129, 255, 256, 257, 300, 511, 512, 513, 1000, 1024, 1025, 2048, 4095, 4096, 4097, 8192}
				for li, L := range lens {
					if vsched.Instrumented {
						setCPU([]int{0, 1, 3, 16, 17}[li%5])
						defer setCPU(0)
					}
					els := make([]*banderwagon.Element, L)
					var want []*big.Int
					store := make([]banderwagon.Element, L)
					for i := 0; i < L; i++ {
						switch {
						case i%7 == 3:
							store[i].SetIdentity()
							store[i] = reprOf(store[i], i%nRepr)
						case i%5 == 4 && i > 4:
							els[i] = els[i-4] // duplicate pointer
							want = append(want, want[i-4])
							continue
						default:
							store[i] = reprOf(c.SRS[(i*13)%256], i%nRepr)
						}
						els[i] = &store[i]
						want = append(want, ref.MapToField(elToRef(&store[i])))
					}
					res := make([]*fr.Element, L)
					for i := range res {
						d := dirtyFr()
						res[i] = &d
					}
					in := fmt.Sprintf("BatchMapToScalarField(len %d)", L)
					if li%2 == 1 {
						// an earlier batch that contains a value which is not a group element (the zero value of the
						// type) — whatever that call answers, it must not leave anything behind for the next one
						var zero banderwagon.Element
						g1, g2 := c.SRS[1], c.SRS[2]
						junk := []*fr.Element{new(fr.Element), new(fr.Element), new(fr.Element)}
						func() {
							defer func() { recover() }()
							banderwagon.BatchMapToScalarField(junk, []*banderwagon.Element{&g1, &zero, &g2})
							// and scalar decodes of over-long and of rejected strings (the map decodes 32 bytes itself)
							var t fr.Element
							long := make([]byte, 64)
							for i := range long {
								long[i] = byte(0xA0 + i)
							}
							t.SetBytesLE(long)
							t.SetBytes(long[:40])
							t.SetBytesLECanonical(long)
						}()
						in += " after a batch containing a zero-valued Element"
					}
					orig := append([]*fr.Element(nil), res...)
					var err error
					if !guard(r, "c11.panic", "banderwagon.BatchMapToScalarField", in, func() { err = banderwagon.BatchMapToScalarField(res, els) }) {
						continue
					}
					r.Evals++
					r.Nontrivial++
					if err != nil {
						vio(r, "c11.batch", "banderwagon.BatchMapToScalarField", in, "no error", err.Error())
						continue
					}
					for i := range res {
						if res[i] != orig[i] || frToBig(*orig[i]).Cmp(want[i]) != 0 {
							vio(r, "c11.batch", "banderwagon.BatchMapToScalarField", in, fmt.Sprintf("the caller's variable for slot %d holds %s", i, want[i].Text(16)), frToBig(*orig[i]).Text(16))
							break
						}
						if frToBig(*res[i]).Cmp(want[i]) != 0 {
							vio(r, "c11.batch", "banderwagon.BatchMapToScalarField", in, fmt.Sprintf("result[%d] = %s", i, want[i].Text(16)), frToBig(*res[i]).Text(16))
							break
						}
					}
					if L > 0 {
						if err := banderwagon.BatchMapToScalarField(res[:L-1], els); err == nil {
							vio(r, "c11.batch", "banderwagon.BatchMapToScalarField", in+" with a shorter result slice", "error", "nil")
						}
					}
				}
				r.Sample(map[string]interface{}{"lengths": lens, "pattern": "identity every 7th, duplicate pointers every 5th, 4 representations"})
			}})
			us = append(us, core.Unit{Name: "x/y chosen at the reduction and limb boundaries", Run: c11Boundaries})
			return us
		},
	})
}

// elementWithRatio: a group element (reference form) whose x/y equals v, if one exists. From a*x^2+y^2 =
// 1+d*x^2*y^2 with x = v*y and t = y^2:  d*v^2*t^2 - (a*v^2+1)*t + 1 = 0.
func elementWithRatio(v *big.Int) (ref.Pt, bool) {
	P := ref.P
	if v.Sign() == 0 {
		return ref.Identity(), true
	}
	v2 := ref.MulP(v, v)
	qa := ref.MulP(ref.D, v2)
	qb := ref.AddP(ref.MulP(ref.A, v2), big.NewInt(1))
	disc := ref.SubP(ref.MulP(qb, qb), ref.MulP(big.NewInt(4), qa))
	sq := new(big.Int).ModSqrt(disc, P)
	if sq == nil {
		return ref.Pt{}, false
	}
	inv2a := ref.InvP(ref.MulP(big.NewInt(2), qa))
	for _, s := range []*big.Int{sq, ref.SubP(new(big.Int), sq)} {
		t := ref.MulP(ref.AddP(qb, s), inv2a)
		y := new(big.Int).ModSqrt(t, P)
		if y == nil || y.Sign() == 0 {
			continue
		}
		pt := ref.Pt{X: ref.MulP(v, y), Y: y, Z: big.NewInt(1)}
		if !ref.OnCurve(pt) {
			continue
		}
		// a valid Banderwagon element: its compressed form decodes (subgroup predicate of the reference)
		cb := ref.Compress(pt)
		if q, ok := ref.Decompress(cb[:]); ok && ref.SameClass(q, pt) {
			return pt, true
		}
	}
	return ref.Pt{}, false
}

// c11Boundaries: elements constructed so that x/y (as an integer below p) sits at k*r-d, k*r+d (p is about
// 4r: the reduction of the little-endian value subtracts r up to four times), at the 64-bit limb boundaries
// and next to 0 and p; for every target the nearest 3 values above and below that are x/y of some element.
func c11Boundaries(ctx *core.Ctx, r *core.Result) {
	needRef()
	var targets []*big.Int
	for k := int64(1); k <= 4; k++ {
		kr := new(big.Int).Mul(ref.R, big.NewInt(k))
		if kr.Cmp(ref.P) < 0 {
			targets = append(targets, kr)
		}
	}
	for _, e := range []uint{64, 128, 192, 252, 253, 254} {
		targets = append(targets, pow2(e))
	}
	targets = append(targets, big.NewInt(0), new(big.Int).Set(ref.P))
	// r-aligned values whose low part is tiny compared with a limb (k*r - d with d < 2^188 leaves the top limb of
	// the reduced value equal to r's top limb)
	for k := int64(1); k <= 4; k++ {
		for _, e := range []uint{64, 128, 187, 189} {
			targets = append(targets, new(big.Int).Sub(new(big.Int).Mul(ref.R, big.NewInt(k)), pow2(e)))
		}
	}
	per := 3
	if ctx.Thorough() {
		per = 12
	}
	seen := map[string]bool{}
	for _, t := range targets {
		for _, dir := range []int64{1, -1} {
			found := 0
			for d := int64(0); d < 400 && found < per; d++ {
				v := new(big.Int).Add(t, big.NewInt(dir*d))
				if v.Sign() < 0 || v.Cmp(ref.P) >= 0 || seen[v.Text(16)] {
					continue
				}
				pt, ok := elementWithRatio(v)
				if !ok {
					continue
				}
				seen[v.Text(16)] = true
				found++
				want := ref.MapToField(pt)
				if ref.MulP(pt.X, ref.InvP(pt.Y)).Cmp(v) != 0 {
					r.ToolError = "elementWithRatio built an element with another ratio"
					return
				}
				for rep := 0; rep < nRepr; rep++ {
					e := reprOf(elFromRef(pt), rep)
					in := fmt.Sprintf("element with x/y = %s (target %s%+d), representation %d", v.Text(16), t.Text(16), dir*d, rep)
					got := dirtyFr()
					if !guard(r, "c11.panic", "banderwagon.Element.MapToScalarField", in, func() { e.MapToScalarField(&got) }) {
						continue
					}
					r.Evals++
					r.Nontrivial++
					if frToBig(got).Cmp(want) != 0 {
						vio(r, "c11.value", "banderwagon.Element.MapToScalarField", in, "LE(x/y) mod r = "+want.Text(16), frToBig(got).Text(16))
					}
					b := dirtyFr()
					res := []*fr.Element{&b}
					var err error
					if guard(r, "c11.panic", "banderwagon.BatchMapToScalarField", in, func() { err = banderwagon.BatchMapToScalarField(res, []*banderwagon.Element{&e}) }) {
						if err != nil || frToBig(b).Cmp(want) != 0 {
							vio(r, "c11.batch", "banderwagon.BatchMapToScalarField", in, "LE(x/y) mod r = "+want.Text(16), fmt.Sprint(frToBig(b).Text(16), " err=", err))
						}
					}
				}
			}
		}
	}
	r.Sample(map[string]interface{}{"targets": len(targets), "constructed_elements": len(seen)})
}
