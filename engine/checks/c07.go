package checks

import (
	"bytes"
	"fmt"
	"github.com/crate-crypto/go-ipa/common"
	"github.com/crate-crypto/go-ipa/zzverif/vsched"
	"io"
	"math/big"
	"testing/iotest"

	"github.com/crate-crypto/go-ipa/bandersnatch"
	"github.com/crate-crypto/go-ipa/bandersnatch/fr"
	"github.com/crate-crypto/go-ipa/banderwagon"
	"github.com/crate-crypto/go-ipa/ipa"
	"verif.local/engine/core"
	"verif.local/engine/ref"
)

// C07 / C11 — explicit-state search over a two-register machine of group elements.

type regState struct {
	e [2]banderwagon.Element // implementation registers (concrete representation)
	p [2]ref.Pt              // reference value of each register
}

func (s *regState) key() string {
	var b []byte
	for i := 0; i < 2; i++ {
		in := banderwagon.VerifInner(&s.e[i])
		for _, c := range [][4]uint64{in.X, in.Y, in.Z} {
			for _, l := range c {
				b = append(b, byte(l), byte(l>>8), byte(l>>16), byte(l>>24), byte(l>>32), byte(l>>40), byte(l>>48), byte(l>>56))
			}
		}
	}
	return string(b)
}

type regOp struct {
	name string
	f    func(c *ipa.IPAConfig, s *regState) // applies the real API operation and the reference operation
}

func regMenu(seed int64) []regOp {
	lam := lambdaGLV
	rm1 := new(big.Int).Sub(bigR, bi(1))
	s1, t1 := prfR(seed, "c07s", 0), prfR(seed, "c07t", 0)
	var ops []regOp
	add := func(name string, f func(c *ipa.IPAConfig, s *regState)) { ops = append(ops, regOp{name, f}) }
	add("r0:=Add(r0,r1)", func(c *ipa.IPAConfig, s *regState) { s.e[0].Add(&s.e[0], &s.e[1]); s.p[0] = ref.Add(s.p[0], s.p[1]) })
	add("r1:=Add(r0,r1)", func(c *ipa.IPAConfig, s *regState) { s.e[1].Add(&s.e[0], &s.e[1]); s.p[1] = ref.Add(s.p[0], s.p[1]) })
	add("r0:=Sub(r0,r1)", func(c *ipa.IPAConfig, s *regState) { s.e[0].Sub(&s.e[0], &s.e[1]); s.p[0] = ref.Sub(s.p[0], s.p[1]) })
	add("r1:=Sub(r1,r0)", func(c *ipa.IPAConfig, s *regState) { s.e[1].Sub(&s.e[1], &s.e[0]); s.p[1] = ref.Sub(s.p[1], s.p[0]) })
	add("r0:=Double(r0)", func(c *ipa.IPAConfig, s *regState) { s.e[0].Double(&s.e[0]); s.p[0] = ref.Add(s.p[0], s.p[0]) })
	add("r1:=Double(r1)", func(c *ipa.IPAConfig, s *regState) { s.e[1].Double(&s.e[1]); s.p[1] = ref.Add(s.p[1], s.p[1]) })
	add("r0:=Neg(r0)", func(c *ipa.IPAConfig, s *regState) { s.e[0].Neg(&s.e[0]); s.p[0] = ref.Neg(s.p[0]) })
	add("r1:=Neg(r1)", func(c *ipa.IPAConfig, s *regState) { s.e[1].Neg(&s.e[1]); s.p[1] = ref.Neg(s.p[1]) })
	for _, k := range []*big.Int{bi(0), bi(2), bi(3), rm1, lam} {
		k := k
		ke := frFromBig(k)
		add("r0:=ScalarMul(r0,"+clipHex(k)+")", func(c *ipa.IPAConfig, s *regState) { s.e[0].ScalarMul(&s.e[0], &ke); s.p[0] = ref.Mul(s.p[0], k) })
	}
	three := frFromBig(bi(3))
	add("r1:=ScalarMul(r0,3)", func(c *ipa.IPAConfig, s *regState) {
		s.e[1].ScalarMul(&s.e[0], &three)
		s.p[1] = ref.Mul(s.p[0], bi(3))
	})
	add("Normalize(r0)", func(c *ipa.IPAConfig, s *regState) {
		if err := s.e[0].Normalize(); err != nil {
			panic(core.ImplFault{API: "Normalize", Input: "valid element(s) of the register machine", Got: "error: " + err.Error()})
		}
	})
	add("BatchNormalize([r0,r1])", func(c *ipa.IPAConfig, s *regState) {
		if err := banderwagon.BatchNormalize([]*banderwagon.Element{&s.e[0], &s.e[1]}); err != nil {
			panic(core.ImplFault{API: "BatchNormalize", Input: "valid element(s) of the register machine", Got: "error: " + err.Error()})
		}
	})
	add("BatchNormalize([r0,r1,r0,r1,r0])", func(c *ipa.IPAConfig, s *regState) {
		if err := banderwagon.BatchNormalize([]*banderwagon.Element{&s.e[0], &s.e[1], &s.e[0], &s.e[1], &s.e[0]}); err != nil {
			panic(core.ImplFault{API: "BatchNormalize", Input: "valid element(s) of the register machine", Got: "error: " + err.Error()})
		}
	})
	t2 := bandersnatch.PointAffine{X: fpFromBig(bi(0)), Y: fpFromBig(new(big.Int).Sub(bigP, bi(1)))}
	add("r0:=AddMixed(r0,(0,-1))", func(c *ipa.IPAConfig, s *regState) { s.e[0].AddMixed(&s.e[0], t2); s.p[0] = ref.Add(s.p[0], ref.T2()) })
	add("rescale r1 by mu", func(c *ipa.IPAConfig, s *regState) {
		p := elToRef(&s.e[1])
		s.e[1] = elFromRef(ref.Pt{X: ref.MulP(p.X, muScale), Y: ref.MulP(p.Y, muScale), Z: ref.MulP(p.Z, muScale)})
	})
	add("r0:=Generator", func(c *ipa.IPAConfig, s *regState) { s.e[0] = banderwagon.Generator; s.p[0] = ref.Gen() })
	add("r1:=Identity", func(c *ipa.IPAConfig, s *regState) { s.e[1].SetIdentity(); s.p[1] = ref.Identity() })
	add("r1:=SRS[0]", func(c *ipa.IPAConfig, s *regState) { s.e[1] = c.SRS[0]; s.p[1] = ref.SRS()[0] })
	add("r0:=SRS[255]", func(c *ipa.IPAConfig, s *regState) { s.e[0].Set(&c.SRS[255]); s.p[0] = ref.SRS()[255] })
	add("r0:=SetBytes(Bytes(r0))", func(c *ipa.IPAConfig, s *regState) {
		b := s.e[0].Bytes()
		var e banderwagon.Element
		if err := e.SetBytes(b[:]); err != nil {
			panic(core.ImplFault{API: "decode(encode)", Input: "valid element(s) of the register machine", Got: "error: " + err.Error()})
		}
		s.e[0] = e
	})
	add("r1:=SetBytes(Bytes(r0)) after an earlier decode of the same bytes whose result the caller then doubled in place", func(c *ipa.IPAConfig, s *regState) {
		b := s.e[0].Bytes()
		var t, u banderwagon.Element
		if err := t.SetBytes(b[:]); err != nil {
			panic(core.ImplFault{API: "decode(encode)", Input: "valid element(s) of the register machine", Got: "error: " + err.Error()})
		}
		t.Double(&t) // the caller's own variable: what it holds now is nobody else's business
		if err := u.SetBytes(b[:]); err != nil {
			panic(core.ImplFault{API: "decode(encode)", Input: "valid element(s) of the register machine", Got: "error: " + err.Error()})
		}
		s.e[1] = u
		s.p[1] = s.p[0]
	})
	add("r1:=SetBytesUncompressed(BytesUncompressedTrusted(r1),trusted)", func(c *ipa.IPAConfig, s *regState) {
		b := s.e[1].BytesUncompressedTrusted()
		var e banderwagon.Element
		if err := e.SetBytesUncompressed(b[:], true); err != nil {
			panic(core.ImplFault{API: "trusted uncompressed decode", Input: "valid element(s) of the register machine", Got: "error: " + err.Error()})
		}
		s.e[1] = e
	})
	se, te := frFromBig(s1), frFromBig(t1)
	add("r0:=MultiScalar([r0,r1],[s,t])", func(c *ipa.IPAConfig, s *regState) {
		res, err := ipa.MultiScalar([]banderwagon.Element{s.e[0], s.e[1]}, []fr.Element{se, te})
		if err != nil {
			panic(core.ImplFault{API: "MultiScalar", Input: "valid element(s) of the register machine", Got: "error: " + err.Error()})
		}
		s.e[0] = res
		s.p[0] = ref.Add(ref.Mul(s.p[0], s1), ref.Mul(s.p[1], t1))
	})
	add("r0:=MultiExp([r0],[t],NbTasks=65)", func(c *ipa.IPAConfig, s *regState) {
		var acc banderwagon.Element
		out, err := acc.MultiExp([]banderwagon.Element{s.e[0]}, []fr.Element{te}, banderwagon.MultiExpConfig{NbTasks: 65, ScalarsMont: true})
		if err != nil {
			panic(core.ImplFault{API: "MultiExp", Input: "valid element(s) of the register machine", Got: "error: " + err.Error()})
		}
		s.e[0] = *out
		s.p[0] = ref.Mul(s.p[0], t1)
	})
	add("r1:=MultiExp([r0,r1],[0,0]) into a zero-valued receiver", func(c *ipa.IPAConfig, s *regState) {
		var acc banderwagon.Element // never initialised by the caller: MultiExp must set it completely
		out, err := acc.MultiExp([]banderwagon.Element{s.e[0], s.e[1]}, []fr.Element{{}, {}}, banderwagon.MultiExpConfig{NbTasks: 2, ScalarsMont: true})
		if err != nil {
			panic(core.ImplFault{API: "MultiExp", Input: "valid element(s) of the register machine", Got: "error: " + err.Error()})
		}
		s.e[1] = *out
		s.p[1] = ref.Identity()
	})
	add("r1:=Commit(s*e_3)", func(c *ipa.IPAConfig, s *regState) {
		v := make([]fr.Element, 4)
		v[3] = se
		s.e[1] = c.Commit(v)
		s.p[1] = ref.Mul(ref.SRS()[3], s1)
	})
	add("r0:=Commit(t*e_200)+r0", func(c *ipa.IPAConfig, s *regState) {
		v := make([]fr.Element, 201)
		v[200] = te
		cm := c.Commit(v)
		s.e[0].Add(&cm, &s.e[0])
		s.p[0] = ref.Add(ref.Mul(ref.SRS()[200], t1), s.p[0])
	})
	return ops
}

type regInv func(r *core.Result, s *regState, hist string)

type regSearch struct {
	r      *core.Result
	ops    []regOp
	seen   map[string]bool
	inv    regInv
	nTrans int64
}

// bfs explores all operation sequences of length <= depth from start, de-duplicating on the exact
// concrete-limb key; the invariant is evaluated in every distinct state.
func (q *regSearch) bfs(c *ipa.IPAConfig, start regState, hist0 string, depth int) {
	type item struct {
		s    regState
		hist string
		d    int
	}
	frontier := []item{{start, hist0, 0}}
	if k := start.key(); !q.seen[k] {
		q.seen[k] = true
		q.inv(q.r, &start, hist0)
	}
	for len(frontier) > 0 {
		it := frontier[0]
		frontier = frontier[1:]
		if it.d >= depth {
			continue
		}
		for _, op := range q.ops {
			ns := it.s
			hist := it.hist + "; " + op.name
			if !guard(q.r, "c07.panic", op.name, hist, func() { op.f(c, &ns) }) {
				continue
			}
			q.nTrans++
			k := ns.key()
			if q.seen[k] {
				continue
			}
			q.seen[k] = true
			q.inv(q.r, &ns, hist)
			frontier = append(frontier, item{ns, hist, it.d + 1})
		}
	}
}

// ---------- C07 invariant ----------

type c07roll struct {
	byBytes map[[32]byte]ref.Pt
	prev    *banderwagon.Element
}

func c07Invariant(roll *c07roll) regInv {
	var zero banderwagon.Element
	return func(r *core.Result, s *regState, hist string) {
		r.Evals++
		var by [2][32]byte
		for i := 0; i < 2; i++ {
			e := s.e[i]
			by[i] = e.Bytes()
			want := ref.Compress(s.p[i])
			reg := fmt.Sprintf("r%d", i)
			if msg := validSame(&e, s.p[i]); msg != "" {
				vio(r, "c07.value", "history", hist, reg+" = "+affStr(s.p[i]), msg)
				continue
			}
			if by[i] != want {
				vio(r, "c07.bytes", "banderwagon.Element.Bytes", hist, reg+".Bytes() = "+hx(want[:]), hx(by[i][:])+" ("+elString(&e)+")")
			}
			if eb := banderwagon.ElementsToBytes(&e); eb[0] != want {
				vio(r, "c07.bytes", "banderwagon.ElementsToBytes", hist, reg+" -> "+hx(want[:]), hx(eb[0][:]))
			}
			var d banderwagon.Element
			if err := d.SetBytes(by[i][:]); err != nil {
				vio(r, "c07.decode", "banderwagon.Element.SetBytes", hist, "decoding "+reg+".Bytes() succeeds", err.Error())
			} else if !d.Equal(&e) || !e.Equal(&d) {
				vio(r, "c07.decode", "banderwagon.Element.SetBytes", hist, "SetBytes("+reg+".Bytes()) Equal "+reg, "not Equal")
			} else {
				// the decoded variable belongs to the caller: after the caller has changed it in place, decoding
				// the same bytes again (into another variable) still gives the element
				d.Double(&d)
				d.Add(&d, &banderwagon.Generator)
				var d2 banderwagon.Element
				if err := d2.SetBytes(by[i][:]); err != nil || !d2.Equal(&e) || d2.Bytes() != by[i] {
					vio(r, "c07.decode", "banderwagon.Element.SetBytes", hist, "SetBytes("+reg+".Bytes()) again, after the caller changed the first decoded variable in place, is Equal "+reg, fmt.Sprintf("err=%v, %s", err, elString(&d2)))
				}
			}
			if !e.Equal(&e) {
				vio(r, "c07.equal", "banderwagon.Element.Equal", hist, reg+" Equal itself", "false")
			}
			z2 := zero
			if zero.Equal(&zero) || zero.Equal(&z2) {
				vio(r, "c07.equal", "banderwagon.Element.Equal", hist, "the all-zero value is not Equal to anything, itself included", "true")
			}
			if e.Equal(&zero) || zero.Equal(&e) {
				vio(r, "c07.equal", "banderwagon.Element.Equal", hist, "never Equal to the all-zero value", "true")
			}
			// path independence: a previously seen state with the same bytes must be the same class, and vice versa
			if p, ok := roll.byBytes[by[i]]; ok {
				if !ref.SameClass(p, s.p[i]) {
					vio(r, "c07.injective", "banderwagon.Element.Bytes", hist, "equal bytes only for equal group elements", hx(by[i][:])+" seen for another element")
				}
			} else {
				roll.byBytes[by[i]] = s.p[i]
			}
		}
		same := ref.SameClass(s.p[0], s.p[1])
		e0, e1 := s.e[0], s.e[1]
		if got := e0.Equal(&e1); got != same {
			vio(r, "c07.equal", "banderwagon.Element.Equal", hist, fmt.Sprintf("r0.Equal(r1) = %v", same), fmt.Sprint(got))
		}
		if got := e1.Equal(&e0); got != same {
			vio(r, "c07.equal", "banderwagon.Element.Equal", hist, fmt.Sprintf("r1.Equal(r0) = %v (symmetry)", same), fmt.Sprint(got))
		}
		if (by[0] == by[1]) != same {
			vio(r, "c07.bytes", "banderwagon.Element.Bytes", hist, fmt.Sprintf("equal bytes = %v", same), fmt.Sprintf("%x / %x", by[0], by[1]))
		}
		if same {
			r.Nontrivial++
		}
		// transitivity on the triple (previous state's r0, r0, r1)
		if roll.prev != nil {
			a := *roll.prev
			if a.Equal(&e0) && e0.Equal(&e1) && !a.Equal(&e1) {
				vio(r, "c07.equal", "banderwagon.Element.Equal", hist, "transitive", "a=b, b=c but a!=c")
			}
		}
		pe := e0
		roll.prev = &pe
	}
}

func regUnits(id string, mkInv func() regInv, depthQuick, depthThorough int) func(ctx *core.Ctx) []core.Unit {
	return func(ctx *core.Ctx) []core.Unit {
		var us []core.Unit
		depth := depthQuick
		if ctx.Thorough() {
			depth = depthThorough
		}
		n := len(regMenu(ctx.Seed))
		for first := 0; first < n; first++ {
			first := first
			us = append(us, core.Unit{Name: fmt.Sprintf("BFS depth %d, first operation #%d", depth, first), Run: func(ctx *core.Ctx, r *core.Result) {
				needRef()
				c := conf()
				ops := regMenu(ctx.Seed)
				start := regState{e: [2]banderwagon.Element{banderwagon.Generator, c.SRS[1]}, p: [2]ref.Pt{ref.Gen(), ref.SRS()[1]}}
				q := &regSearch{r: r, ops: ops, seen: map[string]bool{}, inv: mkInv()}
				hist := "r0=G, r1=SRS[1]; " + ops[first].name
				s1 := start
				if !guard(r, "c07.panic", ops[first].name, hist, func() { ops[first].f(c, &s1) }) {
					return
				}
				q.nTrans++
				q.bfs(c, s1, hist, depth-1)
				r.States = int64(len(q.seen))
				r.Transitions = q.nTrans
				r.Traces = q.nTrans
				if r.Nontrivial == 0 {
					r.Nontrivial = int64(len(q.seen))
				}
				r.Sample(map[string]interface{}{"history": hist + "; r0:=MultiScalar([r0,r1],[s,t]); rescale r1 by mu", "menu": len(ops), "depth": depth, "distinct_states": len(q.seen)})
			}})
		}
		return us
	}
}

func init() {
	core.Register(&core.Check{
		ID: "C07", Level: "model_checking",
		Rule:   "explicit-state breadth-first search over a two-register machine of group elements: 31 operations (Add/Sub/Double/Neg in aliased forms, ScalarMul by {0,2,3,r-1,lambda}, Normalize, BatchNormalize, AddMixed with (0,-1) (class flip), projective rescaling, constants, decode(encode), trusted uncompressed round trip, MultiScalar, MultiExp incl. all-zero scalars into an uninitialised receiver, table-based Commit), ALL sequences up to depth 3 (5 thorough) from (G, SRS[1]), states de-duplicated on the exact concrete limbs of both registers; in every distinct state: Bytes = reference class bytes (also via ElementsToBytes), Equal(r0,r1) <=> same reference class <=> equal bytes, symmetry/reflexivity/transitivity, decode(Bytes) Equal, never Equal to the all-zero value, and path independence against all previously seen states; non-trivial = states whose registers hold the same class in different representations",
		Assume: []string{"reference class = independent math/big group law applied along the same history", "state key = exact limbs (no abstraction); the bound is the depth"},
		Units: func(ctx *core.Ctx) []core.Unit {
			us := regUnits("C07", func() regInv { return c07Invariant(&c07roll{byBytes: map[[32]byte]ref.Pt{}}) }, 3, 5)(ctx)
			return append(us, core.Unit{Name: "batch encodings of 255..4096 elements, and of batches containing a zero-valued entry, equal the single encodings", Run: c07Batches})
		},
	})
}

// c07Batches: ElementsToBytes / BatchToBytesUncompressed on large batches (where an implementation may
// switch strategy) and on batches that contain one value which is not a group element: every valid entry
// must be encoded exactly as by its own Bytes().
func c07Batches(ctx *core.Ctx, r *core.Result) {
	needRef()
	c := conf()
	for _, L := range []int{255, 256, 257, 300, 1024, 4096} {
		store := make([]banderwagon.Element, L)
		ptrs := make([]*banderwagon.Element, L)
		for i := range store {
			store[i] = reprOf(c.SRS[(i*7+L)%256], i%nRepr)
			ptrs[i] = &store[i]
		}
		for round := 0; round < 3; round++ {
			var cb [][32]byte
			var ub [][64]byte
			in := fmt.Sprintf("batch of %d elements (round %d)", L, round)
			if !timed(r, "c07.panic", "banderwagon.ElementsToBytes / BatchToBytesUncompressed", in, func() {
				cb = banderwagon.ElementsToBytes(ptrs...)
				ub = banderwagon.BatchToBytesUncompressed(ptrs...)
			}) {
				break
			}
			r.Evals++
			r.Nontrivial++
			if len(cb) != L || len(ub) != L {
				vio(r, "c07.batch", "banderwagon.ElementsToBytes", in, fmt.Sprint(L, " encodings"), fmt.Sprint(len(cb), " and ", len(ub)))
				break
			}
			for i := range store {
				want := ref.Compress(ref.SRS()[(i*7+L)%256])
				if cb[i] != want || store[i].Bytes() != want {
					vio(r, "c07.batch", "banderwagon.ElementsToBytes", in, fmt.Sprintf("[%d] = reference encoding %x", i, want), fmt.Sprintf("batch %x, single %x", cb[i], store[i].Bytes()))
					break
				}
				if u := store[i].BytesUncompressedTrusted(); ub[i] != u {
					vio(r, "c07.batch", "banderwagon.BatchToBytesUncompressed", in, fmt.Sprintf("[%d] = BytesUncompressedTrusted() = %x", i, u), fmt.Sprintf("%x", ub[i]))
					break
				}
			}
		}
	}
	// BatchNormalize of batches whose size is not a multiple of the worker count, against the reference
	if vsched.Instrumented {
		defer vsched.SetNumCPU(0)
	}
	for _, cfg := range [][2]int{{73, 16}, {300, 16}, {300, 7}, {17, 3}, {1000, 0}} {
		L, cpu := cfg[0], cfg[1]
		if vsched.Instrumented {
			vsched.SetNumCPU(cpu)
		}
		store := make([]banderwagon.Element, L)
		ptrs := make([]*banderwagon.Element, L)
		for i := range store {
			store[i] = reprOf(c.SRS[(i*7+L)%256], 1+i%3)
			ptrs[i] = &store[i]
		}
		in := fmt.Sprintf("BatchNormalize of %d elements, NumCPU=%d", L, cpu)
		var err error
		if !timed(r, "c07.panic", "banderwagon.BatchNormalize", in, func() { err = banderwagon.BatchNormalize(ptrs) }) {
			break
		}
		r.Evals++
		r.Nontrivial++
		if err != nil {
			vio(r, "c07.batch", "banderwagon.BatchNormalize", in, "success", err.Error())
			continue
		}
		for i := range store {
			want := ref.Compress(ref.SRS()[(i*7+L)%256])
			var d banderwagon.Element
			derr := d.SetBytes(want[:])
			if store[i].Bytes() != want || derr != nil || !d.Equal(&store[i]) || !store[i].IsOnCurve() {
				vio(r, "c07.batch", "banderwagon.BatchNormalize", in, fmt.Sprintf("element %d is still the same group element (on the curve, bytes %x)", i, want), elString(&store[i]))
				break
			}
		}
	}
	if vsched.Instrumented {
		vsched.SetNumCPU(0)
	}
	// ReadPoint from readers that deliver the 32 bytes in pieces or together with io.EOF
	for i := 0; i < 6; i++ {
		want := ref.Compress(ref.SRS()[i])
		for _, mode := range []string{"one byte per call", "half of the request per call", "data together with io.EOF"} {
			var rd io.Reader = bytes.NewReader(want[:])
			switch mode {
			case "one byte per call":
				rd = iotest.OneByteReader(rd)
			case "half of the request per call":
				rd = iotest.HalfReader(rd)
			default:
				rd = iotest.DataErrReader(rd)
			}
			in := fmt.Sprintf("ReadPoint of the encoding of SRS[%d], reader: %s", i, mode)
			var e *banderwagon.Element
			var err error
			if !guard(r, "c07.panic", "common.ReadPoint", in, func() { e, err = common.ReadPoint(rd) }) {
				continue
			}
			r.Evals++
			r.Nontrivial++
			if err != nil || e == nil || e.Bytes() != want {
				vio(r, "c07.decode", "common.ReadPoint", in, fmt.Sprintf("the element with bytes %x", want), fmt.Sprintf("err=%v", err))
			}
		}
	}
	// one entry that is not a group element (the zero value of the type), at every position of a batch of 4
	for pos := 0; pos < 4; pos++ {
		var zero banderwagon.Element
		vals := []banderwagon.Element{reprOf(c.SRS[3], reprProj), c.SRS[4], reprOf(c.SRS[5], reprProjFlip), c.SRS[6]}
		ptrs := make([]*banderwagon.Element, 4)
		for i := range ptrs {
			ptrs[i] = &vals[i]
		}
		ptrs[pos] = &zero
		in := fmt.Sprintf("batch of 4 with a zero-valued Element at position %d", pos)
		var cb [][32]byte
		if !guard(r, "c07.panic", "banderwagon.ElementsToBytes", in, func() { cb = banderwagon.ElementsToBytes(ptrs...) }) || len(cb) != 4 {
			continue
		}
		r.Evals++
		r.Nontrivial++
		for i := range ptrs {
			if i != pos && cb[i] != vals[i].Bytes() {
				vio(r, "c07.batch", "banderwagon.ElementsToBytes", in, fmt.Sprintf("[%d] = Bytes() = %x (the encoding of a valid entry does not depend on the other entries)", i, vals[i].Bytes()), fmt.Sprintf("%x", cb[i]))
			}
		}
	}
}
