package checks

import (
	"bytes"
	"fmt"
	"math/big"
	"sync"

	multiproof "github.com/crate-crypto/go-ipa"
	"github.com/crate-crypto/go-ipa/bandersnatch/fr"
	"github.com/crate-crypto/go-ipa/banderwagon"
	"github.com/crate-crypto/go-ipa/common"
	"github.com/crate-crypto/go-ipa/ipa"
	"verif.local/engine/ref"
)

// stmt is an opening statement in reference terms.
type stmt struct {
	label string
	polys []namedPoly // f_i
	zs    []int
	reprs []int // representation of each commitment handed to the prover (nil = all normalised)
	share []int // pointer-sharing: openings with the same share id (>0) and the same polynomial share one *Element
}

func (s stmt) String() string {
	d := fmt.Sprintf("label=%q n=%d zs=%v polys=[", s.label, len(s.zs), clipInts(s.zs))
	for i, p := range s.polys {
		if i >= 6 {
			d += "…"
			break
		}
		d += p.Name + " "
	}
	d += "]"
	if s.reprs != nil {
		d += fmt.Sprintf(" reprs=%v", clipInts(s.reprs))
	}
	if s.share != nil {
		d += fmt.Sprintf(" share=%v", clipInts(s.share))
	}
	return d
}

func clipInts(v []int) string {
	if len(v) <= 12 {
		return fmt.Sprint(v)
	}
	return fmt.Sprintf("%v…(%d)", v[:12], len(v))
}

type implStmt struct {
	Cs []*banderwagon.Element
	fs [][]fr.Element
	zs []uint8
	ys []*fr.Element
}

// commitCache: commitments of the alphabet polynomials (per worker).
var (
	commitCache   = map[string]banderwagon.Element{}
	commitCacheMu sync.Mutex
)

func commitOf(c *ipa.IPAConfig, p namedPoly) banderwagon.Element {
	commitCacheMu.Lock()
	e, ok := commitCache[p.Name]
	commitCacheMu.Unlock()
	if ok {
		return e
	}
	e = c.Commit(frsFromBig(p.V))
	commitCacheMu.Lock()
	commitCache[p.Name] = e
	commitCacheMu.Unlock()
	return e
}

func (s stmt) build(c *ipa.IPAConfig) implStmt {
	var is implStmt
	shared := map[string]*banderwagon.Element{}
	for i := range s.zs {
		e := commitOf(c, s.polys[i])
		if s.reprs != nil {
			e = reprOf(e, s.reprs[i])
		}
		ptr := &e
		if s.share != nil && s.share[i] > 0 {
			key := fmt.Sprintf("%d/%s", s.share[i], s.polys[i].Name)
			if p, ok := shared[key]; ok {
				ptr = p
			} else {
				shared[key] = ptr
			}
		}
		is.Cs = append(is.Cs, ptr)
		is.fs = append(is.fs, frsFromBig(s.polys[i].V))
		is.zs = append(is.zs, uint8(s.zs[i]))
		y := frFromBig(s.polys[i].V[s.zs[i]])
		is.ys = append(is.ys, &y)
	}
	return is
}

func proofBytes(p *multiproof.MultiProof) []byte {
	var b bytes.Buffer
	if err := p.Write(&b); err != nil {
		return []byte("write error: " + err.Error())
	}
	return b.Bytes()
}

func ipaProofBytes(p *ipa.IPAProof) []byte {
	var b bytes.Buffer
	if err := p.Write(&b); err != nil {
		return []byte("write error: " + err.Error())
	}
	return b.Bytes()
}

// refStmt: reference-side objects of a statement.
func (s stmt) refObjs() (Cs []ref.Pt, fs [][]*big.Int, ys []*big.Int) {
	srs := ref.SRS()
	cache := map[string]ref.Pt{}
	for i := range s.zs {
		p := s.polys[i]
		c, ok := cache[p.Name]
		if !ok {
			c = refCommitCached(srs, p)
			cache[p.Name] = c
		}
		Cs = append(Cs, c)
		fs = append(fs, p.V)
		ys = append(ys, p.V[s.zs[i]])
	}
	return
}

var refCommitCache = map[string]ref.Pt{}

func refCommitCached(srs []ref.Pt, p namedPoly) ref.Pt {
	if c, ok := refCommitCache[p.Name]; ok {
		return c
	}
	c := ref.Commit(srs, p.V)
	refCommitCache[p.Name] = c
	return c
}

func refIPAProof(p ipa.IPAProof) ref.IPAProof {
	var rp ref.IPAProof
	for i := range p.L {
		rp.L = append(rp.L, elToRef(&p.L[i]))
	}
	for i := range p.R {
		rp.R = append(rp.R, elToRef(&p.R[i]))
	}
	rp.A = frToBig(p.A_scalar)
	return rp
}

// proveVerify runs the honest prover and verifier on fresh transcripts; returns the proof, the verdict and
// whether prover and verifier transcripts agree on the next challenge.
func proveVerify(c *ipa.IPAConfig, s stmt) (proof *multiproof.MultiProof, is implStmt, ok bool, perr, verr error, sameNext bool) {
	is = s.build(c)
	tp := common.NewTranscript(s.label)
	proof, perr = multiproof.CreateMultiProof(tp, c, is.Cs, is.fs, is.zs)
	if perr != nil {
		return
	}
	tv := common.NewTranscript(s.label)
	ok, verr = multiproof.CheckMultiProof(tv, c, proof, is.Cs, is.ys, is.zs)
	a := tp.ChallengeScalar([]byte("next"))
	b := tv.ChallengeScalar([]byte("next"))
	sameNext = a.Equal(&b)
	return
}
