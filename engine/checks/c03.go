package checks

import (
	"crypto/sha256"
	"fmt"
	"math/big"
	"os"
	"os/exec"
	"runtime"
	"strings"

	multiproof "github.com/crate-crypto/go-ipa"
	"github.com/crate-crypto/go-ipa/bandersnatch/fr"
	"github.com/crate-crypto/go-ipa/banderwagon"
	"github.com/crate-crypto/go-ipa/common"
	"github.com/crate-crypto/go-ipa/ipa"
	"github.com/crate-crypto/go-ipa/zzverif/vsched"
	"verif.local/engine/core"
	"verif.local/engine/explore"
	"verif.local/engine/ref"
)

// C03 — proof bytes are a deterministic, spec-conformant function of the inputs.

func c03Statements(seed int64, thorough bool) []stmt {
	polys := polyAlphabet(seed)
	p := func(i int) namedPoly { return pick(polys, i) }
	var out []stmt
	add := func(label string, zs []int, pi ...int) {
		s := stmt{label: label, zs: zs}
		for _, k := range pi {
			s.polys = append(s.polys, p(k))
		}
		out = append(out, s)
	}
	// simplest first: n = 1 over Z5, then n = 2, n = 3
	for i, z := range z5 {
		add("vt", []int{z}, 10+i)
	}
	k := 0
	for _, a := range z5 {
		for _, b := range z5 {
			k++
			if thorough || k%3 == 0 {
				add("vt", []int{a, b}, k, k+5)
			}
		}
	}
	k = 0
	for _, a := range z5 {
		for _, b := range z5 {
			for _, c := range z5 {
				k++
				if (thorough && k%2 == 0) || k%16 == 0 {
					add("vt", []int{a, b, c}, k, k+3, k+7)
				}
			}
		}
	}
	add("", []int{200, 3}, 12, 13)
	// single openings of monomials X^k at 0 (and at 1): the quotient X^(k-1) has evaluations i^(k-1) of up to
	// 64, 128 and 192 bits — short scalars whose top window is above half the window range reach the table MSM
	for _, k := range []int{9, 17, 25} {
		v := make([]*big.Int, 256)
		for i := range v {
			v[i] = new(big.Int).Exp(bi(int64(i)), bi(int64(k)), bigR)
		}
		mono := namedPoly{fmt.Sprintf("x^%d", k), v}
		out = append(out, stmt{label: "vt", zs: []int{0}, polys: []namedPoly{mono}})
		if thorough {
			out = append(out, stmt{label: "vt", zs: []int{1}, polys: []namedPoly{mono}})
		}
	}
	// the same commitment opened at several, non-adjacent positions (the unit also hands them in as ONE
	// shared pointer in a projective representation)
	add("vt", []int{1, 2, 3}, 12, 13, 12)
	add("vt", []int{1, 2, 3, 1}, 12, 12, 13, 12)
	add("vt", []int{5, 6, 5, 6, 7}, 12, 13, 12, 13, 10)
	add("multiproof", []int{77, 77, 78, 200}, 8, 10, 11, 12)
	// more openings than 1024 pending transcript bytes (n >= 11) and more than the worker count
	sz := []int{11, 17, 1025} // 1025: one more than an internal chunk of 1024 powers of the challenge
	if thorough {
		sz = append(sz, 12, 16, 33, 40, 257, 2049)
	}
	for _, n := range sz {
		s := stmt{label: "vt"}
		for i := 0; i < n; i++ {
			s.zs = append(s.zs, (i*37+n)%256)
			s.polys = append(s.polys, p(i*3+n))
		}
		out = append(out, s)
	}
	return out
}

func implProofBytes(c *ipa.IPAConfig, s stmt) (bytes []byte, next string, err error) {
	is := s.build(c)
	tr := common.NewTranscript(s.label)
	proof, err := multiproof.CreateMultiProof(tr, c, is.Cs, is.fs, is.zs)
	if err != nil {
		return nil, "", err
	}
	ch := tr.ChallengeScalar([]byte("state"))
	return proofBytes(proof), frToBig(ch).Text(16), nil
}

// c03Probe: digest of the proof bytes of a fixed statement list (used to compare process-level configurations).
func c03Probe(seed int64) string {
	c := conf()
	h := sha256.New()
	for _, s := range c03Statements(seed, false)[:14] {
		b, next, err := implProofBytes(c, s)
		if err != nil {
			h.Write([]byte(err.Error()))
		}
		h.Write(b)
		h.Write([]byte(next))
	}
	polys := polyAlphabet(seed)
	a := frsFromBig(polys[12].V)
	pr, _ := ipa.CreateIPAProof(common.NewTranscript("ipa"), c, c.Commit(a), a, frFromBig(bi(300)))
	h.Write(ipaProofBytes(&pr))
	return fmt.Sprintf("%x", h.Sum(nil))
}

func init() {
	core.Register(&core.Check{
		ID: "C03", Level: "exploration",
		Rule:   "(a) statements drawn simplest-first from the C01 sweeps (all n=1 over Z5, a third of n=2, a sixteenth of n=3 — all/half thorough —, labels, n=11 and 17 openings crossing 1024 pending transcript bytes and the worker count) + IPA proofs at in/out-of-domain points: serialized bytes and the post-proof challenge must equal the reference prover's; (b) each statement re-proved under NumCPU override {1,2,3,16,17,64,300}, every representation of the commitments, after unrelated earlier calls, and in child processes under real CPU affinity {1,2,3,4,8,16} and GOMAXPROCS {1,2,4,16}: bytes identical; (c) ALL schedules (DPOR, unbounded) of the MSM fan-in for the 2- and 3-point MSMs of the IPA rounds and of the grouping fan-in: one outcome; (d) every sync.Pool answer (reuse/other/new, objects poisoned on Put) at every Get inside transcript challenges and IPA proving, up to 2 deviations; non-trivial = every (statement, configuration) pair",
		Assume: []string{"reference prover = independent implementation of the specification (pinned by the IPA and multiproof byte vectors)", "NumCPU seam cross-validated against real affinity-restricted child processes"},
		Units:  c03Units,
	})
}

func c03Units(ctx *core.Ctx) []core.Unit {
	var us []core.Unit
	stmts := c03Statements(ctx.Seed, ctx.Thorough())
	for si, s := range stmts {
		si, s := si, s
		us = append(us, core.Unit{Name: fmt.Sprintf("reference bytes #%d %s", si, s), Run: func(ctx *core.Ctx, r *core.Result) {
			needRef()
			c := conf()
			rc, rfs, _ := s.refObjs()
			want, wantState := ref.MultiProveBytes(s.label, ref.SRS(), rc, rfs, s.zs)
			check := func(cfg string, st stmt) {
				var got []byte
				var next string
				var err error
				in := st.String() + " " + cfg
				if !timed(r, "c03.panic", "CreateMultiProof", in, func() { got, next, err = implProofBytes(c, st) }) {
					return
				}
				r.Evals++
				r.Nontrivial++
				if err != nil {
					vio(r, "c03.bytes", "CreateMultiProof", in, "a proof", "error: "+err.Error())
					return
				}
				if hx(got) != hx(want) {
					vio(r, "c03.bytes", "CreateMultiProof", in, "reference proof bytes "+hx(want), hx(got))
				} else if next != wantState.Text(16) {
					vio(r, "c03.transcript", "CreateMultiProof", in, "post-proof challenge "+wantState.Text(16), next)
				}
			}
			check("default", s)
			// the same argument objects proved twice: the second proof must equal the first (and the reference)
			{
				is := s.build(c)
				for round := 1; round <= 2; round++ {
					in := fmt.Sprintf("%s proved with the same Cs/fs/zs objects, call %d", s.String(), round)
					var proof *multiproof.MultiProof
					var err error
					if !timed(r, "c03.panic", "CreateMultiProof", in, func() {
						proof, err = multiproof.CreateMultiProof(common.NewTranscript(s.label), c, is.Cs, is.fs, is.zs)
					}) {
						break
					}
					r.Evals++
					r.Nontrivial++
					if err != nil || hx(proofBytes(proof)) != hx(want) {
						vio(r, "c03.bytes", "CreateMultiProof", in, "reference proof bytes "+hx(want), fmt.Sprintf("err=%v (different bytes)", err))
						break
					}
				}
			}
			if vsched.Instrumented {
				for _, k := range []int{1, 2, 3, 16, 17, 64, 300} {
					vsched.SetNumCPU(k)
					check(fmt.Sprintf("NumCPU=%d", k), s)
				}
				vsched.SetNumCPU(0)
			}
			for k := 1; k < nRepr; k++ {
				st := s
				st.reprs = make([]int, len(s.zs))
				for i := range st.reprs {
					st.reprs[i] = (k + i) % nRepr
				}
				check("commitments re-represented "+fmt.Sprint(st.reprs), st)
			}
			// openings of the same polynomial handed in through one shared *Element (all representations)
			{
				names := map[string]int{}
				rep := false
				for _, p := range s.polys {
					names[p.Name]++
					rep = rep || names[p.Name] > 1
				}
				if rep {
					for k := 0; k < nRepr; k++ {
						st := s
						st.share = make([]int, len(s.zs))
						st.reprs = make([]int, len(s.zs))
						for i := range st.share {
							st.share[i], st.reprs[i] = 1, k
						}
						check(fmt.Sprintf("repeated commitments through one shared pointer, representation %d", k), st)
					}
				}
			}
			// after unrelated earlier calls
			polys := polyAlphabet(ctx.Seed)
			a := frsFromBig(polys[(si+1)%len(polys)].V)
			cm := c.Commit(a)
			ipa.CreateIPAProof(common.NewTranscript("other"), c, cm, a, frFromBig(bi(int64(si)+250)))
			var e fr.Element
			e.SetBytes(make([]byte, 40))
			ipa.MultiScalar(c.SRS[:3], a[:3])
			check("after unrelated calls", s)
			if si == 3 {
				r.Sample(map[string]interface{}{"statement": s.String(), "proof_bytes": hx(want)[:64] + "…", "configs": "default, NumCPU 1,2,3,16,17,64,300, 3 re-representations, after unrelated calls"})
			}
		}})
	}
	// a long history on one configuration: the same single opening before and after openings at 140 other points
	us = append(us, core.Unit{Name: "the same proof before and after 140 proofs at other evaluation points", Run: func(ctx *core.Ctx, r *core.Result) {
		needRef()
		c := conf()
		polys := polyAlphabet(ctx.Seed)
		s := stmt{label: "vt", zs: []int{5}, polys: []namedPoly{polys[12]}}
		rc, rfs, _ := s.refObjs()
		want, _ := ref.MultiProveBytes(s.label, ref.SRS(), rc, rfs, s.zs)
		probe := func(when string) {
			b, _, err := implProofBytes(c, s)
			r.Evals++
			r.Nontrivial++
			if err != nil || hx(b) != hx(want) {
				vio(r, "c03.bytes", "CreateMultiProof", s.String()+" "+when, "reference proof bytes "+hx(want), fmt.Sprintf("err=%v %s", err, hx(b)))
			}
		}
		probe("first")
		for z := 6; z < 146; z++ {
			o := stmt{label: "vt", zs: []int{z}, polys: []namedPoly{polys[12]}}
			if !timed(r, "c03.panic", "CreateMultiProof", o.String(), func() { implProofBytes(c, o) }) {
				return
			}
			if z == 80 {
				probe("after 75 proofs at other points")
			}
		}
		probe("after 140 proofs at other points")
	}})
	// IPA proofs against the reference prover
	// in and out of the domain; k + m*2^64 with k < 256 (only the low limb looks like a domain point); values with
	// a tiny Montgomery representation
	rinvC03 := new(big.Int).ModInverse(pow2(256), bigR)
	ipaPts := []*big.Int{bi(0), bi(255), bi(256), new(big.Int).Sub(bigR, bi(1)), pow2(64), new(big.Int).Add(pow2(64), bi(5)), new(big.Int).Add(pow2(128), bi(200)), new(big.Int).Mod(new(big.Int).Mul(rinvC03, bi(7)), bigR)}
	if ctx.Thorough() {
		ipaPts = append(ipaPts, bi(1), bi(128), bi(257), prfR(ctx.Seed, "c03", 0), new(big.Int).Add(pow2(192), bi(1)))
	}
	for _, z := range ipaPts {
		z := z
		us = append(us, core.Unit{Name: "IPA reference bytes at point " + clipHex(z), Run: func(ctx *core.Ctx, r *core.Result) {
			needRef()
			c := conf()
			polys := polyAlphabet(ctx.Seed)
			sel := []namedPoly{polys[10], polys[13]}
			if ctx.Thorough() {
				sel = append(sel, polys[9], polys[12])
			}
			for _, p := range sel {
				a := frsFromBig(p.V)
				cm := c.Commit(a)
				rt := ref.NewTranscript("ipa")
				rp := ref.IPAProve(rt, ref.SRS(), refCommitCached(ref.SRS(), p), p.V, z)
				want := rp.Bytes()
				wantState := rt.Challenge("state")
				cfgs := []int{0}
				if vsched.Instrumented {
					cfgs = []int{0, 1, 2, 3, 16, 17, 64}
				}
				for _, k := range cfgs {
					for rk := 0; rk < nRepr; rk++ {
						if k != 0 && rk != 0 {
							continue
						}
						if vsched.Instrumented {
							vsched.SetNumCPU(k)
						}
						in := fmt.Sprintf("CreateIPAProof(poly=%s, point=%s) NumCPU=%d commitment=%s", p.Name, clipHex(z), k, reprNames[rk])
						if k == 2 || k == 17 {
							// history: calls that end with an error come first (wrong lengths, at this point and at an
							// in-domain point); the proof bytes may not depend on them
							func() {
								defer func() { recover() }()
								ipa.CreateIPAProof(common.NewTranscript("ipa"), c, cm, a[:255], frFromBig(z))
								ipa.CreateIPAProof(common.NewTranscript("ipa"), c, cm, a[:100], frFromBig(bi(9)))
								ipa.CreateIPAProof(common.NewTranscript("ipa"), c, cm, append(append([]fr.Element(nil), a...), a[0]), frFromBig(bi(200)))
							}()
							in += " after prover calls that ended with an error"
						}
						ti := common.NewTranscript("ipa")
						var proof ipa.IPAProof
						var err error
						if !guard(r, "c03.panic", "ipa.CreateIPAProof", in, func() { proof, err = ipa.CreateIPAProof(ti, c, reprOf(cm, rk), a, frFromBig(z)) }) {
							continue
						}
						r.Evals++
						r.Nontrivial++
						got := ipaProofBytes(&proof)
						next := ti.ChallengeScalar([]byte("state"))
						if err != nil || hx(got) != hx(want) {
							vio(r, "c03.bytes", "ipa.CreateIPAProof", in, "reference proof bytes "+hx(want), fmt.Sprintf("%x err=%v", got, err))
						} else if frToBig(next).Cmp(wantState) != 0 {
							vio(r, "c03.transcript", "ipa.CreateIPAProof", in, "post-proof challenge "+wantState.Text(16), frToBig(next).Text(16))
						}
					}
				}
				if vsched.Instrumented {
					vsched.SetNumCPU(0)
				}
			}
		}})
	}
	// real CPU configurations (child processes of this same binary, no override)
	us = append(us, core.Unit{Name: "real CPU affinity and GOMAXPROCS (child processes)", Run: func(ctx *core.Ctx, r *core.Result) {
		want := c03Probe(ctx.Seed)
		self, _ := os.Executable()
		type cfg struct {
			aff  int
			gmp  string
			desc string
		}
		var cfgs []cfg
		allowed := allowedCPUs()
		for _, k := range []int{1, 2, 3, 4, 8, 16} {
			if k <= len(allowed) {
				cfgs = append(cfgs, cfg{k, "", fmt.Sprintf("taskset %d CPUs", k)})
			}
		}
		for _, g := range []string{"1", "2", "4", "16"} {
			cfgs = append(cfgs, cfg{0, g, "GOMAXPROCS=" + g})
		}
		for _, cf := range cfgs {
			args := []string{self, "-prop", "C03", "-tier", ctx.Tier, "-seed", fmt.Sprint(ctx.Seed), "-rununit", "probe"}
			var cmd *exec.Cmd
			if cf.aff > 0 {
				ids := make([]string, cf.aff)
				for i := range ids {
					ids[i] = fmt.Sprint(allowed[i])
				}
				cmd = exec.Command("taskset", append([]string{"-c", strings.Join(ids, ",")}, args...)...)
			} else {
				cmd = exec.Command(args[0], args[1:]...)
			}
			cmd.Env = append(os.Environ(), "VERIF_FLAVOUR_CHILD=1")
			if cf.gmp != "" {
				cmd.Env = append(cmd.Env, "GOMAXPROCS="+cf.gmp)
			}
			var out []byte
			var err error
			if !timed(r, "c03.panic", "CreateMultiProof/CreateIPAProof", "15 proofs under "+cf.desc+" (child process)", func() { out, err = cmd.Output() }) {
				if cmd.Process != nil {
					cmd.Process.Kill()
				}
				continue
			}
			if err != nil {
				if cf.aff > 0 && !strings.Contains(string(out), "digest=") {
					// the sandbox does not allow this affinity setting: the configuration is skipped, not failed
					r.Note("skipped_"+cf.desc, err.Error())
					continue
				}
				r.ToolError = fmt.Sprintf("probe child (%s) failed: %v", cf.desc, err)
				return
			}
			r.Evals++
			r.Nontrivial++
			got := ""
			ncpu := ""
			for _, f := range strings.Split(string(out), "\"") {
				if strings.HasPrefix(f, "digest=") {
					got = strings.TrimPrefix(f, "digest=")
				}
				if strings.HasPrefix(f, "numcpu=") {
					ncpu = strings.TrimPrefix(f, "numcpu=")
				}
			}
			if cf.aff > 0 && ncpu != fmt.Sprint(cf.aff) {
				r.Note("skipped_"+cf.desc, "child saw NumCPU="+ncpu) // affinity not honoured here: not a comparison of that configuration
				continue
			}
			if got != want {
				vio(r, "c03.config", "CreateMultiProof/CreateIPAProof", "15 proofs under "+cf.desc, "digest "+want, got)
			}
		}
		r.Sample(map[string]interface{}{"configs": "taskset 1,2,3,4,8,16 CPUs; GOMAXPROCS 1,2,4,16", "digest": want})
	}})
	us = append(us, core.Unit{Name: "probe", Run: func(ctx *core.Ctx, r *core.Result) {
		if os.Getenv("VERIF_FLAVOUR_CHILD") == "" {
			return // only meaningful as a child
		}
		r.Note("probe", "digest="+c03Probe(ctx.Seed))
		r.Note("cpu", fmt.Sprintf("numcpu=%d", vsched.NumCPU()))
	}})
	// (c) schedules
	us = append(us, core.Unit{Name: "schedules: 2- and 3-point MSMs of the IPA rounds, all arrival orders", Run: func(ctx *core.Ctx, r *core.Result) {
		if !vsched.Instrumented {
			r.Note("seam", "unavailable (fallback flavour)")
			return
		}
		c := conf()
		defer vsched.SetNumCPU(0)
		for _, cpu := range []int{2, 16} {
			vsched.SetNumCPU(cpu)
			for _, n := range []int{2, 3} {
				pts := append([]banderwagon.Element(nil), c.SRS[10:10+n]...)
				sc := make([]fr.Element, n)
				sc[0] = fr.One()
				for i := 1; i < n; i++ {
					sc[i] = frFromBig(prfR(ctx.Seed, "c03msm", i))
				}
				body := func() string {
					res, err := ipa.MultiScalar(append([]banderwagon.Element(nil), pts...), append([]fr.Element(nil), sc...))
					if err != nil {
						return "error " + err.Error()
					}
					return fmt.Sprintf("%x", res.Bytes())
				}
				want := ref.MSM([]ref.Pt{ref.SRS()[10], ref.SRS()[11], ref.SRS()[12]}[:n], []*big.Int{frToBig(sc[0]), frToBig(sc[1]), frToBig(sc[n-1])}[:n])
				if n == 3 {
					want = ref.MSM(ref.SRS()[10:13], []*big.Int{frToBig(sc[0]), frToBig(sc[1]), frToBig(sc[2])})
				}
				wb := ref.Compress(want)
				name := fmt.Sprintf("ipa.MultiScalar(%d points) NumCPU=%d", n, cpu)
				st := core.Explore(r, core.SchedSpec{Name: name, API: "ipa.MultiScalar", Check: "c03.schedule", Body: body, Expect: hx(wb[:]), Mode: "dpor", Opt: explore.Options{DataBudget: 0, MaxExecs: 20000}})
				r.Nontrivial += int64(st.Complete)
			}
		}
	}})
	us = append(us, core.Unit{Name: "schedules: whole CreateMultiProof (3 openings, 2 workers) and CreateIPAProof under DPOR (time cap)", Run: func(ctx *core.Ctx, r *core.Result) {
		if !vsched.Instrumented {
			r.Note("seam", "unavailable (fallback flavour)")
			return
		}
		needRef()
		c := conf()
		defer vsched.SetNumCPU(0)
		vsched.SetNumCPU(2)
		polys := polyAlphabet(ctx.Seed)
		s := stmt{label: "vt", zs: []int{5, 200, 5}, polys: []namedPoly{polys[10], polys[12], polys[13]}}
		rc, rfs, _ := s.refObjs()
		want, _ := ref.MultiProveBytes(s.label, ref.SRS(), rc, rfs, s.zs)
		body := func() string {
			b, _, err := implProofBytes(c, s)
			if err != nil {
				return "error " + err.Error()
			}
			return hx(b)
		}
		st := core.Explore(r, core.SchedSpec{Name: "CreateMultiProof(" + s.String() + ") NumCPU=2", API: "CreateMultiProof", Check: "c03.schedule", Body: body, Expect: hx(want), Mode: "dpor", Opt: explore.Options{DataBudget: 0, MaxExecs: 100000, Deadline: schedDeadline(ctx)}})
		r.Nontrivial += int64(st.Complete)
		a := frsFromBig(polys[12].V)
		cm := c.Commit(a)
		rt := ref.NewTranscript("ipa")
		rp := ref.IPAProve(rt, ref.SRS(), refCommitCached(ref.SRS(), polys[12]), polys[12].V, bi(300))
		body2 := func() string {
			pr, err := ipa.CreateIPAProof(common.NewTranscript("ipa"), c, cm, append([]fr.Element(nil), a...), frFromBig(bi(300)))
			if err != nil {
				return "error " + err.Error()
			}
			return hx(ipaProofBytes(&pr))
		}
		st = core.Explore(r, core.SchedSpec{Name: "CreateIPAProof(prf0, point 300) NumCPU=2", API: "ipa.CreateIPAProof", Check: "c03.schedule", Body: body2, Expect: hx(rp.Bytes()), Mode: "dpor", Opt: explore.Options{DataBudget: 0, MaxExecs: 100000, Deadline: schedDeadline(ctx)}})
		r.Nontrivial += int64(st.Complete)
	}})
	// (c') two provers at once, different statements: the reduction-free preemption-bounded search switches
	// between the two calls at every scheduling point, so memory that the two calls share without
	// synchronisation (invisible to DPOR, which only reorders dependent synchronisation operations) shows up
	// as proof bytes that depend on the schedule.
	us = append(us, core.Unit{Name: "schedules: two provers at once (different statements), every switch point, preemption bound 1/2", Run: func(ctx *core.Ctx, r *core.Result) {
		if !vsched.Instrumented {
			r.Note("seam", "unavailable (fallback flavour)")
			return
		}
		needRef()
		c := conf()
		defer vsched.SetNumCPU(0)
		vsched.SetNumCPU(2)
		vsched.FamilyAffinity, vsched.PostPoints = true, true
		defer func() { vsched.FamilyAffinity, vsched.PostPoints = false, false }()
		polys := polyAlphabet(ctx.Seed)
		s3 := stmt{label: "vt", zs: []int{5, 200, 5}, polys: []namedPoly{polys[10], polys[12], polys[13]}}
		s3b := stmt{label: "third", zs: []int{1, 2, 3}, polys: []namedPoly{polys[12], polys[13], polys[11]}}
		s4 := stmt{label: "other", zs: []int{7, 7, 100, 255}, polys: []namedPoly{polys[13], polys[11], polys[12], polys[10]}}
		// the call that starts first has the larger statement (a buffer kept between calls and grown on demand
		// is then shared); thorough adds equal sizes and the opposite order
		pairs := [][]stmt{{s4, s3}}
		if ctx.Thorough() {
			pairs = append(pairs, []stmt{s3, s3b}, []stmt{s3, s4})
		}
		bd := 1
		if ctx.Thorough() {
			bd = 2
		}
		for _, ss := range pairs {
			want := ""
			for k, s := range ss {
				rc, rfs, _ := s.refObjs()
				wb, _ := ref.MultiProveBytes(s.label, ref.SRS(), rc, rfs, s.zs)
				want += fmt.Sprintf("[%d]%s", k, hx(wb))
			}
			body := func() string {
				outs := make([]string, len(ss))
				var wg vsched.WaitGroup
				for k := range ss {
					wg.Add(1)
					vsched.Go2(func(k, _ int) {
						defer wg.Done()
						b, _, err := implProofBytes(c, ss[k])
						if err != nil {
							outs[k] = "error " + err.Error()
							return
						}
						outs[k] = hx(b)
					}, k, 0)
				}
				wg.Wait()
				o := ""
				for k := range outs {
					o += fmt.Sprintf("[%d]%s", k, outs[k])
				}
				return o
			}
			st := core.Explore(r, core.SchedSpec{Name: fmt.Sprintf("CreateMultiProof(%d openings) || CreateMultiProof(%d openings), NumCPU=2", len(ss[0].zs), len(ss[1].zs)), API: "CreateMultiProof", Check: "c03.schedule", Body: body, Expect: want, Mode: "bounded", Opt: explore.Options{MaxBound: bd, SchedOnly: true, Allow: callerSwitch, Spread: true, MaxExecs: 100000, Deadline: schedDeadline(ctx)}})
			r.Nontrivial += int64(st.Complete)
		}
		// the same for the single-polynomial prover
		a1, a2 := frsFromBig(polys[12].V), frsFromBig(polys[13].V)
		cm1, cm2 := c.Commit(a1), c.Commit(a2)
		rp1 := ref.IPAProve(ref.NewTranscript("ipa"), ref.SRS(), refCommitCached(ref.SRS(), polys[12]), polys[12].V, bi(300))
		rp2 := ref.IPAProve(ref.NewTranscript("ipb"), ref.SRS(), refCommitCached(ref.SRS(), polys[13]), polys[13].V, bi(17))
		want2 := "[0]" + hx(rp1.Bytes()) + "[1]" + hx(rp2.Bytes())
		body2 := func() string {
			outs := make([]string, 2)
			var wg vsched.WaitGroup
			wg.Add(2)
			vsched.Go2(func(_, _ int) {
				defer wg.Done()
				pr, err := ipa.CreateIPAProof(common.NewTranscript("ipa"), c, cm1, append([]fr.Element(nil), a1...), frFromBig(bi(300)))
				outs[0] = hx(ipaProofBytes(&pr)) + errS(err)
			}, 0, 0)
			vsched.Go2(func(_, _ int) {
				defer wg.Done()
				pr, err := ipa.CreateIPAProof(common.NewTranscript("ipb"), c, cm2, append([]fr.Element(nil), a2...), frFromBig(bi(17)))
				outs[1] = hx(ipaProofBytes(&pr)) + errS(err)
			}, 0, 0)
			wg.Wait()
			return "[0]" + outs[0] + "[1]" + outs[1]
		}
		st := core.Explore(r, core.SchedSpec{Name: "CreateIPAProof(point 300) || CreateIPAProof(point 17), NumCPU=2", API: "ipa.CreateIPAProof", Check: "c03.schedule", Body: body2, Expect: want2, Mode: "bounded", Opt: explore.Options{MaxBound: bd, SchedOnly: true, Allow: callerSwitch, Spread: true, MaxExecs: 100000, Deadline: schedDeadline(ctx)}})
		r.Nontrivial += int64(st.Complete)
	}})
	// (d) pool answers
	us = append(us, core.Unit{Name: "pool answers inside transcript challenges and IPA proving", Run: func(ctx *core.Ctx, r *core.Result) {
		if !vsched.Instrumented {
			r.Note("seam", "unavailable (fallback flavour)")
			return
		}
		c := conf()
		old := vsched.PoolPoison
		vsched.PoolPoison = poisonBig
		defer func() { vsched.PoolPoison = old }()
		vsched.SetNumCPU(1)
		defer vsched.SetNumCPU(0)
		// transcript chain: challenges (SetBytesLE -> pool) interleaved with scalar decoding that reduces (second Get)
		chain := func() string {
			t := common.NewTranscript("pool")
			out := ""
			for i := 0; i < 4; i++ {
				var e fr.Element
				e.SetBytes([]byte{0xff, 0xff, 0xff, 0xff, 0xff, 0xff, 0xff, 0xff, 0xff, 0xff, 0xff, 0xff, 0xff, 0xff, 0xff, 0xff, 0xff, 0xff, 0xff, 0xff, 0xff, 0xff, 0xff, 0xff, 0xff, 0xff, 0xff, 0xff, 0xff, 0xff, 0xff, byte(i)})
				t.AppendScalar(&e, []byte("s"))
				ch := t.ChallengeScalar([]byte("c"))
				out += frToBig(ch).Text(16)[:8]
			}
			return out
		}
		want := chain()
		st := core.Explore(r, core.SchedSpec{Name: "transcript chain with reducing decodes", API: "common.Transcript / fr.SetBytes", Check: "c03.pool", Body: chain, Expect: want, Mode: "bounded", Opt: explore.Options{MaxBound: 2, DataOnly: true}})
		r.Nontrivial += int64(st.Complete)
		polys := polyAlphabet(ctx.Seed)
		a := frsFromBig(polys[12].V)
		cm := c.Commit(a)
		prove := func() string {
			pr, err := ipa.CreateIPAProof(common.NewTranscript("ipa"), c, cm, a, frFromBig(bi(300)))
			if err != nil {
				return "error " + err.Error()
			}
			return fmt.Sprintf("%x", sha256.Sum256(ipaProofBytes(&pr)))
		}
		wantP := prove()
		bd := 1
		if ctx.Thorough() {
			bd = 2
		}
		st = core.Explore(r, core.SchedSpec{Name: "CreateIPAProof pool answers", API: "ipa.CreateIPAProof", Check: "c03.pool", Body: prove, Expect: wantP, Mode: "bounded", Opt: explore.Options{MaxBound: bd, DataOnly: true, MaxExecs: 400}})
		r.Nontrivial += int64(st.Complete)
	}})
	return us
}

// poisonBig overwrites a pooled big.Int with a 300-bit garbage value.
func poisonBig(x interface{}) {
	if b, ok := x.(*big.Int); ok {
		b.Lsh(big.NewInt(0x5eed5eed), 270)
		b.Add(b, big.NewInt(12345))
	}
}

// allowedCPUs: the CPU ids this process may run on (Cpus_allowed_list of /proc/self/status), falling back
// to 0..NumCPU-1.
func allowedCPUs() []int {
	var ids []int
	if b, err := os.ReadFile("/proc/self/status"); err == nil {
		for _, ln := range strings.Split(string(b), "\n") {
			if strings.HasPrefix(ln, "Cpus_allowed_list:") {
				for _, part := range strings.Split(strings.TrimSpace(strings.TrimPrefix(ln, "Cpus_allowed_list:")), ",") {
					var lo, hi int
					if n, _ := fmt.Sscanf(part, "%d-%d", &lo, &hi); n == 2 {
						for i := lo; i <= hi; i++ {
							ids = append(ids, i)
						}
					} else if n, _ := fmt.Sscanf(part, "%d", &lo); n == 1 {
						ids = append(ids, lo)
					}
				}
			}
		}
	}
	if len(ids) == 0 {
		for i := 0; i < runtime.NumCPU(); i++ {
			ids = append(ids, i)
		}
	}
	return ids
}

func errS(err error) string {
	if err != nil {
		return " error " + err.Error()
	}
	return ""
}

// callerSwitch restricts the deviations of a bounded search over concurrent API calls to "run the other
// top-level caller now" (goroutine ids "0.k"): at every scheduling point — whether the goroutine that would
// continue is a caller or one of its internal workers — the alternative of handing the processor to another
// caller is explored; the internal workers of one call keep their default order among themselves (their
// interleavings within one call are the subject of the DPOR units). Seeds are generated in program order,
// so a time cap cuts the late switch points, never the early ones.
func callerSwitch(enabled []string, alt int) bool {
	return strings.Count(enabled[alt], ".") == 1
}
