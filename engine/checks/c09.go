package checks

import (
	"fmt"
	"math/big"
	"time"

	"github.com/crate-crypto/go-ipa/bandersnatch"
	"github.com/crate-crypto/go-ipa/bandersnatch/fr"
	"github.com/crate-crypto/go-ipa/banderwagon"
	"github.com/crate-crypto/go-ipa/ipa"
	"github.com/crate-crypto/go-ipa/zzverif/vsched"
	"verif.local/engine/core"
	"verif.local/engine/explore"
	"verif.local/engine/ref"
)

// C09 — variable-base MSM is correct for every size and parallelism setting.

// msmScalar: scalar #i of a vector with the given share (percent) of small scalars.
func msmScalar(seed int64, i, sharePct int) *big.Int {
	if sharePct > 0 && (i*100)/1 < 0 {
		return bi(0)
	}
	if sharePct > 0 && i%100 < sharePct {
		return bi(int64(1 + (i*7)%13)) // small: fits in the lowest window of every c
	}
	switch i % 9 {
	case 5:
		return bi(0)
	case 7:
		return new(big.Int).Sub(bigR, bi(int64(1+i)))
	}
	return prfR(seed, "c09s", i)
}

// asScalars converts to the implementation form (Montgomery or regular limbs).
func asScalars(ss []*big.Int, mont bool) []fr.Element {
	out := frsFromBig(ss)
	if !mont {
		for i := range out {
			out[i] = out[i].ToRegular()
		}
	}
	return out
}

type msmCase struct {
	pts  []banderwagon.Element
	ss   []*big.Int
	want ref.Pt
}

// smallCase: n <= 64 arbitrary (CRS) points, reference naive sum.
func smallCase(seed int64, n, share int, menu string) msmCase {
	c := conf()
	var mc msmCase
	srs := ref.SRS()
	refPts := make([]ref.Pt, n)
	for i := 0; i < n; i++ {
		var e banderwagon.Element
		var rp ref.Pt
		switch {
		case menu == "all-identity" || (menu == "mixed" && i%5 == 2):
			e.SetIdentity()
			e = reprOf(e, i%nRepr)
			rp = ref.Identity()
		case menu == "mixed" && i%5 == 4 && i >= 4:
			e = reprOf(c.SRS[(i-4)*3%256], (i+1)%nRepr) // duplicate of an earlier point, other representation
			rp = srs[(i-4)*3%256]
		default:
			e = reprOf(c.SRS[i*3%256], i%nRepr)
			rp = srs[i*3%256]
		}
		mc.pts = append(mc.pts, e)
		refPts[i] = rp
		mc.ss = append(mc.ss, msmScalar(seed, i, share))
	}
	mc.want = ref.MSM(refPts, mc.ss)
	return mc
}

// bigCase: points a_i*G in arithmetic progression of discrete logs, closed-form reference.
func bigCase(seed int64, n, share int) msmCase {
	var mc msmCase
	a0 := prfR(seed, "c09a", 0)
	delta := prfR(seed, "c09a", 1)
	g := banderwagon.Generator
	var cur, d banderwagon.Element
	a0e, de := frFromBig(a0), frFromBig(delta)
	cur.ScalarMul(&g, &a0e)
	d.ScalarMul(&g, &de)
	acc := new(big.Int)
	ai := new(big.Int).Set(a0)
	for i := 0; i < n; i++ {
		mc.pts = append(mc.pts, cur)
		s := msmScalar(seed, i, share)
		mc.ss = append(mc.ss, s)
		acc = ref.AddR(acc, ref.MulR(ai, s))
		var nx banderwagon.Element
		nx.Add(&cur, &d)
		cur = nx
		ai = ref.AddR(ai, delta)
	}
	// the progression itself is validated against the reference at both ends
	if n > 0 {
		last := mc.pts[n-1]
		if msg := validSame(&last, ref.Mul(ref.Gen(), ref.AddR(a0, ref.MulR(delta, bi(int64(n-1)))))); msg != "" {
			panic("harness: point progression inconsistent with the reference: " + msg)
		}
	}
	mc.want = ref.Mul(ref.Gen(), acc)
	return mc
}

func runMSM(r *core.Result, mc msmCase, nbTasks int, mont bool, desc string) {
	sc := asScalars(mc.ss, mont)
	keepS := append([]fr.Element(nil), sc...)
	keepP := append([]banderwagon.Element(nil), mc.pts...)
	var res banderwagon.Element
	res.SetIdentity()
	var out *banderwagon.Element
	var err error
	if !timed(r, "c09.panic", "banderwagon.Element.MultiExp", desc, func() {
		out, err = res.MultiExp(mc.pts, sc, banderwagon.MultiExpConfig{NbTasks: nbTasks, ScalarsMont: mont})
	}) {
		return
	}
	r.Evals++
	r.Nontrivial++
	if err != nil || out == nil {
		vio(r, "c09.msm", "banderwagon.Element.MultiExp", desc, "a result", fmt.Sprintf("err=%v", err))
		return
	}
	if msg := validSame(out, mc.want); msg != "" {
		vio(r, "c09.msm", "banderwagon.Element.MultiExp", desc, "sum s_i*P_i = "+affStr(mc.want), msg)
	}
	if len(mc.pts) <= 3 {
		// the result belongs to the caller: writing through the returned pointer must not touch package state
		out.Add(out, &banderwagon.Generator)
		id, g := banderwagon.Identity, banderwagon.Generator
		if msg := validSame(&id, ref.Identity()); msg != "" || validSame(&g, ref.Gen()) != "" {
			vio(r, "c09.result_alias", "banderwagon.Element.MultiExp", desc, "package-level Identity/Generator unaffected by writing to the returned element", "package variable changed: "+msg)
		}
	}
	if n := len(mc.pts); n > 0 && n <= 8 {
		// the receiver may be one of the inputs
		for _, k := range []int{0, n - 1} {
			ptsA := append([]banderwagon.Element(nil), keepP...)
			var outA *banderwagon.Element
			var errA error
			if timed(r, "c09.panic", "banderwagon.Element.MultiExp", desc+fmt.Sprintf(" receiver = &points[%d]", k), func() {
				outA, errA = ptsA[k].MultiExp(ptsA, sc, banderwagon.MultiExpConfig{NbTasks: nbTasks, ScalarsMont: mont})
			}) {
				r.Evals++
				if errA != nil || outA == nil {
					vio(r, "c09.msm", "banderwagon.Element.MultiExp", desc+fmt.Sprintf(" receiver = &points[%d]", k), "a result", fmt.Sprintf("err=%v", errA))
				} else if msg := validSame(outA, mc.want); msg != "" {
					vio(r, "c09.alias", "banderwagon.Element.MultiExp", desc+fmt.Sprintf(" receiver = &points[%d]", k), "sum s_i*P_i = "+affStr(mc.want), msg)
				}
			}
		}
	}
	for i := range sc {
		if sc[i] != keepS[i] || mc.pts[i] != keepP[i] {
			vio(r, "c09.input_intact", "banderwagon.Element.MultiExp", desc, "points and scalars unchanged", fmt.Sprintf("index %d modified", i))
			break
		}
	}
}

// expectedConfig replicates the documented cost model (evidence only).
func expectedConfig(n, nbTasks int) (c uint64, splits int) {
	best := func(n int) uint64 {
		var C uint64
		min := 1e300
		for _, c := range []uint64{4, 5, 6, 7, 8, 9, 10, 11, 12, 13, 14, 15, 16, 20, 21} {
			cost := float64(256*(n+(1<<c))) / float64(c)
			if cost < min {
				min, C = cost, c
			}
		}
		return C
	}
	splits = 1
	chunks := 0
	for chunks < nbTasks {
		c = best(n)
		chunks = int(256 / c)
		if 256%c != 0 {
			chunks++
		}
		chunks *= splits
		if chunks < nbTasks {
			splits <<= 1
			n >>= 1
		}
	}
	return
}

var c09Tasks = []int{0, 1, 2, 3, 4, 5, 6, 7, 8, 9, 10, 11, 12, 13, 14, 15, 16, 17, 31, 32, 33, 63, 64, 65, 127, 128, 129, 256, 1024}

func init() {
	core.Register(&core.Check{
		ID: "C09", Level: "model_checking",
		Rule:        "(a) public entry: n in 0..64 x NbTasks in {0..17,31,32,33,63,64,65,127,128,129,256,1024} x {Montgomery, regular} x small-scalar share {0,50,100%} x point menu {distinct CRS points in 4 representations, mixed with identities and duplicates, all identity}, and the cost-model thresholds 48,49,128,129,320,321,768,769,1792,1793,4096,4097,9216,9217 x NbTasks {1,16,17,64,1024} x share {0,9,10%}; (b) internal entry for every implemented window c in {4..16} (20,21,22 thorough) x splitFirstChunk x n in {0,1,2,3,5,64}; (c) partitionScalars for every c: every chunk position x boundary digits x carry-in (full digit range for c<=8), checked against the recoding identity; (d) ALL schedules (DPOR, unbounded) of the fan-in/fan-out of c in {4,5,8} and of the split public entry on n<=3: one outcome, no deadlock state; (e) NbTasks=0 under the NumCPU seam; (f) length mismatch; (g) the same point/scalar slices reused with replaced content across calls, and writes through the returned element must not reach package state; oracle: reference naive sum (n<=64) or closed form over points with known discrete logs; a state is a decision point of the explored schedule tree",
		Assume:      []string{"NbTasks <= 1024, regular-form scalars < r", "termination of free-running calls is judged with a 15-minute limit per unit (units take seconds); in scheduled mode deadlock = no enabled goroutine"},
		UnitTimeout: 15 * time.Minute,
		Units:       c09Units,
	})
}

func c09Units(ctx *core.Ctx) []core.Unit {
	var us []core.Unit
	// (a) small sizes, sharded by n
	for lo := 0; lo <= 64; lo += 4 {
		lo := lo
		us = append(us, core.Unit{Name: fmt.Sprintf("public entry n=%d..%d x NbTasks x form x share x menu", lo, lo+3), Run: func(ctx *core.Ctx, r *core.Result) {
			needRef()
			cfgs := map[string]bool{}
			for n := lo; n < lo+4 && n <= 64; n++ {
				for _, share := range []int{0, 50, 100} {
					for _, menu := range []string{"distinct", "mixed", "all-identity"} {
						if menu == "all-identity" && share != 0 {
							continue
						}
						mc := smallCase(ctx.Seed, n, share, menu)
						for ti, nt := range c09Tasks {
							for _, mont := range []bool{true, false} {
								if !ctx.Thorough() && menu != "distinct" && (ti+n)%3 != 0 {
									continue
								}
								runMSM(r, mc, nt, mont, fmt.Sprintf("n=%d NbTasks=%d ScalarsMont=%v small-share=%d%% points=%s", n, nt, mont, share, menu))
								if nt > 0 {
									c, sp := expectedConfig(n, nt)
									cfgs[fmt.Sprintf("c=%d,splits=%d", c, sp)] = true
								}
							}
						}
					}
				}
			}
			r.Note("n_window_split_configs", len(cfgs))
			if lo == 4 {
				r.Sample(map[string]interface{}{"case": "n=5 NbTasks=17 ScalarsMont=false small-share=50% points=mixed (identity at 2, duplicate at 4)", "configs": fmt.Sprint(cfgs)})
			}
		}})
	}
	for _, n := range []int{48, 49, 128, 129, 320, 321, 768, 769, 1792, 1793, 4096, 4097, 9216, 9217} {
		n := n
		us = append(us, core.Unit{Name: fmt.Sprintf("public entry threshold n=%d", n), Run: func(ctx *core.Ctx, r *core.Result) {
			needRef()
			for _, share := range []int{0, 9, 10} {
				mc := bigCase(ctx.Seed, n, share)
				for _, nt := range []int{1, 16, 17, 64, 1024} {
					for _, mont := range []bool{true, false} {
						if !ctx.Thorough() && n > 1000 && (nt == 17 || (nt == 64 && !mont)) {
							continue
						}
						runMSM(r, mc, nt, mont, fmt.Sprintf("n=%d NbTasks=%d ScalarsMont=%v small-share=%d%% points=a_i*G", n, nt, mont, share))
					}
				}
			}
			c, sp := expectedConfig(n, 16)
			r.Sample(map[string]interface{}{"n": n, "cost_model_at_16_tasks": fmt.Sprintf("c=%d splits=%d", c, sp)})
		}})
	}
	// (e) + (f)
	us = append(us, core.Unit{Name: "NbTasks=0 under the NumCPU seam, ipa.MultiScalar, length mismatch", Run: func(ctx *core.Ctx, r *core.Result) {
		needRef()
		defer setCPU(0)
		for _, n := range []int{0, 1, 2, 3, 64, 256} {
			mc := smallCase(ctx.Seed, n%65, 0, "distinct")
			if n == 256 {
				mc = bigCase(ctx.Seed, 256, 10)
			}
			for _, cpu := range []int{1, 2, 3, 4, 8, 16, 17, 32, 64, 65, 128, 300} {
				if !setCPU(cpu) {
					break
				}
				runMSM(r, mc, 0, true, fmt.Sprintf("n=%d NbTasks=0 NumCPU=%d", n, cpu))
				res, err := ipa.MultiScalar(mc.pts, asScalars(mc.ss, true))
				r.Evals++
				if err != nil {
					vio(r, "c09.msm", "ipa.MultiScalar", fmt.Sprintf("n=%d NumCPU=%d", n, cpu), "a result", err.Error())
				} else if msg := validSame(&res, mc.want); msg != "" {
					vio(r, "c09.msm", "ipa.MultiScalar", fmt.Sprintf("n=%d NumCPU=%d", n, cpu), affStr(mc.want), msg)
				}
			}
		}
		setCPU(0)
		mc := smallCase(ctx.Seed, 5, 0, "distinct")
		for _, d := range [][2]int{{5, 4}, {4, 5}, {0, 1}, {1, 0}} {
			var res banderwagon.Element
			var err error
			desc := fmt.Sprintf("%d points, %d scalars", d[0], d[1])
			if guard(r, "c09.panic", "banderwagon.Element.MultiExp", desc, func() {
				_, err = res.MultiExp(mc.pts[:d[0]], asScalars(mc.ss[:d[1]], true), banderwagon.MultiExpConfig{NbTasks: 4, ScalarsMont: true})
			}) {
				r.Evals++
				r.Nontrivial++
				if err == nil {
					vio(r, "c09.mismatch", "banderwagon.Element.MultiExp", desc, "an error", "nil")
				}
			}
			var err2 error
			if guard(r, "c09.panic", "ipa.MultiScalar", desc, func() { _, err2 = ipa.MultiScalar(mc.pts[:d[0]], asScalars(mc.ss[:d[1]], true)) }) && err2 == nil {
				vio(r, "c09.mismatch", "ipa.MultiScalar", desc, "an error", "nil")
			}
		}
	}})
	us = append(us, core.Unit{Name: "same slices reused with updated content between calls", Run: func(ctx *core.Ctx, r *core.Result) {
		needRef()
		c := conf()
		for _, n := range []int{1, 2, 3, 8, 40} {
			pts := make([]banderwagon.Element, n)
			scal := make([]fr.Element, n)
			refPts := make([]ref.Pt, n)
			ss := make([]*big.Int, n)
			for step := 0; step < 5; step++ {
				// overwrite the SAME backing arrays with new content
				for i := 0; i < n; i++ {
					k := (i*7 + step*13) % 256
					pts[i] = reprOf(c.SRS[k], (i+step)%nRepr)
					refPts[i] = ref.SRS()[k]
					ss[i] = msmScalar(ctx.Seed, i+step*3, 0)
					scal[i] = frFromBig(ss[i])
				}
				if step == 3 && n > 1 { // a single element updated in place
					pts[0].Double(&pts[0])
					refPts[0] = ref.Add(refPts[0], refPts[0])
				}
				want := ref.MSM(refPts, ss)
				desc := fmt.Sprintf("call #%d over the same %d-element slices (content replaced in place)", step+1, n)
				res, err := ipa.MultiScalar(pts, scal)
				r.Evals++
				r.Nontrivial++
				if err != nil {
					vio(r, "c09.msm", "ipa.MultiScalar", desc, "a result", err.Error())
				} else if msg := validSame(&res, want); msg != "" {
					vio(r, "c09.history", "ipa.MultiScalar", desc, affStr(want), msg)
				}
				var rr banderwagon.Element
				out, err := rr.MultiExp(pts, scal, banderwagon.MultiExpConfig{NbTasks: 3, ScalarsMont: true})
				if err != nil {
					vio(r, "c09.msm", "banderwagon.Element.MultiExp", desc, "a result", err.Error())
				} else if msg := validSame(out, want); msg != "" {
					vio(r, "c09.history", "banderwagon.Element.MultiExp", desc, affStr(want), msg)
				}
			}
		}
		r.Sample(map[string]interface{}{"history": "5 calls over the same points/scalars slices, content replaced between calls, one element doubled in place"})
	}})
	us = append(us, core.Unit{Name: "size histories: for each task count, sizes 1024 down to 1 and up again through one process", Run: func(ctx *core.Ctx, r *core.Result) {
		needRef()
		c := conf()
		sizes := []int{1024, 512, 256, 128, 64, 33, 32, 8, 3, 1, 3, 8, 32, 33, 64, 128, 256, 512, 1024, 256, 1024, 255}
		// the expected sums once per size (reference bucket MSM)
		want := map[int]ref.Pt{}
		// sparse = every third scalar is zero and a third is small (the dense and the sparse variant of a size
		// alternate along the history: what a call leaves behind for an index must not reach the next call)
		mk := func(n int, sparse bool) ([]banderwagon.Element, []fr.Element, []ref.Pt, []*big.Int) {
			pts := make([]banderwagon.Element, n)
			sc := make([]fr.Element, n)
			rp := make([]ref.Pt, n)
			ss := make([]*big.Int, n)
			for i := 0; i < n; i++ {
				k := (i*5 + 1) % 256
				pts[i], rp[i] = c.SRS[k], ref.SRS()[k]
				ss[i] = msmScalar(ctx.Seed, i%97, 0)
				if sparse {
					switch i % 3 {
					case 1:
						ss[i] = bi(0)
					case 2:
						ss[i] = bi(int64(i%251 + 1))
					}
				}
				sc[i] = frFromBig(ss[i])
			}
			return pts, sc, rp, ss
		}
		for _, nb := range []int{0, 1, 2, 16, 64, 128, 256, 1024} {
			for step, n := range sizes {
				sparse := step%2 == 1
				pts, sc, rp, ss := mk(n, sparse)
				key := n
				if sparse {
					key = -n
				}
				w, ok := want[key]
				if !ok {
					w = ref.MSMBucket(rp, ss)
					want[key] = w
				}
				in := fmt.Sprintf("NbTasks=%d, call #%d of the size history %v (odd calls sparse): n=%d", nb, step+1, sizes, n)
				var e banderwagon.Element
				var err error
				if !timed(r, "c09.panic", "banderwagon.Element.MultiExp", in, func() {
					_, err = e.MultiExp(pts, sc, banderwagon.MultiExpConfig{NbTasks: nb, ScalarsMont: true})
				}) {
					return
				}
				r.Evals++
				r.Nontrivial++
				if err != nil {
					vio(r, "c09.msm", "banderwagon.Element.MultiExp", in, "a result", err.Error())
				} else if msg := validSame(&e, w); msg != "" {
					vio(r, "c09.history", "banderwagon.Element.MultiExp", in, affStr(w), msg)
				}
			}
		}
	}})
	// (b) internal entry
	cs := []int{4, 5, 6, 7, 8, 9, 10, 11, 12, 13, 14, 15, 16}
	if ctx.Thorough() {
		cs = append(cs, 20, 21, 22)
	}
	for _, c := range cs {
		c := c
		us = append(us, core.Unit{Name: fmt.Sprintf("internal entry c=%d", c), Run: func(ctx *core.Ctx, r *core.Result) {
			needRef()
			for _, n := range []int{0, 1, 2, 3, 5, 64} {
				if c >= 20 && n > 5 {
					continue
				}
				for _, share := range []int{0, 100} {
					mc := smallCase(ctx.Seed, n, share, "mixed")
					aff := make([]bandersnatch.PointAffine, n)
					for i := range mc.pts {
						x, y := ref.Affine(elToRef(&mc.pts[i]))
						aff[i] = bandersnatch.PointAffine{X: fpFromBig(x), Y: fpFromBig(y)}
					}
					for _, split := range []bool{false, true} {
						desc := fmt.Sprintf("msmInnerPointProj(c=%d, n=%d, splitFirstChunk=%v, small-share=%d%%)", c, n, split, share)
						var p bandersnatch.PointProj
						if !timed(r, "c09.panic", "bandersnatch.msmInnerPointProj", desc, func() {
							digits, _ := bandersnatch.VerifPartitionScalars(asScalars(mc.ss, true), uint64(c), true, 4)
							bandersnatch.VerifMsmInner(&p, c, aff, digits, split)
						}) {
							continue
						}
						r.Evals++
						r.Nontrivial++
						e := banderwagon.VerifFromProj(p)
						if msg := validSame(&e, mc.want); msg != "" {
							vio(r, "c09.window", "bandersnatch.msmInnerPointProj", desc, affStr(mc.want), msg)
						}
					}
				}
			}
			r.Sample(map[string]interface{}{"c": c, "n": []int{0, 1, 2, 3, 5, 64}, "splitFirstChunk": "both"})
		}})
	}
	// (c) partitionScalars
	for _, c := range cs {
		c := c
		us = append(us, core.Unit{Name: fmt.Sprintf("partitionScalars c=%d", c), Run: func(ctx *core.Ctx, r *core.Result) {
			cc := uint(c)
			nbChunks := 256 / cc
			if 256%cc != 0 {
				nbChunks++
			}
			var scalars []*big.Int
			seen := map[string]bool{}
			add := func(s *big.Int) {
				if s.Cmp(bigR) < 0 && !seen[s.Text(16)] {
					seen[s.Text(16)] = true
					scalars = append(scalars, s)
				}
			}
			digits := []uint64{1, 1<<(cc-1) - 1, 1 << (cc - 1), 1<<(cc-1) + 1, 1<<cc - 1, 2, 3}
			if c <= 8 {
				digits = nil
				for d := uint64(1); d < 1<<cc; d++ {
					digits = append(digits, d)
				}
			}
			for j := uint(0); j < nbChunks; j++ {
				for _, d := range digits {
					s := new(big.Int).Lsh(new(big.Int).SetUint64(d), cc*j)
					add(s)
					if j > 0 {
						add(new(big.Int).Add(s, new(big.Int).Lsh(pow2(cc-1), cc*(j-1)))) // carry-in from an exactly-half digit
						add(new(big.Int).Add(s, new(big.Int).Lsh(new(big.Int).Sub(pow2(cc), bi(1)), cc*(j-1))))
					}
				}
			}
			for _, s := range sEdge(ctx.Seed, false) {
				add(s)
			}
			for _, mont := range []bool{true, false} {
				for _, nt := range []int{1, 3, 16} {
					in := asScalars(scalars, mont)
					keep := append([]fr.Element(nil), in...)
					var out []fr.Element
					var small int
					desc := fmt.Sprintf("partitionScalars(%d scalars, c=%d, mont=%v, nbTasks=%d)", len(scalars), c, mont, nt)
					if !timed(r, "c09.panic", "bandersnatch.partitionScalars", desc, func() { out, small = bandersnatch.VerifPartitionScalars(in, uint64(c), mont, nt) }) {
						continue
					}
					wantSmall := 0
					for i, s := range scalars {
						r.Evals++
						r.Nontrivial++
						if s.Sign() > 0 && s.Cmp(pow2(cc)) < 0 {
							wantSmall++
						}
						// decode the signed digits
						sum := new(big.Int)
						v := limbsInt(out[i])
						ok := true
						for j := uint(0); j < nbChunks; j++ {
							bits := new(big.Int).And(new(big.Int).Rsh(v, cc*j), new(big.Int).Sub(pow2(cc), bi(1))).Uint64()
							var dg int64
							if bits&(1<<(cc-1)) == 0 {
								dg = int64(bits)
							} else {
								dg = -int64(bits&^(1<<(cc-1))) - 1
							}
							if dg > 1<<(cc-1) || dg < -(1<<(cc-1)) {
								ok = false
							}
							sum.Add(sum, new(big.Int).Lsh(big.NewInt(dg), cc*j))
						}
						if !ok || sum.Cmp(s) != 0 {
							vio(r, "c09.recoding", "bandersnatch.partitionScalars", fmt.Sprintf("c=%d mont=%v s=%s", c, mont, s.Text(16)), "signed digits with sum digit_j*2^(cj) = s", fmt.Sprintf("decoded sum %s from %x", sum.Text(16), out[i][:]))
							break
						}
						if in[i] != keep[i] {
							vio(r, "c09.input_intact", "bandersnatch.partitionScalars", desc, "input scalars unchanged", "modified")
							break
						}
					}
					if small != wantSmall {
						vio(r, "c09.smallcount", "bandersnatch.partitionScalars", desc, fmt.Sprintf("%d small values", wantSmall), fmt.Sprint(small))
					}
				}
			}
			r.Sample(map[string]interface{}{"c": c, "scalars": len(scalars), "example": "digit 2^(c-1) at chunk 3 with a carry-in from an all-ones chunk 2"})
		}})
	}
	// (d) schedules
	type sc struct {
		name string
		c    int
		n    int
		nt   int
		spl  bool
	}
	var scs []sc
	for _, c := range []int{4, 5, 6, 7, 8, 9, 10, 11, 12, 13, 14, 15, 16} {
		for _, n := range []int{1, 2, 3, 5} {
			if !ctx.Thorough() && c > 8 && c <= 12 && n != 3 {
				continue
			}
			if !ctx.Thorough() && c > 12 && n > 1 {
				continue // 2^12..2^15 buckets per chunk make one execution slow: the larger windows run on n = 1 in quick
			}
			for _, spl := range []bool{false, true} {
				if !ctx.Thorough() && c > 14 && spl {
					continue // 2^14+ buckets per chunk: one controlled execution takes seconds
				}
				scs = append(scs, sc{fmt.Sprintf("internal c=%d n=%d split=%v", c, n, spl), c, n, 0, spl})
			}
		}
	}
	for _, nt := range []int{1, 2, 3, 16, 17, 64, 65, 128, 256} {
		for _, n := range []int{1, 2, 3, 4, 5} {
			if !ctx.Thorough() && nt > 128 && n > 3 {
				continue
			}
			scs = append(scs, sc{fmt.Sprintf("public n=%d NbTasks=%d", n, nt), 0, n, nt, false})
		}
	}
	for _, s := range scs {
		s := s
		us = append(us, core.Unit{Name: "schedules " + s.name, Run: func(ctx *core.Ctx, r *core.Result) {
			if !vsched.Instrumented {
				r.Note("seam", "unavailable (fallback flavour)")
				return
			}
			needRef()
			share := 0
			if s.spl {
				share = 100
			}
			mc := smallCase(ctx.Seed, s.n, share, "distinct")
			wb := ref.Compress(mc.want)
			var body func() string
			if s.c > 0 {
				aff := make([]bandersnatch.PointAffine, s.n)
				for i := range mc.pts {
					x, y := ref.Affine(elToRef(&mc.pts[i]))
					aff[i] = bandersnatch.PointAffine{X: fpFromBig(x), Y: fpFromBig(y)}
				}
				scal := asScalars(mc.ss, true)
				body = func() string {
					var p bandersnatch.PointProj
					digits, _ := bandersnatch.VerifPartitionScalars(append([]fr.Element(nil), scal...), uint64(s.c), true, 2)
					bandersnatch.VerifMsmInner(&p, s.c, append([]bandersnatch.PointAffine(nil), aff...), digits, s.spl)
					e := banderwagon.VerifFromProj(p)
					return fmt.Sprintf("%x", e.Bytes())
				}
			} else {
				scal := asScalars(mc.ss, true)
				body = func() string {
					var res banderwagon.Element
					out, err := res.MultiExp(append([]banderwagon.Element(nil), mc.pts...), append([]fr.Element(nil), scal...), banderwagon.MultiExpConfig{NbTasks: s.nt, ScalarsMont: true})
					if err != nil {
						return "error " + err.Error()
					}
					return fmt.Sprintf("%x", out.Bytes())
				}
			}
			st := core.Explore(r, core.SchedSpec{Name: s.name, API: "bandersnatch.MultiExp", Check: "c09.schedule", Body: body, Expect: hx(wb[:]), Mode: "dpor", Opt: explore.Options{DataBudget: 0, MaxExecs: 50000, Deadline: schedDeadline(ctx)}})
			r.Nontrivial += int64(st.Complete)
			r.Note("distinct_outcomes", len(st.Outcomes))
			r.Note("deadlocks", st.Deadlocks)
		}})
	}
	return us
}
