package checks

import (
	"fmt"
	"sort"
	"sync"
	"sync/atomic"

	"github.com/crate-crypto/go-ipa/common/parallel"
	"github.com/crate-crypto/go-ipa/zzverif/vsched"
	"verif.local/engine/core"
	"verif.local/engine/explore"
)

// C20 — the parallel range splitter covers every index exactly once.

// judgeRanges returns "" when the ranges satisfy the statement for (n, m).
func judgeRanges(n, m int, rs [][2]int) string {
	sort.Slice(rs, func(i, j int) bool {
		if rs[i][0] != rs[j][0] {
			return rs[i][0] < rs[j][0]
		}
		return rs[i][1] < rs[j][1]
	})
	lim := m
	if n < lim {
		lim = n
	}
	if len(rs) > lim {
		return fmt.Sprintf("%d invocations started, at most min(n,m)=%d allowed", len(rs), lim)
	}
	pos := 0
	for _, r := range rs {
		if r[0] >= r[1] {
			return fmt.Sprintf("empty or inverted range [%d,%d)", r[0], r[1])
		}
		if r[0] < 0 || r[1] > n {
			return fmt.Sprintf("range [%d,%d) out of bounds for n=%d", r[0], r[1], n)
		}
		if r[0] != pos {
			return fmt.Sprintf("ranges not contiguous/disjoint at %d: next range [%d,%d)", pos, r[0], r[1])
		}
		pos = r[1]
	}
	if pos != n {
		return fmt.Sprintf("union ends at %d, expected %d", pos, n)
	}
	return ""
}

// freeRun drives Execute in pass-through (free-running) mode.
func freeRun(n int, m int, useDefault bool) (rs [][2]int, started, finishedAtReturn int64) {
	var mu sync.Mutex
	var st, fin int64
	work := func(s, e int) {
		atomic.AddInt64(&st, 1)
		mu.Lock()
		rs = append(rs, [2]int{s, e})
		mu.Unlock()
		atomic.AddInt64(&fin, 1)
	}
	if useDefault {
		parallel.Execute(n, work)
	} else {
		parallel.Execute(n, work, m)
	}
	f := atomic.LoadInt64(&fin)
	s := atomic.LoadInt64(&st)
	mu.Lock()
	defer mu.Unlock()
	return append([][2]int(nil), rs...), s, f
}

func init() {
	core.Register(&core.Check{
		ID:    "C20",
		Level: "model_checking",
		Rule: "partition arithmetic: every (n,m) of the stated rectangle is one case (free-running instrumented build), non-trivial when n mod m != 0 or n < m or m is the NumCPU default; " +
			"large worker limits {65..300} on n up to 2048 with m DEcreasing for each n (call-order independence), and (NumCPU, GOMAXPROCS) pairs that differ; schedules: every (n,m) in [0,5]x[1,4] explored without bound (DPOR, cross-checked by reduction-free search for small cases) with a work function that yields between 'started' and 'finished' marks, plus deviation-bounded search on larger cases; a state is a decision point of the explored schedule tree, a transition one visible operation of the real code",
		Assume: []string{"m >= 1 (the statement's domain)", "scheduling points are the visible synchronisation operations (WaitGroup, go, exit, harness counters); sequential consistency",
			"NumCPU default exercised through the vsched.NumCPU seam (runtime.NumCPU rewritten by the overlay)"},
		Units: c20Units,
	})
}

func c20Units(ctx *core.Ctx) []core.Unit {
	var us []core.Unit
	maxN, maxM := 300, 64
	if ctx.Thorough() {
		maxN, maxM = 2048, 300
	}
	// (a) partition arithmetic, sliced by n
	slice := 64
	for lo := 0; lo <= maxN; lo += slice {
		lo := lo
		hi := lo + slice - 1
		if hi > maxN {
			hi = maxN
		}
		us = append(us, core.Unit{Name: fmt.Sprintf("partition n=%d..%d m=1..%d", lo, hi, maxM), Run: func(ctx *core.Ctx, r *core.Result) {
			for n := lo; n <= hi; n++ {
				for m := 1; m <= maxM; m++ {
					var rs [][2]int
					var st, fin int64
					if !timed(r, "c20.panic", "parallel.Execute", fmt.Sprintf("Execute(n=%d, work, m=%d)", n, m), func() { rs, st, fin = freeRun(n, m, false) }) {
						continue
					}
					r.Evals++
					if n%m != 0 || n < m {
						r.Nontrivial++
					}
					in := fmt.Sprintf("Execute(n=%d, work, m=%d)", n, m)
					if msg := judgeRanges(n, m, rs); msg != "" {
						r.Violate(core.Violation{Check: "c20.partition", API: "parallel.Execute", Input: in, Expected: "disjoint contiguous non-empty ranges covering [0,n), at most min(n,m)", Got: msg + fmt.Sprintf(" ranges=%v", rs)})
					}
					if st != fin || int(st) != len(rs) {
						r.Violate(core.Violation{Check: "c20.join", API: "parallel.Execute", Input: in, Expected: "every started invocation finished at return", Got: fmt.Sprintf("started=%d finished=%d", st, fin)})
					}
					if n == 7 && m == 3 {
						r.Sample(map[string]interface{}{"n": n, "m": m, "ranges": rs})
					}
				}
			}
		}})
	}
	us = append(us, core.Unit{Name: "partition: large n (chunks of 100..5000 iterations) x small m", Run: func(ctx *core.Ctx, r *core.Result) {
		var ns []int
		for n := 1000; n <= 1100; n++ {
			ns = append(ns, n)
		}
		ns = append(ns, 2047, 2048, 2049, 4095, 4097, 8191, 10007, 16383, 20000)
		for _, n := range ns {
			for _, m := range []int{1, 2, 3, 4, 5, 7, 8, 9, 16, 17} {
				var rs [][2]int
				var st, fin int64
				in := fmt.Sprintf("Execute(n=%d, work, m=%d)", n, m)
				if !timed(r, "c20.panic", "parallel.Execute", in, func() { rs, st, fin = freeRun(n, m, false) }) {
					continue
				}
				r.Evals++
				r.Nontrivial++
				if msg := judgeRanges(n, m, rs); msg != "" {
					r.Violate(core.Violation{Check: "c20.partition", API: "parallel.Execute", Input: in, Expected: "disjoint contiguous non-empty ranges covering [0,n), at most min(n,m)", Got: msg + fmt.Sprintf(" ranges=%v", rs)})
				}
				if st != fin || int(st) != len(rs) {
					r.Violate(core.Violation{Check: "c20.join", API: "parallel.Execute", Input: in, Expected: "every started invocation finished at return", Got: fmt.Sprintf("started=%d finished=%d", st, fin)})
				}
			}
		}
	}})
	us = append(us, core.Unit{Name: "partition: large worker limits, and decreasing m for the same n (call order)", Run: func(ctx *core.Ctx, r *core.Result) {
		ms := []int{300, 257, 256, 255, 129, 128, 100, 65, 33, 8, 3, 2, 1}
		ns := []int{0, 1, 2, 17, 255, 256, 257, 300, 513, 1000, 1001, 2048}
		for _, n := range ns {
			for _, m := range ms { // decreasing: a later call must not reuse the split of an earlier one
				var rs [][2]int
				var st, fin int64
				in := fmt.Sprintf("Execute(n=%d, work, m=%d) after calls with larger m", n, m)
				if !timed(r, "c20.panic", "parallel.Execute", in, func() { rs, st, fin = freeRun(n, m, false) }) {
					continue
				}
				r.Evals++
				r.Nontrivial++
				if msg := judgeRanges(n, m, rs); msg != "" {
					vio(r, "c20.partition", "parallel.Execute", in, "disjoint contiguous non-empty ranges covering [0,n), at most min(n,m)", msg)
				}
				if st != fin {
					vio(r, "c20.join", "parallel.Execute", in, "every started invocation finished at return", fmt.Sprintf("started=%d finished=%d", st, fin))
				}
			}
		}
		r.Sample(map[string]interface{}{"m": ms, "n": ns, "order": "m decreasing for each n"})
	}})
	// default-m form under the NumCPU seam
	us = append(us, core.Unit{Name: "partition default-m under NumCPU seam", Run: func(ctx *core.Ctx, r *core.Result) {
		if !vsched.Instrumented {
			r.Note("seam", "unavailable (fallback flavour)")
			return
		}
		cpus := []int{1, 2, 3, 4, 5, 6, 7, 8, 9, 10, 11, 12, 13, 14, 15, 16, 17, 32, 64, 300}
		for _, k := range cpus {
			vsched.SetNumCPU(k)
			for n := 0; n <= maxN; n++ {
				var rs [][2]int
				var st, fin int64
				if !timed(r, "c20.panic", "parallel.Execute", fmt.Sprintf("Execute(n=%d, work) with NumCPU=%d", n, k), func() { rs, st, fin = freeRun(n, 0, true) }) {
					continue
				}
				r.Evals++
				r.Nontrivial++
				in := fmt.Sprintf("Execute(n=%d, work) with NumCPU=%d", n, k)
				if msg := judgeRanges(n, k, rs); msg != "" {
					r.Violate(core.Violation{Check: "c20.partition", API: "parallel.Execute", Input: in, Expected: "disjoint contiguous non-empty ranges covering [0,n), at most min(n,NumCPU)", Got: msg})
				}
				if st != fin {
					r.Violate(core.Violation{Check: "c20.join", API: "parallel.Execute", Input: in, Expected: "every started invocation finished at return", Got: fmt.Sprintf("started=%d finished=%d", st, fin)})
				}
			}
		}
		vsched.SetNumCPU(0)
		// CPU count and GOMAXPROCS that differ: the default limit is the CPU count
		for _, cfg := range [][2]int{{4, 16}, {16, 48}, {2, 1}, {16, 4}} {
			vsched.SetNumCPU(cfg[0])
			vsched.SetGoMaxProcs(cfg[1])
			for _, n := range []int{0, 1, 3, 5, 17, 100} {
				rs, st, fin := freeRun(n, 0, true)
				r.Evals++
				r.Nontrivial++
				in := fmt.Sprintf("Execute(n=%d, work) with NumCPU=%d GOMAXPROCS=%d", n, cfg[0], cfg[1])
				if msg := judgeRanges(n, cfg[0], rs); msg != "" {
					vio(r, "c20.partition", "parallel.Execute", in, "disjoint contiguous non-empty ranges covering [0,n), at most min(n,NumCPU)", msg)
				}
				if st != fin {
					vio(r, "c20.join", "parallel.Execute", in, "every started invocation finished at return", fmt.Sprintf("started=%d finished=%d", st, fin))
				}
			}
		}
		vsched.SetNumCPU(0)
		vsched.SetGoMaxProcs(0)
		r.Sample(map[string]interface{}{"numcpu_values": cpus, "n_range": []int{0, maxN}})
	}})
	// (b) schedules
	body := func(n, m int) func() string {
		return func() string {
			var started, finished vsched.Counter
			var rs [][2]int
			parallel.Execute(n, func(s, e int) {
				started.Add(1)
				rs = append(rs, [2]int{s, e}) // only one managed goroutine runs at a time
				vsched.Yield()
				finished.Add(1)
			}, m)
			f := finished.Read()
			s := started.Read()
			if msg := judgeRanges(n, m, rs); msg != "" {
				return "BAD-RANGES " + msg
			}
			return fmt.Sprintf("started=%d finishedAtReturn=%d", s, f)
		}
	}
	expect := func(n, m int) string {
		k := m
		if n < k {
			k = n
		}
		return fmt.Sprintf("started=%d finishedAtReturn=%d", k, k)
	}
	schedUnit := func(n, m int, mode string, opt explore.Options) core.Unit {
		name := fmt.Sprintf("schedules %s Execute(n=%d,m=%d)", mode, n, m)
		return core.Unit{Name: name, Run: func(ctx *core.Ctx, r *core.Result) {
			if !vsched.Instrumented {
				r.Note("seam", "unavailable (fallback flavour)")
				return
			}
			st := core.Explore(r, core.SchedSpec{Name: name, API: "parallel.Execute", Check: "c20.schedule", Body: body(n, m), Expect: expect(n, m), Mode: mode, Opt: opt})
			r.Nontrivial += int64(st.Complete)
			r.Note("distinct_outcomes", len(st.Outcomes))
		}}
	}
	for n := 0; n <= 5; n++ {
		for m := 1; m <= 4; m++ {
			us = append(us, schedUnit(n, m, "dpor", explore.Options{DataBudget: -1, Deadline: schedDeadline(ctx)}))
		}
	}
	for _, nm := range [][2]int{{1, 1}, {2, 2}, {3, 2}, {5, 2}} {
		us = append(us, schedUnit(nm[0], nm[1], "naive", explore.Options{Deadline: schedDeadline(ctx)}))
	}
	bd := 1
	if ctx.Thorough() {
		bd = 2
	}
	for _, nm := range [][2]int{{7, 3}, {16, 16}, {17, 16}} {
		us = append(us, schedUnit(nm[0], nm[1], "bounded", explore.Options{MaxBound: bd, Deadline: schedDeadline(ctx)}))
	}
	if ctx.Thorough() {
		us = append(us, schedUnit(3, 3, "naive", explore.Options{Deadline: schedDeadline(ctx)}))
		us = append(us, schedUnit(9, 5, "dpor", explore.Options{DataBudget: -1, Deadline: schedDeadline(ctx)}))
		us = append(us, schedUnit(64, 16, "dpor", explore.Options{DataBudget: -1, Deadline: schedDeadline(ctx)}))
	}
	return us
}
