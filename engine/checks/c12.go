package checks

import (
	"bytes"
	"context"
	"crypto/sha256"
	"fmt"
	"github.com/crate-crypto/go-ipa/bandersnatch"
	"github.com/crate-crypto/go-ipa/bandersnatch/fp"
	"github.com/crate-crypto/go-ipa/common/parallel"
	"math/big"
	"os"
	"os/exec"
	"strings"
	"sync"
	"time"

	multiproof "github.com/crate-crypto/go-ipa"
	"github.com/crate-crypto/go-ipa/bandersnatch/fr"
	"github.com/crate-crypto/go-ipa/banderwagon"
	"github.com/crate-crypto/go-ipa/common"
	"github.com/crate-crypto/go-ipa/ipa"
	"github.com/crate-crypto/go-ipa/zzverif/vsched"
	"verif.local/engine/core"
	"verif.local/engine/explore"
	"verif.local/engine/ref"
)

// C12 — a shared configuration can be used concurrently without interference.

type c12op struct {
	name  string
	heavy bool
	f     func(c *ipa.IPAConfig, seed int64, slot int) string // runs the call on its own argument objects, returns an output digest
}

func c12Ops() []c12op {
	big33 := func(slot int) []byte {
		b := bytes.Repeat([]byte{0xff}, 33)
		b[32] = byte(slot)
		return b
	}
	return []c12op{
		{"fr.SetBytes(33 bytes, reducing)", false, func(c *ipa.IPAConfig, seed int64, slot int) string {
			var e fr.Element
			e.SetBytes(big33(slot))
			return frToBig(e).Text(16)
		}},
		{"fr.SetBytesLE", false, func(c *ipa.IPAConfig, seed int64, slot int) string {
			var e fr.Element
			e.SetBytesLE(big33(slot))
			return frToBig(e).Text(16)
		}},
		{"fr.SetBytesLECanonical(valid then invalid)", false, func(c *ipa.IPAConfig, seed int64, slot int) string {
			var e, f fr.Element
			b := make([]byte, 32)
			b[0] = byte(7 + slot)
			_, err1 := e.SetBytesLECanonical(b)
			_, err2 := f.SetBytesLECanonical(bytes.Repeat([]byte{0xff}, 32))
			return fmt.Sprint(frToBig(e).Text(16), err1, err2 != nil)
		}},
		{"fr.SetString / String", false, func(c *ipa.IPAConfig, seed int64, slot int) string {
			var e fr.Element
			e.SetString(fmt.Sprintf("9876543210987654321098765432109876543210%d", slot))
			return e.String()
		}},
		{"fr.SetBigInt(>= r)", false, func(c *ipa.IPAConfig, seed int64, slot int) string {
			var e fr.Element
			e.SetBigInt(new(big.Int).Add(bigR, bi(int64(5+slot))))
			return frToBig(e).Text(16)
		}},
		{"Transcript: append + 2 challenges", false, func(c *ipa.IPAConfig, seed int64, slot int) string {
			t := common.NewTranscript(fmt.Sprintf("t%d", slot))
			s := frFromBig(bi(int64(slot)))
			t.AppendScalar(&s, []byte("s"))
			a := t.ChallengeScalar([]byte("a"))
			b := t.ChallengeScalar([]byte("b"))
			return frToBig(a).Text(16) + frToBig(b).Text(16)
		}},
		{"Transcript with a label slice shared by all callers (spare capacity)", false, func(c *ipa.IPAConfig, seed int64, slot int) string {
			t := common.NewTranscript("shared-label")
			s := frFromBig(bi(int64(40 + slot)))
			m := []byte{byte(slot), 0xAA, 0xBB}
			t.AppendMessage(m, c12SharedLabel)
			t.AppendScalar(&s, c12SharedLabel)
			t.DomainSep(c12SharedLabel)
			a := t.ChallengeScalar(c12SharedLabel)
			return frToBig(a).Text(16)
		}},
		{"Element.SetBytes / Bytes / MapToScalarField", false, func(c *ipa.IPAConfig, seed int64, slot int) string {
			src := c.SRS[20+slot].Bytes()
			var e banderwagon.Element
			err := e.SetBytes(src[:])
			var m fr.Element
			e.MapToScalarField(&m)
			return fmt.Sprint(hx(src[:]), err, e.Bytes() == src, frToBig(m).Text(16))
		}},
		{"common.ReadPoint / MultiProof.Read / Write", false, func(c *ipa.IPAConfig, seed int64, slot int) string {
			src := c.SRS[30+slot].Bytes()
			p, err := common.ReadPoint(bytes.NewReader(src[:]))
			hb := honestProofBytes(seed, slot)
			var mp multiproof.MultiProof
			err2 := mp.Read(bytes.NewReader(hb))
			var out bytes.Buffer
			err3 := mp.Write(&out)
			s, err4 := common.ReadScalar(bytes.NewReader(hb[544:]))
			ok := p != nil && p.Bytes() == src
			return fmt.Sprint(ok, err, err2, err3, err4, bytes.Equal(out.Bytes(), hb), s != nil)
		}},
		{"ipa.NewPrecomputedWeights + barycentric evaluation", true, func(c *ipa.IPAConfig, seed int64, slot int) string {
			pw := ipa.NewPrecomputedWeights()
			z := frFromBig(bi(int64(1000 + slot)))
			b := pw.ComputeBarycentricCoefficients(z)
			f := frsFromBig(pick(polyAlphabet(seed), 12).V)
			q := pw.DivideOnDomain(uint8(9+slot), f)
			return frsDigest(b) + frsDigest(q) + fmt.Sprint(core.Fingerprint(pw))
		}},
		{"Commit(sparse)", true, func(c *ipa.IPAConfig, seed int64, slot int) string {
			v := make([]fr.Element, 8)
			v[slot] = frFromBig(prfR(seed, "c12", slot))
			v[7] = fr.One()
			e := c.Commit(v)
			return hx(func() []byte { b := e.Bytes(); return b[:] }())
		}},
		{"MultiScalar(3 points)", true, func(c *ipa.IPAConfig, seed int64, slot int) string {
			pts := []banderwagon.Element{c.SRS[slot], c.SRS[slot+1], c.SRS[slot+2]}
			sc := []fr.Element{fr.One(), frFromBig(prfR(seed, "c12m", slot)), frFromBig(bi(3))}
			e, err := ipa.MultiScalar(pts, sc)
			return fmt.Sprintf("%x %v", e.Bytes(), err)
		}},
		{"BatchNormalize(3)", true, func(c *ipa.IPAConfig, seed int64, slot int) string {
			a, b, d := reprOf(c.SRS[50+slot], reprProj), reprOf(c.SRS[60+slot], reprProjFlip), reprOf(c.SRS[70+slot], reprProj)
			err := banderwagon.BatchNormalize([]*banderwagon.Element{&a, &b, &d, &a})
			return fmt.Sprint(elString(&a), elString(&b), elString(&d), err)
		}},
		{"CheckIPAProof", true, func(c *ipa.IPAConfig, seed int64, slot int) string {
			p := c12Fixture(c, seed)
			ok, err := ipa.CheckIPAProof(common.NewTranscript("ipa"), c, p.cm, p.proof, p.z, p.y)
			return fmt.Sprint(ok, err)
		}},
		{"CreateIPAProof", true, func(c *ipa.IPAConfig, seed int64, slot int) string {
			p := c12Fixture(c, seed)
			pr, err := ipa.CreateIPAProof(common.NewTranscript("ipa"), c, p.cm, p.a, p.z)
			return fmt.Sprintf("%x %v", ipaProofBytes(&pr), err)
		}},
		{"CreateIPAProof + CheckIPAProof at an in-domain point", true, func(c *ipa.IPAConfig, seed int64, slot int) string {
			p := c12Fixture(c, seed)
			z := frFromBig(bi(int64(7 + 100*slot)))
			pr, err := ipa.CreateIPAProof(common.NewTranscript("ipa"), c, p.cm, p.a, z)
			if err != nil {
				return "error " + err.Error()
			}
			ok, verr := ipa.CheckIPAProof(common.NewTranscript("ipa"), c, p.cm, pr, z, p.a[7+100*slot])
			return fmt.Sprintf("%x %v %v", sha256.Sum256(ipaProofBytes(&pr)), ok, verr)
		}},
		{"CreateMultiProof(n=2) + CheckMultiProof", true, func(c *ipa.IPAConfig, seed int64, slot int) string {
			polys := polyAlphabet(seed)
			s := stmt{label: "vt", zs: []int{3 + slot, 200}, polys: []namedPoly{polys[10], polys[12]}}
			is := s.build(c)
			p, err := multiproof.CreateMultiProof(common.NewTranscript("vt"), c, is.Cs, is.fs, is.zs)
			if err != nil {
				return "error " + err.Error()
			}
			ok, verr := multiproof.CheckMultiProof(common.NewTranscript("vt"), c, p, is.Cs, is.ys, is.zs)
			return fmt.Sprintf("%x %v %v", proofBytes(p), ok, verr)
		}},
		{"DivideOnDomain / ComputeBarycentricCoefficients on the shared weights", false, func(c *ipa.IPAConfig, seed int64, slot int) string {
			f := frsFromBig(pick(polyAlphabet(seed), 12+slot).V)
			q := c.PrecomputedWeights.DivideOnDomain(uint8(9+100*slot), f)
			b := c.PrecomputedWeights.ComputeBarycentricCoefficients(frFromBig(bi(int64(1000 + slot))))
			return frsDigest(q) + frsDigest(b)
		}},
		{"Element arithmetic (ScalarMul, Add, Sub, Double, Neg, Equal)", false, func(c *ipa.IPAConfig, seed int64, slot int) string {
			a, b := reprOf(c.SRS[80+slot], reprProj), c.SRS[90+slot]
			k := frFromBig(prfR(seed, "c12e", slot))
			var x, y, z, w banderwagon.Element
			x.ScalarMul(&a, &k)
			y.Add(&x, &b)
			z.Sub(&y, &a)
			w.Double(&z)
			w.Neg(&w)
			return fmt.Sprint(elString(&x), elString(&w), x.Equal(&w), w.Equal(&w))
		}},
		{"fr arithmetic (Mul, Inverse, Exp, Sqrt, Legendre, Div)", false, func(c *ipa.IPAConfig, seed int64, slot int) string {
			a, b := frFromBig(prfR(seed, "c12f", slot)), frFromBig(prfR(seed, "c12g", slot))
			out := make([]fr.Element, 5)
			out[0].Mul(&a, &b)
			out[1].Inverse(&a)
			out[2].Exp(b, big.NewInt(int64(65537+slot)))
			out[3].Square(&a)
			out[3].Sqrt(&out[3])
			out[3].Square(&out[3])
			out[4].Div(&a, &b)
			return frsDigest(out) + fmt.Sprint(a.Legendre())
		}},
		{"batch helpers (ElementsToBytes, BatchToBytesUncompressed, BatchMapToScalarField, fr.BatchInvert)", true, func(c *ipa.IPAConfig, seed int64, slot int) string {
			els := []banderwagon.Element{reprOf(c.SRS[100+slot], reprProj), c.SRS[110+slot], reprOf(c.SRS[120+slot], reprProjFlip)}
			ptrs := []*banderwagon.Element{&els[0], &els[1], &els[2], &els[0]}
			s := ""
			for _, b := range banderwagon.ElementsToBytes(ptrs...) {
				s += hx(b[:6])
			}
			for _, b := range banderwagon.BatchToBytesUncompressed(ptrs...) {
				s += hx(b[:6])
			}
			res := make([]*fr.Element, len(ptrs))
			for i := range res {
				res[i] = new(fr.Element)
			}
			err := banderwagon.BatchMapToScalarField(res, ptrs)
			for _, x := range res {
				s += frToBig(*x).Text(16)[:8]
			}
			inv := fr.BatchInvert([]fr.Element{frFromBig(bi(int64(3 + slot))), {}, frFromBig(prfR(seed, "c12b", slot))})
			return s + frsDigest(inv) + fmt.Sprint(err)
		}},
		{"parallel.Execute(37, work, 3)", true, func(c *ipa.IPAConfig, seed int64, slot int) string {
			n := 37 + slot
			hits := make([]int, n)
			parallel.Execute(n, func(start, end int) {
				for i := start; i < end; i++ {
					hits[i] += 1 + slot
				}
			}, 3)
			return fmt.Sprint(hits)
		}},
		{"Element.MultiExp(20 points) with explicit NbTasks 1, 2 and 3", true, func(c *ipa.IPAConfig, seed int64, slot int) string {
			pts := make([]banderwagon.Element, 20)
			sc := make([]fr.Element, 20)
			for i := range pts {
				pts[i] = c.SRS[(i*3+slot)%256]
				sc[i] = frFromBig(prfR(seed, "c12x", i+100*slot))
			}
			out := ""
			for _, nb := range []int{1, 2, 3} {
				var e banderwagon.Element
				_, err := e.MultiExp(pts, sc, banderwagon.MultiExpConfig{NbTasks: nb, ScalarsMont: true})
				out += elString(&e) + fmt.Sprint(err)
			}
			return out
		}},
		{"calls that end with an error, then the same calls on valid input", true, func(c *ipa.IPAConfig, seed int64, slot int) string {
			out := ""
			pts := []banderwagon.Element{c.SRS[slot], c.SRS[slot+1], c.SRS[slot+2]}
			sc := []fr.Element{frFromBig(bi(3)), frFromBig(prfR(seed, "c12y", slot)), fr.One()}
			var e banderwagon.Element
			_, err := e.MultiExp(pts, sc[:2], banderwagon.MultiExpConfig{NbTasks: 2, ScalarsMont: true})
			out += fmt.Sprint(err != nil)
			_, err = e.MultiExp(pts, sc, banderwagon.MultiExpConfig{NbTasks: 2, ScalarsMont: true})
			out += elString(&e) + fmt.Sprint(err)
			// BatchNormalize of 40 elements with an un-normalisable one, then of 40 valid ones
			mk := func(bad bool) []*banderwagon.Element {
				l := make([]*banderwagon.Element, 40)
				for i := range l {
					v := reprOf(c.SRS[(i+slot)%256], reprProj)
					l[i] = &v
				}
				if bad {
					var z banderwagon.Element
					l[17] = &z
				}
				return l
			}
			out += fmt.Sprint(banderwagon.BatchNormalize(mk(true)) != nil)
			good := mk(false)
			out += fmt.Sprint(banderwagon.BatchNormalize(good)) + elString(good[0]) + elString(good[39])
			// a prover call with a polynomial that is too short, then the padded one
			p := c12Fixture(c, seed)
			_, err = ipa.CreateIPAProof(common.NewTranscript("ipa"), c, p.cm, p.a[:255], p.z)
			out += fmt.Sprint(err != nil)
			pr, err := ipa.CreateIPAProof(common.NewTranscript("ipa"), c, p.cm, p.a, p.z)
			out += fmt.Sprintf("%x %v", sha256.Sum256(ipaProofBytes(&pr)), err)
			// a verifier call on a malformed proof, then on the honest one
			bad := ipa.IPAProof{L: p.proof.L[:7], R: p.proof.R, A_scalar: p.proof.A_scalar}
			ok, err := ipa.CheckIPAProof(common.NewTranscript("ipa"), c, p.cm, bad, p.z, p.y)
			out += fmt.Sprint(ok, err != nil)
			ok, err = ipa.CheckIPAProof(common.NewTranscript("ipa"), c, p.cm, p.proof, p.z, p.y)
			out += fmt.Sprint(ok, err)
			// decoders
			var x fr.Element
			_, err = x.SetBytesLECanonical(bytes.Repeat([]byte{0xff}, 32))
			var q banderwagon.Element
			err2 := q.SetBytes(bytes.Repeat([]byte{0xff}, 32))
			b := c.SRS[9+slot].Bytes()
			err3 := q.SetBytes(b[:])
			return out + fmt.Sprint(err != nil, err2 != nil, err3) + elString(&q)
		}},
		{"Transcript with 1500 pending bytes before each of 3 challenges", false, func(c *ipa.IPAConfig, seed int64, slot int) string {
			t := common.NewTranscript(fmt.Sprintf("big%d", slot))
			out := ""
			for round := 0; round < 3; round++ {
				for i := 0; i < 47; i++ {
					s := frFromBig(bi(int64(1000*slot + 50*round + i)))
					t.AppendScalar(&s, []byte("s")) // 33 bytes each
				}
				x := t.ChallengeScalar([]byte("c"))
				out += frToBig(x).Text(16)[:16]
			}
			return out
		}},
		{"fp.SqrtPrecomp / bandersnatch.GetPointFromX (both roots)", false, func(c *ipa.IPAConfig, seed int64, slot int) string {
			v := fpFromBig(bi(int64(1234567+slot) * int64(1234567+slot)))
			x := fpFromBig(bi(int64(3 + 4*slot))) // 3 and 7 are abscissae of curve points
			r := fp.SqrtPrecomp(&v)
			// the same abscissa several times in a row (memoised implementations answer the repeats differently)
			p1 := bandersnatch.GetPointFromX(&x, true)
			p2 := bandersnatch.GetPointFromX(&x, true)
			p3 := bandersnatch.GetPointFromX(&x, false)
			p4 := bandersnatch.GetPointFromX(&x, false)
			r2 := fp.SqrtPrecomp(&v)
			out := fmt.Sprint(r != nil, p1 != nil, p2 != nil, p3 != nil, p4 != nil, r2 != nil && r != nil && r2.Equal(r))
			if r != nil {
				var sq fp.Element
				sq.Square(r)
				out += fmt.Sprint(sq.Equal(&v))
			}
			for _, p := range []*bandersnatch.PointAffine{p1, p2, p3, p4} {
				if p != nil {
					out += p.X.String() + "," + p.Y.String() + ";"
				}
			}
			return out
		}},
		{"CreateMultiProof(n=5 and n=17: more openings than workers)", true, func(c *ipa.IPAConfig, seed int64, slot int) string {
			polys := polyAlphabet(seed)
			out := ""
			for _, n := range []int{5, 17} {
				s := stmt{label: "vt"}
				for i := 0; i < n; i++ {
					s.zs = append(s.zs, (i*37+slot)%256)
					s.polys = append(s.polys, pick(polys, 8+i%6))
				}
				is := s.build(c)
				p, err := multiproof.CreateMultiProof(common.NewTranscript("vt"), c, is.Cs, is.fs, is.zs)
				if err != nil {
					return "error " + err.Error()
				}
				out += fmt.Sprintf("%x ", sha256.Sum256(proofBytes(p)))
			}
			return out
		}},
	}
}

// c12SharedLabel: one label value, built at run time with spare capacity, used read-only by every caller.
var c12SharedLabel = append(make([]byte, 0, 64), "lbl"...)

type c12fix struct {
	a     []fr.Element
	cm    banderwagon.Element
	z, y  fr.Element
	proof ipa.IPAProof
}

var (
	c12fixOnce sync.Once
	c12fixVal  c12fix
)

func c12Fixture(c *ipa.IPAConfig, seed int64) c12fix {
	c12fixOnce.Do(func() {
		polys := polyAlphabet(seed)
		a := frsFromBig(polys[12].V)
		cm := c.Commit(a)
		z := frFromBig(bi(300))
		pr, err := ipa.CreateIPAProof(common.NewTranscript("ipa"), c, cm, a, z)
		if err != nil {
			panic(core.ImplFault{API: "ipa.CreateIPAProof", Input: "honest opening at 300", Got: "error: " + err.Error()})
		}
		b := c.PrecomputedWeights.ComputeBarycentricCoefficients(z)
		y, _ := ipa.InnerProd(a, b)
		c12fixVal = c12fix{a, cm, z, y, pr}
	})
	f := c12fixVal
	f.a = append([]fr.Element(nil), f.a...)
	f.proof.L = append([]banderwagon.Element(nil), f.proof.L...)
	f.proof.R = append([]banderwagon.Element(nil), f.proof.R...)
	return f
}

// c12Free runs the bodies free-running (real goroutines) and compares with the sequential outputs; used
// by the default flavour and, through -rununit, by the -race flavour.
// c12ProcessStart: the very first constructions of the process, concurrently (once per process, before
// anything else has touched the library): process-wide lazily shared state would be built under contention here.
var c12StartOnce sync.Once

func c12ProcessStart(r *core.Result) {
	c12StartOnce.Do(func() {
		if confVal != nil {
			return // the configuration already exists in this process: no longer a first use
		}
		// four callers, two of them in the opposite order: the second pair reaches each construction after the
		// first pair has been through it, without any synchronisation in between — lazily built shared state
		// that is published before it is complete is then read by a late-comer whatever the timing
		pws := make([]*ipa.PrecomputedWeights, 4)
		srs := make([][]banderwagon.Element, 4)
		if timed(r, "c12.panic", "ipa.NewPrecomputedWeights / ipa.GenerateRandomPoints", "4 concurrent first constructions in a fresh process (two callers build the weights first, two the generators first)", func() {
			var wg sync.WaitGroup
			for i := range pws {
				wg.Add(1)
				go func(i int) {
					defer wg.Done()
					if i%2 == 0 {
						srs[i] = ipa.GenerateRandomPoints(256)
						pws[i] = ipa.NewPrecomputedWeights()
					} else {
						pws[i] = ipa.NewPrecomputedWeights()
						srs[i] = ipa.GenerateRandomPoints(256)
					}
				}(i)
			}
			wg.Wait()
		}) {
			alone := ipa.GenerateRandomPoints(256)
			for i := range srs {
				r.Evals++
				same := len(srs[i]) == 256 && len(alone) == 256
				for k := 0; same && k < 256; k++ {
					if srs[i][k].Bytes() != alone[k].Bytes() || srs[i][k].Bytes() != ref.Compress(ref.SRS()[k]) {
						same = false
					}
				}
				if !same {
					vio(r, "c12.interference", "ipa.GenerateRandomPoints", fmt.Sprintf("4 concurrent first derivations in a fresh process (caller %d)", i), "the first 256 generators of the reference CRS", "different points")
				}
			}
		}
		want := core.Fingerprint(ipa.NewPrecomputedWeights())
		for i, pw := range pws {
			r.Evals++
			if core.Fingerprint(pw) != want {
				vio(r, "c12.interference", "ipa.NewPrecomputedWeights", fmt.Sprintf("4 concurrent first constructions in a fresh process (instance %d)", i), "the same tables as a construction executed alone", "different tables")
			}
		}
	})
}

func c12Free(r *core.Result, seed int64, reps int) {
	c12ProcessStart(r)
	c := conf()
	ops := c12Ops()
	// Phase A — first use: on the freshly built configuration (nothing has been called yet in this process),
	// every operation in both argument slots, all at once; lazily built or memoised shared state is
	// initialised under contention here, not by a sequential warm-up.
	first := make([][2]string, len(ops))
	if !timed(r, "c12.panic", "concurrent API calls", "first use of a fresh configuration: all operations x 2 argument slots concurrently (free-running)", func() {
		var wg sync.WaitGroup
		for i := range ops {
			for slot := 0; slot < 2; slot++ {
				wg.Add(1)
				go func(i, slot int) {
					defer wg.Done()
					if slot == 1 {
						// late-comer: reaches its own operation after the slot-0 caller has been through it,
						// with no synchronisation in between
						ops[(i+len(ops)/2)%len(ops)].f(c, seed, 1)
					}
					first[i][slot] = ops[i].f(c, seed, slot)
				}(i, slot)
			}
		}
		wg.Wait()
	}) {
		return
	}
	alone := make([][2]string, len(ops))
	for i, op := range ops {
		alone[i][0] = op.f(c, seed, 0)
		alone[i][1] = op.f(c, seed, 1)
		r.Evals++
		for slot := 0; slot < 2; slot++ {
			if first[i][slot] != alone[i][slot] {
				vio(r, "c12.interference", op.name, fmt.Sprintf("first use of a fresh configuration: all %d operations x 2 argument slots concurrently (free-running, GOMAXPROCS=%s)", len(ops), os.Getenv("GOMAXPROCS")), "same output as when executed alone: "+clipS(alone[i][slot]), clipS(first[i][slot]))
			}
		}
	}
	// Phase B — bursts: many more callers than CPUs inside the same operation at once (process-wide bounded
	// resources, if any, are exhausted here)
	for i, op := range ops {
		burst := 0
		switch {
		case strings.HasPrefix(op.name, "MultiScalar"):
			burst = 96
		case strings.HasPrefix(op.name, "Commit"), strings.HasPrefix(op.name, "BatchNormalize"), strings.HasPrefix(op.name, "Transcript: append"):
			burst = 64
		case strings.HasPrefix(op.name, "CheckIPAProof"), strings.HasPrefix(op.name, "batch helpers"), strings.HasPrefix(op.name, "Element.SetBytes"), strings.HasPrefix(op.name, "Transcript with 1500"):
			burst = 40
		}
		if burst == 0 {
			continue
		}
		outs := make([]string, burst)
		if !timed(r, "c12.panic", op.name, fmt.Sprintf("%d concurrent callers of %s (free-running)", burst, op.name), func() {
			var wg sync.WaitGroup
			for k := 0; k < burst; k++ {
				wg.Add(1)
				go func(k int) { defer wg.Done(); outs[k] = op.f(c, seed, k%2) }(k)
			}
			wg.Wait()
		}) {
			continue
		}
		r.Evals++
		for k := range outs {
			if outs[k] != alone[i][k%2] {
				vio(r, "c12.interference", op.name, fmt.Sprintf("%d concurrent callers (free-running, GOMAXPROCS=%s)", burst, os.Getenv("GOMAXPROCS")), "same output as when executed alone: "+clipS(alone[i][k%2]), clipS(outs[k]))
				break
			}
		}
	}
	c12SharedInputs(r, c, seed)
	fp0 := sharedFingerprint(c)
	for rep := 0; rep < reps; rep++ {
		for i := range ops {
			for j := i; j < len(ops); j++ {
				var wg sync.WaitGroup
				out := make([]string, 4)
				run := func(k, oi, slot int) {
					defer wg.Done()
					out[k] = ops[oi].f(c, seed, slot)
				}
				if !timed(r, "c12.panic", "concurrent API calls", fmt.Sprintf("%s || %s (free-running)", ops[i].name, ops[j].name), func() {
					wg.Add(4)
					go run(0, i, 0)
					go run(1, j, 1)
					go run(2, j, 0)
					go run(3, i, 1)
					wg.Wait()
				}) {
					continue
				}
				r.Evals++
				r.Nontrivial++
				for k, exp := range []string{alone[i][0], alone[j][1], alone[j][0], alone[i][1]} {
					if out[k] != exp {
						vio(r, "c12.interference", ops[[]int{i, j, j, i}[k]].name, fmt.Sprintf("concurrently: %s || %s (free-running, GOMAXPROCS=%s)", ops[i].name, ops[j].name, os.Getenv("GOMAXPROCS")), "same output as when executed alone: "+clipS(exp), clipS(out[k]))
					}
				}
			}
		}
	}
	if sharedFingerprint(c) != fp0 {
		vio(r, "c12.shared", "concurrent calls", "all pairs free-running", "configuration and package variables unchanged", "shared fingerprint changed")
	}
}

// c12SharedInputs: several callers inside the same call on the SAME read-only argument objects (everything
// except the commitments handed to proof creation, which the prover may re-normalise). Inputs are never
// written (C13), so sharing them is as safe as sharing the configuration; under -race any store into them
// is reported.
func c12SharedInputs(r *core.Result, c *ipa.IPAConfig, seed int64) {
	const callers = 4
	for _, op := range roMenu() {
		// the expected output comes from a separate copy of the arguments: the objects the concurrent callers
		// share have not been through any call before
		g := newPlain(1 << 20)
		var call func() string
		var alone string
		if !guard(r, "c12.panic", op.name, "shared read-only arguments: preparing", func() {
			alone = op.prep(c, seed, newPlain(1<<20))()
			call = op.prep(c, seed, g)
		}) {
			continue
		}
		outs := make([]string, callers)
		if !timed(r, "c12.panic", op.name, fmt.Sprintf("%d concurrent callers sharing the same read-only argument objects (free-running)", callers), func() {
			var wg sync.WaitGroup
			for k := 0; k < callers; k++ {
				wg.Add(1)
				go func(k int) { defer wg.Done(); outs[k] = call() }(k)
			}
			wg.Wait()
		}) {
			continue
		}
		r.Evals++
		for k := range outs {
			if outs[k] != alone {
				vio(r, "c12.interference", op.name, fmt.Sprintf("%d concurrent callers sharing the same read-only argument objects (free-running, GOMAXPROCS=%s)", callers, os.Getenv("GOMAXPROCS")), "same output as when executed alone: "+clipS(alone), clipS(outs[k]))
				break
			}
		}
		if after := call(); after != alone {
			vio(r, "c12.interference", op.name, "the same call alone, after the concurrent callers sharing its arguments", "same output as before: "+clipS(alone), clipS(after))
		}
	}
}

func clipS(s string) string {
	if len(s) > 80 {
		return s[:80] + "…"
	}
	return s
}

func init() {
	core.Register(&core.Check{
		ID: "C12", Level: "model_checking",
		Rule:        "harnesses of 2-3 goroutines sharing one IPAConfig, the package tables and the big.Int pool, operations chosen to collide on the shared objects: (1) ALL 2-subsets (with repetition) and a family of 3-subsets of 9 short operations (fr decoders/printers through the pool, transcripts, element codec): unbounded DPOR over every interleaving and every sync.Pool answer, pooled objects poisoned on Put; (2) pairs of a heavy call (NewPrecomputedWeights, Commit, MultiScalar, BatchNormalize, CheckIPAProof, CreateIPAProof in and out of the domain, CreateMultiProof+Check with 2, 5 and 17 openings, also under NumCPU 3,4,16) with a short one and heavy-heavy pairs: DPOR under a time cap (cap reported); oracle: every call's output equals its output when executed alone, no deadlock state, shared fingerprint unchanged; (3) race pass: all pairs of the same bodies free-running in the -race build under GOMAXPROCS 1,2,4,16 (first-use phase on a fresh configuration, then every pair; 3 repetitions in thorough) — any report is a violation; a state is a decision point of the explored schedule tree; non-trivial = executions with at least one scheduling point where two goroutines address the same shim object",
		Assume:      []string{"scheduling points = visible synchronisation operations; sequential consistency; data-race freedom is discharged by the separate free-running -race pass (a cooperative scheduler would blind the detector)", "heavy pairs are explored under a wall-clock cap, reported in caps_hit"},
		UnitTimeout: 20 * time.Minute,
		Units:       c12Units,
	})
}

func c12Units(ctx *core.Ctx) []core.Unit {
	var us []core.Unit
	ops := c12Ops()
	var short, heavy []int
	for i, op := range ops {
		if op.heavy {
			heavy = append(heavy, i)
		} else {
			short = append(short, i)
		}
	}
	schedCPU := 2
	sched := func(name string, idx []int, opt explore.Options, mode string) core.Unit {
		cpu := schedCPU
		return core.Unit{Name: name, Run: func(ctx *core.Ctx, r *core.Result) {
			if !vsched.Instrumented {
				r.Note("seam", "unavailable (fallback flavour)")
				return
			}
			c := conf()
			old := vsched.PoolPoison
			vsched.PoolPoison = poisonBig
			defer func() { vsched.PoolPoison = old }()
			vsched.SetNumCPU(cpu)
			defer vsched.SetNumCPU(0)
			want := ""
			for k, oi := range idx {
				want += fmt.Sprintf("[%d]%s", k, ops[oi].f(c, ctx.Seed, k))
			}
			body := func() string {
				outs := make([]string, len(idx))
				var wg vsched.WaitGroup
				for k, oi := range idx {
					wg.Add(1)
					vsched.Go2(func(k, oi int) {
						outs[k] = ops[oi].f(c, ctx.Seed, k)
						wg.Done()
					}, k, oi)
				}
				wg.Wait()
				o := ""
				for k := range idx {
					o += fmt.Sprintf("[%d]%s", k, outs[k])
				}
				return o
			}
			st := core.Explore(r, core.SchedSpec{Name: name, API: "concurrent API calls", Check: "c12.interference", Body: body, Expect: want, Mode: mode, Opt: opt})
			if st.Collisions > 0 {
				r.Nontrivial += int64(st.Complete)
			}
			r.Note("distinct_outcomes", len(st.Outcomes))
			r.Note("deadlocks", st.Deadlocks)
		}}
	}
	for a := 0; a < len(short); a++ {
		for b := a; b < len(short); b++ {
			us = append(us, sched(fmt.Sprintf("short pair: %s || %s", ops[short[a]].name, ops[short[b]].name), []int{short[a], short[b]}, explore.Options{DataBudget: -1, MaxExecs: 400000, Deadline: c12Deadline(ctx)}, "dpor"))
		}
	}
	for _, tr := range [][3]int{{0, 1, 5}, {0, 0, 0}, {2, 3, 4}, {5, 5, 6}, {1, 4, 6}, {0, 3, 5}} {
		us = append(us, sched(fmt.Sprintf("short triple: %s || %s || %s", ops[short[tr[0]]].name, ops[short[tr[1]]].name, ops[short[tr[2]]].name), []int{short[tr[0]], short[tr[1]], short[tr[2]]}, explore.Options{DataBudget: 2, MaxExecs: 400000, Deadline: c12Deadline(ctx)}, "dpor"))
	}
	for _, h := range heavy {
		for _, s := range []int{short[0], short[5]} {
			us = append(us, sched(fmt.Sprintf("heavy+short: %s || %s", ops[h].name, ops[s].name), []int{h, s}, explore.Options{DataBudget: 1, MaxExecs: 100000, Deadline: c12Deadline(ctx)}, "dpor"))
		}
	}
	for _, hp := range [][2]int{{0, 1}, {1, 1}, {2, 2}, {3, 4}, {4, 4}, {0, 5}} {
		us = append(us, sched(fmt.Sprintf("heavy pair: %s || %s", ops[heavy[hp[0]]].name, ops[heavy[hp[1]]].name), []int{heavy[hp[0]], heavy[hp[1]]}, explore.Options{DataBudget: 0, MaxExecs: 100000, Deadline: c12Deadline(ctx)}, "dpor"))
	}
	// the many-openings prover under other worker counts (alone and next to a short call): no deadlock state
	last := heavy[len(heavy)-1]
	for _, cpu := range []int{3, 4, 16} {
		schedCPU = cpu
		us = append(us, sched(fmt.Sprintf("NumCPU=%d: %s", cpu, ops[last].name), []int{last}, explore.Options{DataBudget: 0, MaxExecs: 100000, Deadline: c12Deadline(ctx)}, "dpor"))
		us = append(us, sched(fmt.Sprintf("NumCPU=%d: %s || %s", cpu, ops[last].name, ops[short[5]].name), []int{last, short[5]}, explore.Options{DataBudget: 0, MaxExecs: 100000, Deadline: c12Deadline(ctx)}, "dpor"))
	}
	// several MSMs in flight at once under tiny CPU counts (bounded process-wide resources would be exhausted)
	msmIdx := -1
	for _, h := range heavy {
		if strings.HasPrefix(ops[h].name, "MultiScalar") {
			msmIdx = h
		}
	}
	if msmIdx >= 0 {
		for _, cfg := range [][2]int{{1, 2}, {1, 3}, {2, 4}} {
			schedCPU = cfg[0]
			idx := make([]int, cfg[1])
			for i := range idx {
				idx[i] = msmIdx
			}
			us = append(us, sched(fmt.Sprintf("NumCPU=%d: %d x %s at once", cfg[0], cfg[1], ops[msmIdx].name), idx, explore.Options{DataBudget: 0, MaxExecs: 100000, Deadline: c12Deadline(ctx)}, "dpor"))
		}
	}
	schedCPU = 2
	us = append(us, core.Unit{Name: "free-running pairs (default build)", Run: func(ctx *core.Ctx, r *core.Result) {
		reps := 1
		if ctx.Thorough() {
			reps = 3
		}
		c12Free(r, ctx.Seed, reps)
		r.Sample(map[string]interface{}{"pairs": "all 2-subsets with repetition of 13 operations, 4 goroutines each", "mode": "free-running, native goroutines"})
	}})
	for _, gmp := range []string{"1", "2", "4", "16"} {
		gmp := gmp
		us = append(us, core.Unit{Name: "race pass GOMAXPROCS=" + gmp, Run: func(ctx *core.Ctx, r *core.Result) {
			bin := os.Getenv("VCHECK_RACE")
			if bin == "" {
				r.ToolError = "race flavour binary not provided by vrun"
				return
			}
			// the child normally takes 1-2 minutes; its own per-call limits report hangs, this limit only makes
			// sure nothing is left behind when even that does not end
			limit := 18 * time.Minute // below the unit limit of this check, so that the child never outlives its parent
			cctx, cancel := context.WithTimeout(context.Background(), limit)
			defer cancel()
			cmd := exec.CommandContext(cctx, bin, "-prop", "C12", "-tier", ctx.Tier, "-seed", fmt.Sprint(ctx.Seed), "-rununit", "race bodies")
			cmd.Env = append(os.Environ(), "VERIF_FLAVOUR_CHILD=1", "GOMAXPROCS="+gmp, "GORACE=halt_on_error=0 exitcode=0")
			var errb bytes.Buffer
			cmd.Stderr = &errb
			out, err := cmd.Output()
			es := errb.String()
			if cctx.Err() != nil && core.Overloaded() {
				// the machine is overcommitted: the limit says nothing about termination
				r.Exhaustive = false
				r.Caps = append(r.Caps, "race pass GOMAXPROCS="+gmp+": not finished within "+limit.String()+" on an overcommitted machine (no verdict)")
				return
			}
			if cctx.Err() != nil {
				vio(r, "c12.termination", "concurrent API calls", "all pairs of the C12 bodies free-running under -race, GOMAXPROCS="+gmp, "every call returns", fmt.Sprintf("the pass was still running after %s (it normally takes minutes)", limit))
				return
			}
			if strings.Contains(es, "DATA RACE") {
				// a report counts against the property only when the racing accesses are in go-ipa itself
				// (a race confined to harness code is a tooling error)
				reports := strings.Split(es, "WARNING: DATA RACE")[1:]
				found := false
				for _, rep := range reports {
					if end := strings.Index(rep, "=================="); end >= 0 {
						rep = rep[:end]
					}
					impl := false
					for _, ln := range strings.Split(rep, "\n") {
						if strings.Contains(ln, "github.com/crate-crypto/go-ipa") && !strings.Contains(ln, "/zzverif/") {
							impl = true
						}
					}
					if impl {
						if len(rep) > 3000 {
							rep = rep[:3000]
						}
						vio(r, "c12.race", "race detector", "all pairs of the C12 bodies free-running under -race, GOMAXPROCS="+gmp, "no data race report", "WARNING: DATA RACE"+rep)
						found = true
						break
					}
				}
				if !found {
					r.ToolError = "race detector reported a race confined to harness code:\n" + clip3k(es)
					return
				}
			}
			if err != nil {
				implCrash := false
				if strings.Contains(es, "panic:") || strings.Contains(es, "fatal error:") {
					for _, ln := range strings.Split(es, "\n") {
						if strings.Contains(ln, "github.com/crate-crypto/go-ipa") && !strings.Contains(ln, "/zzverif/") {
							implCrash = true
						}
					}
				}
				switch {
				case implCrash:
					// a panic on a goroutine nobody recovers (a worker of the implementation, or one of the concurrent
					// callers) ends the process: the call did not return what it returns when executed alone
					vio(r, "c12.crash", "concurrent API calls", "all pairs of the C12 bodies free-running under -race, GOMAXPROCS="+gmp, "no crash", clip3k(es))
				case !strings.Contains(es, "DATA RACE"):
					r.ToolError = fmt.Sprintf("race child failed: %v\n%s", err, clip3k(es))
				}
				return
			}
			var sub core.Result
			if e := jsonUnmarshal(out, &sub); e != nil {
				r.ToolError = "race child: unreadable result: " + e.Error()
				return
			}
			if sub.ToolError != "" {
				r.ToolError = sub.ToolError
				return
			}
			r.Evals += sub.Evals
			r.Nontrivial += sub.Nontrivial
			r.NViol += sub.NViol
			r.Violations = append(r.Violations, sub.Violations...)
			r.Sample(map[string]interface{}{"build": "-race", "GOMAXPROCS": gmp, "pairs_executed": sub.Evals})
		}})
	}
	us = append(us, core.Unit{Name: "race bodies", Run: func(ctx *core.Ctx, r *core.Result) {
		if os.Getenv("VERIF_FLAVOUR_CHILD") == "" {
			return // only meaningful inside the -race flavour
		}
		reps := 1
		if ctx.Thorough() {
			reps = 3
		}
		c12Free(r, ctx.Seed, reps)
	}})
	return us
}

func clip3k(s string) string {
	if len(s) > 3000 {
		return s[:3000]
	}
	return s
}

// c12Deadline: per-scenario cap of C12's scheduled explorations (shorter than the general one in the quick
// tier because C12 has the most scenarios).
func c12Deadline(ctx *core.Ctx) time.Duration {
	if ctx.Thorough() {
		return 10 * time.Minute
	}
	return 12 * time.Second
}
