package checks

import (
	"crypto/sha256"
	"encoding/binary"
	"encoding/hex"
	"encoding/json"
	"fmt"
	"math/big"
	"runtime"
	"strings"
	"sync"
	"syscall"
	"time"

	"github.com/crate-crypto/go-ipa/bandersnatch"
	"github.com/crate-crypto/go-ipa/bandersnatch/fp"
	"github.com/crate-crypto/go-ipa/bandersnatch/fr"
	"github.com/crate-crypto/go-ipa/banderwagon"
	"github.com/crate-crypto/go-ipa/ipa"
	"verif.local/engine/core"
	"verif.local/engine/ref"
)

// ---------- shared configuration (one per worker process) ----------

var (
	confOnce sync.Once
	confVal  *ipa.IPAConfig
	katOnce  sync.Once
)

func conf() *ipa.IPAConfig {
	confOnce.Do(func() {
		c, err := ipa.NewIPASettings()
		if err != nil {
			panic(core.ImplFault{API: "ipa.NewIPASettings", Input: "()", Got: "error: " + err.Error()})
		}
		confVal = c
	})
	return confVal
}

// needRef binds the reference model to its known answers once per worker (a failure is a tooling error).
func needRef() {
	katOnce.Do(func() {
		if err := ref.KAT(false); err != nil {
			panic("reference model does not reproduce the pinned vectors: " + err.Error())
		}
	})
}

// ---------- conversions ----------

var bigR = ref.R
var bigP = ref.P

func bi(x int64) *big.Int { return big.NewInt(x) }

func frFromBig(x *big.Int) fr.Element {
	var e fr.Element
	e.SetBigInt(new(big.Int).Mod(x, bigR))
	return e
}
func frToBig(e fr.Element) *big.Int {
	var b big.Int
	e.ToBigIntRegular(&b)
	return &b
}
func frsFromBig(xs []*big.Int) []fr.Element {
	out := make([]fr.Element, len(xs))
	for i, x := range xs {
		out[i] = frFromBig(x)
	}
	return out
}
func fpFromBig(x *big.Int) fp.Element {
	var e fp.Element
	e.SetBigInt(new(big.Int).Mod(x, bigP))
	return e
}
func fpToBig(e fp.Element) *big.Int {
	var b big.Int
	e.BigInt(&b)
	return &b
}

func elToRef(e *banderwagon.Element) ref.Pt {
	in := banderwagon.VerifInner(e)
	return ref.Pt{X: fpToBig(in.X), Y: fpToBig(in.Y), Z: fpToBig(in.Z)}
}
func elFromRef(p ref.Pt) banderwagon.Element {
	return banderwagon.VerifFromProj(bandersnatch.PointProj{X: fpFromBig(p.X), Y: fpFromBig(p.Y), Z: fpFromBig(p.Z)})
}

// elValid: the element's coordinates describe a curve point with Z != 0.
func elString(e *banderwagon.Element) string {
	in := banderwagon.VerifInner(e)
	return fmt.Sprintf("X=%s Y=%s Z=%s", fpToBig(in.X).Text(16), fpToBig(in.Y).Text(16), fpToBig(in.Z).Text(16))
}

func hx(b []byte) string { return hex.EncodeToString(b) }

// ---------- representations ----------

const (
	reprNorm = iota
	reprProj
	reprFlip
	reprProjFlip
	nRepr
)

var reprNames = []string{"norm", "proj", "flip", "projflip"}

var muScale = new(big.Int).SetUint64(0x9e3779b97f4a7c15)

// reprOf returns the same group element in another representation (built directly from coordinates,
// independent of the library's arithmetic).
func reprOf(e banderwagon.Element, kind int) banderwagon.Element {
	p := elToRef(&e)
	zi := ref.InvP(p.Z)
	x, y := ref.MulP(p.X, zi), ref.MulP(p.Y, zi)
	if kind == reprFlip || kind == reprProjFlip {
		x = ref.SubP(new(big.Int), x)
		y = ref.SubP(new(big.Int), y)
	}
	z := big.NewInt(1)
	if kind == reprProj || kind == reprProjFlip {
		z = muScale
		x, y = ref.MulP(x, z), ref.MulP(y, z)
	}
	return elFromRef(ref.Pt{X: x, Y: y, Z: z})
}

// ---------- PRF-derived alphabet members ----------

func prf(seed int64, dom string, i int) *big.Int {
	h := sha256.New()
	var b [16]byte
	binary.BigEndian.PutUint64(b[:8], uint64(seed))
	binary.BigEndian.PutUint64(b[8:], uint64(i))
	h.Write([]byte("verif-prf/" + dom))
	h.Write(b[:])
	return new(big.Int).SetBytes(h.Sum(nil))
}
func prfR(seed int64, dom string, i int) *big.Int { return new(big.Int).Mod(prf(seed, dom, i), bigR) }

// ---------- alphabets ----------

func pow2(k uint) *big.Int { return new(big.Int).Lsh(big.NewInt(1), k) }

var lambdaGLV, _ = new(big.Int).SetString("8913659658109529928382530854484400854125314752504019737736543920008458395397", 10)

// sEdge: the scalar alphabet S_edge of DESIGN §3 (all reduced mod r, de-duplicated, simplest first).
func sEdge(seed int64, full bool) []*big.Int {
	var out []*big.Int
	seen := map[string]bool{}
	add := func(x *big.Int) {
		v := new(big.Int).Mod(x, bigR)
		k := v.Text(16)
		if !seen[k] {
			seen[k] = true
			out = append(out, v)
		}
	}
	rm := func(d int64) *big.Int { return new(big.Int).Sub(bigR, big.NewInt(d)) }
	for _, v := range []int64{0, 1, 2, 3} {
		add(bi(v))
	}
	add(rm(1))
	add(rm(2))
	half := new(big.Int).Rsh(rm(1), 1)
	add(half)
	add(new(big.Int).Add(half, bi(1)))
	add(new(big.Int).Sub(pow2(64), bi(1)))
	add(pow2(64))
	add(pow2(128))
	add(pow2(252))
	add(pow2(253))
	add(new(big.Int).Lsh(big.NewInt(1), 256)) // R mod r (Montgomery one)
	// values whose Montgomery representation (v*2^256 mod r) is tiny or has a zero low limb: code that
	// inspects raw limbs mistakes them for 0, 1 or a small integer
	rinv := new(big.Int).ModInverse(pow2(256), bigR)
	for _, k := range []*big.Int{bi(1), bi(2), new(big.Int).Sub(pow2(64), bi(1)), pow2(64), pow2(192)} {
		add(new(big.Int).Mul(rinv, k))
	}
	add(lambdaGLV)
	add(new(big.Int).Add(lambdaGLV, bi(1)))
	add(new(big.Int).Sub(lambdaGLV, bi(1)))
	add(new(big.Int).Sub(bigR, lambdaGLV))
	step := uint(1)
	if !full {
		step = 7
	}
	for k := uint(0); k <= 252; k += step {
		add(pow2(k))
		add(new(big.Int).Add(pow2(k), bi(1)))
		add(new(big.Int).Sub(pow2(k), bi(1)))
	}
	for _, k := range []uint{63, 64, 65, 127, 128, 129, 191, 192, 193, 251, 252} {
		add(pow2(k))
		add(new(big.Int).Add(pow2(k), bi(1)))
		add(new(big.Int).Sub(pow2(k), bi(1)))
	}
	for i := 0; i < 4; i++ {
		add(prfR(seed, "sedge", i))
	}
	return out
}

// polyAlphabet: POLY of DESIGN §3 as big.Int vectors of length 256.
type namedPoly struct {
	Name string
	V    []*big.Int
}

func zeros256() []*big.Int {
	v := make([]*big.Int, 256)
	for i := range v {
		v[i] = new(big.Int)
	}
	return v
}

func polyAlphabet(seed int64) []namedPoly {
	var ps []namedPoly
	rm1 := new(big.Int).Sub(bigR, bi(1))
	mk := func(name string, f func(i int) *big.Int) {
		v := make([]*big.Int, 256)
		for i := range v {
			v[i] = new(big.Int).Mod(f(i), bigR)
		}
		ps = append(ps, namedPoly{name, v})
	}
	mk("zero", func(i int) *big.Int { return bi(0) })
	mk("const1", func(i int) *big.Int { return bi(1) })
	mk("constR-1", func(i int) *big.Int { return rm1 })
	for _, k := range []int{0, 1, 127, 128, 255} {
		k := k
		mk(fmt.Sprintf("e%d", k), func(i int) *big.Int {
			if i == k {
				return bi(1)
			}
			return bi(0)
		})
	}
	mk("sparse2", func(i int) *big.Int {
		switch i {
		case 3:
			return bi(7)
		case 200:
			return rm1
		}
		return bi(0)
	})
	mk("max", func(i int) *big.Int { return rm1 })
	mk("ramp", func(i int) *big.Int { return bi(int64(i + 1)) })
	mk("x^255", func(i int) *big.Int { return new(big.Int).Exp(bi(int64(i)), bi(255), bigR) })
	mk("prf0", func(i int) *big.Int { return prfR(seed, "poly0", i) })
	mk("prf1", func(i int) *big.Int { return prfR(seed, "poly1", i) })
	return ps
}

// srsAgree: "" when the implementation's SRS is the reference CRS, else a description.
func srsAgree() string {
	needRef()
	rs := ref.SRS()
	c := conf()
	if len(c.SRS) != len(rs) {
		return fmt.Sprintf("SRS has %d points, want %d", len(c.SRS), len(rs))
	}
	for i := range rs {
		want := ref.Compress(rs[i])
		got := c.SRS[i].Bytes()
		if want != got {
			return fmt.Sprintf("SRS[%d] = %x, reference CRS point = %x", i, got, want)
		}
	}
	return ""
}

func vio(r *core.Result, check, api, input, expected, got string) {
	r.Violate(core.Violation{Check: check, API: api, Input: input, Expected: expected, Got: got})
}

// guard runs f and converts a panic of the implementation into a violation; returns false if it panicked.
func guard(r *core.Result, check, api, input string, f func()) (ok bool) {
	defer func() {
		if e := recover(); e != nil {
			ok = false
			if msg := fmt.Sprint(e); strings.HasPrefix(msg, "verif: seam unavailable") {
				seamUnavailable(r, msg)
				return
			}
			buf := make([]byte, 4096)
			n := runtime.Stack(buf, false)
			vio(r, check, api, input, "no panic", fmt.Sprintf("panic: %v\n%s", e, buf[:n]))
		}
	}()
	f()
	return true
}

// seamUnavailable records that an export wrapper does not fit the edited tree (the dependent sub-check is skipped).
func seamUnavailable(r *core.Result, msg string) {
	r.Note("seam_unavailable", msg)
	r.Exhaustive = false
}

func jsonUnmarshal(b []byte, v interface{}) error { return json.Unmarshal(b, v) }

// schedDeadline: per-scenario wall-clock cap of a scheduled exploration (a cap ends the search with
// exhaustive:false for that unit, never with a violation).
func schedDeadline(ctx *core.Ctx) time.Duration {
	if ctx.Thorough() {
		return 10 * time.Minute
	}
	return 25 * time.Second
}

// dirtyFr: a non-zero receiver value; every operation must overwrite its receiver completely, so results
// must not depend on what the receiver held before.
func dirtyFr() fr.Element {
	return fr.Element{0xfffffffffffffff1, 0xfffffffffffffff2, 0xfffffffffffffff3, 0x0ffffffffffffff4}
}

// dirtyEl: a valid, unrelated, non-normalised element used to pre-fill receivers.
func dirtyEl() banderwagon.Element { return reprOf(conf().SRS[177], reprProjFlip) }

// callLimit: generous wall-clock limit for ONE call of the implementation that normally takes milliseconds
// to about a second; a call still running after it is reported as "does not return" (the goroutine is
// abandoned and the enumeration continues, so a hang costs minutes instead of the whole unit limit).
var callLimit = 5 * time.Minute

// SetTier adapts wall-clock limits to the tier (called once by the command before any unit runs).
func SetTier(tier string) {
	if tier != "thorough" {
		callLimit = 3 * time.Minute
	}
}

// hangs counts calls that hit the limit in this worker; after two of them the remaining timed calls of the
// process are skipped (the property is already violated and every further hang would cost minutes).
var hangs int

// timed runs f with the per-call limit; panics of the implementation and non-termination become violations.
func timed(r *core.Result, check, api, input string, f func()) (ok bool) {
	type res struct {
		e  interface{}
		st []byte
	}
	if hangs >= 2 {
		r.Exhaustive = false
		return false
	}
	done := make(chan res, 1)
	go func() {
		defer func() {
			if e := recover(); e != nil {
				buf := make([]byte, 4096)
				n := runtime.Stack(buf, false)
				done <- res{e, buf[:n]}
				return
			}
			done <- res{}
		}()
		f()
	}()
	finish := func(x res) bool {
		if x.e != nil {
			if msg := fmt.Sprint(x.e); strings.HasPrefix(msg, "verif: seam unavailable") {
				seamUnavailable(r, msg)
				return false
			}
			vio(r, check, api, input, "no panic", fmt.Sprintf("panic: %v\n%s", x.e, x.st))
			return false
		}
		return true
	}
	select {
	case x := <-done:
		return finish(x)
	case <-time.After(callLimit):
	}
	// Past the limit. A call that blocks forever consumes no processor time; a call that is merely slow because
	// the machine is overcommitted keeps consuming it. Only the first is reported as non-termination here: as
	// long as this process keeps burning CPU the wait goes on (up to 10 limits), in 15-second windows.
	for waited := callLimit; waited < 10*callLimit; waited += 15 * time.Second {
		c0 := processCPU()
		select {
		case x := <-done:
			return finish(x)
		case <-time.After(15 * time.Second):
		}
		if processCPU()-c0 < 300*time.Millisecond {
			hangs++
			vio(r, strings.Split(check, ".")[0]+".termination", api, input, fmt.Sprintf("the call returns (it normally takes well under a second; limit %s)", callLimit), fmt.Sprintf("still running after %s and the process is idle: the call blocks forever", waited+15*time.Second))
			return false
		}
	}
	hangs++
	vio(r, strings.Split(check, ".")[0]+".termination", api, input, fmt.Sprintf("the call returns (it normally takes well under a second; limit %s)", callLimit), fmt.Sprintf("still running (and consuming processor time) after %s", 10*callLimit))
	return false
}

// processCPU: user+system time consumed by this process so far.
func processCPU() time.Duration {
	var ru syscall.Rusage
	if err := syscall.Getrusage(syscall.RUSAGE_SELF, &ru); err != nil {
		return 0
	}
	return time.Duration(ru.Utime.Nano() + ru.Stime.Nano())
}

// edgePolys: polynomials whose evaluations sit at the 64-bit limb boundaries and at the half-range of the top
// window of a limb (2^64-1, 2^128-1, 2^192-1, 0x81<<56, 2^64, 2^128 ...), sparse and dense. They reach the
// table-based and the generic MSM with short scalars and pending carries through every API that commits.
func edgePolys() []namedPoly {
	m1 := func(e uint) *big.Int { return new(big.Int).Sub(pow2(e), bi(1)) }
	hi := func(e uint) *big.Int { return new(big.Int).Lsh(bi(0x81), e) }
	var ps []namedPoly
	mk := func(name string, f func(i int) *big.Int) {
		v := make([]*big.Int, 256)
		for i := range v {
			v[i] = new(big.Int).Mod(f(i), bigR)
		}
		ps = append(ps, namedPoly{name, v})
	}
	mk("edge-sparse-a", func(i int) *big.Int {
		switch i {
		case 3:
			return m1(64)
		case 77:
			return m1(128)
		}
		return bi(0)
	})
	mk("edge-sparse-b", func(i int) *big.Int {
		switch i {
		case 0:
			return m1(192)
		case 4:
			return hi(56)
		case 255:
			return hi(120)
		}
		return bi(0)
	})
	mk("edge-all-2^64-1", func(i int) *big.Int { return m1(64) })
	mk("edge-cycle-2^(64k)-1", func(i int) *big.Int { return m1(uint(64 * (i%3 + 1))) })
	mk("edge-cycle-2^(64k)", func(i int) *big.Int { return pow2(uint(64 * (i % 4))) })
	mk("edge-cycle-0x81<<(64k+56)", func(i int) *big.Int { return hi(uint(64*(i%3) + 56)) })
	return ps
}
