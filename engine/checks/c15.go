package checks

import (
	"fmt"
	"math/big"
	"os"

	"github.com/crate-crypto/go-ipa/bandersnatch/fr"
	"verif.local/engine/core"
)

// C15 — scalar-field arithmetic agrees with integer arithmetic modulo r, in every build flavour.

var qLimbs = [4]uint64{8429901452645165025, 18415085837358793841, 922804724659942912, 2088379214866112338}

var rInv256 *big.Int // (2^256)^-1 mod r

func init() {
	rInv256 = new(big.Int).ModInverse(pow2(256), bigR)
}

func limbsInt(e fr.Element) *big.Int {
	x := new(big.Int)
	for i := 3; i >= 0; i-- {
		x.Lsh(x, 64)
		x.Or(x, new(big.Int).SetUint64(e[i]))
	}
	return x
}
func frReduced(e fr.Element) bool { return limbsInt(e).Cmp(bigR) < 0 }

// regOf: the regular value represented by raw Montgomery limbs.
func regOf(e fr.Element) *big.Int {
	v := limbsInt(e)
	v.Mul(v, rInv256)
	return v.Mod(v, bigR)
}

type c15el struct {
	e   fr.Element
	reg *big.Int
}

func c15Elements(seed int64, thorough bool) []c15el {
	var out []c15el
	seen := map[fr.Element]bool{}
	add := func(e fr.Element) {
		if !frReduced(e) || seen[e] {
			return
		}
		seen[e] = true
		out = append(out, c15el{e, regOf(e)})
	}
	addReg := func(v *big.Int) { add(frFromBig(new(big.Int).Mod(v, bigR))) }
	addRaw := func(v *big.Int) {
		v = new(big.Int).Mod(v, pow2(256))
		var e fr.Element
		w := new(big.Int).Set(v)
		mask := new(big.Int).SetUint64(^uint64(0))
		for i := 0; i < 4; i++ {
			e[i] = new(big.Int).And(w, mask).Uint64()
			w.Rsh(w, 64)
		}
		add(e)
	}
	// values within +-2 of 0, (r-1)/2, r, R mod r, R^2 mod r — raw and regular interpretation
	centres := []*big.Int{bi(0), new(big.Int).Rsh(bigR, 1), bigR, new(big.Int).Mod(pow2(256), bigR), new(big.Int).Mod(pow2(512), bigR), pow2(64), pow2(128), pow2(192), pow2(252)}
	for _, c := range centres {
		for d := int64(-2); d <= 2; d++ {
			v := new(big.Int).Add(c, bi(d))
			if v.Sign() >= 0 {
				addRaw(v)
			}
			addReg(new(big.Int).Add(v, bigR))
		}
	}
	// cross product of limb-boundary values
	for i0 := 0; i0 < 7; i0++ {
		for i1 := 0; i1 < 7; i1++ {
			for i2 := 0; i2 < 7; i2++ {
				for i3 := 0; i3 < 7; i3++ {
					idx := [4]int{i0, i1, i2, i3}
					var e fr.Element
					skip := false
					for l := 0; l < 4; l++ {
						vals := [7]uint64{0, 1, ^uint64(0), qLimbs[l] - 1, qLimbs[l], 1 << 63, qLimbs[l] + 1}
						if !thorough && idx[l] >= 5 {
							skip = true
						}
						e[l] = vals[idx[l]]
					}
					if !skip {
						add(e)
					}
				}
			}
		}
	}
	for i := 0; i < 6; i++ {
		addReg(prfR(seed, "c15", i))
	}
	return out
}

func c15Flavour() string {
	switch {
	case fr.VerifPortable:
		return "portable"
	case !fr.VerifSupportAdx():
		return "noadx"
	}
	return "default(adx)"
}

func init() {
	c := &core.Check{
		ID: "C15", Level: "exploration",
		Rule:   "elements given by raw Montgomery limbs: full cross product over 4 limbs of {0,1,2^64-1,q_i-1,q_i (,2^63,q_i+1 thorough)} filtered to < r, plus +-2 neighbourhoods of 0,(r-1)/2,r,R,R^2,2^64k; every pair through every binary operation, every element through every unary operation, all receiver/operand aliasing patterns; BatchInvert on all lists of length <= 4 over {0,1,r-1,PRF}, lengths up to 300 with a zero at every position and lengths 511..4097 with zeros at spread positions; receivers pre-filled with a non-zero value; Sqrt/Legendre on g^k*h for all 32 k; each enumeration repeated in three build flavours (default asm, -tags noadx, portable Go); a case = (flavour, operation, operands); non-trivial = an operand with a boundary limb or an aliased receiver",
		Assume: []string{"oracle: math/big modulo r on the regular value", "ADX availability of this CPU is recorded in the evidence; the portable flavour is produced by an overlay that removes the assembly files"},
	}
	c.Units = func(ctx *core.Ctx) []core.Unit { return c15Units(c, ctx) }
	core.Register(c)
}

func c15Units(c *core.Check, ctx *core.Ctx) []core.Unit {
	base := c15BaseUnits(ctx)
	if os.Getenv("VERIF_FLAVOUR_CHILD") != "" {
		return base
	}
	us := append([]core.Unit(nil), base...)
	for _, fl := range [][2]string{{"noadx", "VCHECK_NOADX"}, {"portable", "VCHECK_PORTABLE"}} {
		fl := fl
		for _, b := range base {
			b := b
			us = append(us, core.Unit{Name: "[" + fl[0] + "] " + b.Name, Run: func(ctx *core.Ctx, r *core.Result) {
				bin := os.Getenv(fl[1])
				if bin == "" {
					r.ToolError = "flavour binary " + fl[1] + " not provided by vrun"
					return
				}
				core.RunInFlavour(c, ctx, bin, b.Name, r)
				if want := fl[0]; r.Notes["flavour"] != want {
					r.ToolError = fmt.Sprintf("flavour binary reports %v, expected %s", r.Notes["flavour"], want)
				}
			}})
		}
	}
	return us
}

func c15BaseUnits(ctx *core.Ctx) []core.Unit {
	var us []core.Unit
	modr := func(x *big.Int) *big.Int { return x.Mod(x, bigR) }
	chk := func(r *core.Result, op string, in string, got fr.Element, want *big.Int) {
		if !frReduced(got) {
			vio(r, "c15.reduced", "fr.Element."+op, in, "result limbs < r", fmt.Sprintf("%x", got[:]))
			return
		}
		if regOf(got).Cmp(want) != 0 {
			vio(r, "c15.value", "fr.Element."+op, in, want.Text(16), regOf(got).Text(16)+" ["+c15Flavour()+"]")
		}
	}
	// pairs, sharded by first operand
	const shards = 8
	for sh := 0; sh < shards; sh++ {
		sh := sh
		us = append(us, core.Unit{Name: fmt.Sprintf("binary ops shard %d/%d", sh, shards), Run: func(ctx *core.Ctx, r *core.Result) {
			r.Note("flavour", c15Flavour())
			els := c15Elements(ctx.Seed, ctx.Thorough())
			r.Note("n_elements", len(els))
			t := new(big.Int)
			for i := sh; i < len(els); i += shards {
				a := els[i]
				for _, b := range els {
					in := fmt.Sprintf("x=mont%x y=mont%x", a.e[:], b.e[:])
					r.Evals += 9
					r.Nontrivial += 9
					z := dirtyFr()
					z.Add(&a.e, &b.e)
					chk(r, "Add", in, z, modr(t.Add(a.reg, b.reg)))
					z.Sub(&a.e, &b.e)
					chk(r, "Sub", in, z, modr(t.Sub(a.reg, b.reg)))
					z.Mul(&a.e, &b.e)
					mulWant := new(big.Int).Mod(t.Mul(a.reg, b.reg), bigR)
					chk(r, "Mul", in, z, mulWant)
					// generic (portable) routines called directly
					fr.VerifMulGeneric(&z, &a.e, &b.e)
					chk(r, "_mulGeneric", in, z, mulWant)
					fr.VerifAddGeneric(&z, &a.e, &b.e)
					chk(r, "_addGeneric", in, z, modr(t.Add(a.reg, b.reg)))
					fr.VerifSubGeneric(&z, &a.e, &b.e)
					chk(r, "_subGeneric", in, z, modr(t.Sub(a.reg, b.reg)))
					// aliasing: receiver == x, receiver == y
					z = a.e
					z.Mul(&z, &b.e)
					chk(r, "Mul(z=x)", in, z, mulWant)
					z = b.e
					z.Sub(&a.e, &z)
					chk(r, "Sub(z=y)", in, z, modr(t.Sub(a.reg, b.reg)))
					// Cmp / Equal
					if got, want := a.e.Cmp(&b.e), a.reg.Cmp(b.reg); got != want {
						vio(r, "c15.value", "fr.Element.Cmp", in, fmt.Sprint(want), fmt.Sprint(got))
					}
					if got, want := a.e.Equal(&b.e), a.reg.Cmp(b.reg) == 0; got != want {
						vio(r, "c15.value", "fr.Element.Equal", in, fmt.Sprint(want), fmt.Sprint(got))
					}
					// Butterfly
					x, y := a.e, b.e
					fr.Butterfly(&x, &y)
					chk(r, "Butterfly.a", in, x, modr(t.Add(a.reg, b.reg)))
					chk(r, "Butterfly.b", in, y, modr(t.Sub(a.reg, b.reg)))
				}
			}
			if len(els) > 3 {
				r.Sample(map[string]interface{}{"flavour": c15Flavour(), "x_mont_limbs": fmt.Sprintf("%x", els[3].e[:]), "x_regular": els[3].reg.Text(16), "elements": len(els)})
			}
		}})
	}
	us = append(us, core.Unit{Name: "division (pairs over a sub-alphabet)", Run: func(ctx *core.Ctx, r *core.Result) {
		r.Note("flavour", c15Flavour())
		els := c15Elements(ctx.Seed, false)
		step := 1
		if !ctx.Thorough() {
			step = 3
		}
		var sel []int
		for i := range els {
			if i%step == 0 || els[i].reg.Sign() == 0 || els[i].reg.Cmp(bi(1)) == 0 || els[i].reg.Cmp(new(big.Int).Sub(bigR, bi(1))) == 0 {
				sel = append(sel, i) // 0, 1 and r-1 are always part of the sub-alphabet
			}
		}
		for _, i := range sel {
			for _, j := range sel {
				a, b := els[i], els[j]
				in := fmt.Sprintf("x=mont%x y=mont%x", a.e[:], b.e[:])
				r.Evals++
				r.Nontrivial++
				z := dirtyFr()
				z.Div(&a.e, &b.e)
				want := new(big.Int)
				if b.reg.Sign() != 0 {
					want.Mul(a.reg, new(big.Int).ModInverse(b.reg, bigR)).Mod(want, bigR)
				}
				chk(r, "Div", in, z, want)
				z = a.e
				z.Div(&z, &z)
				w := bi(1)
				if a.reg.Sign() == 0 {
					w = bi(0)
				}
				chk(r, "Div(z=x=y)", in, z, w)
				// the quotient just computed is the divisor of the very next division (memoised inverses must
				// belong to the value, not to the variable)
				q := dirtyFr()
				q.Div(&b.e, &z)
				wq := new(big.Int)
				if w.Sign() != 0 {
					wq.Set(b.reg)
				}
				chk(r, "Div(y, previous quotient) after Div(z=x=y)", in, q, wq)
				// receiver = divisor only, then division by that quotient
				z = b.e
				z.Div(&a.e, &z)
				chk(r, "Div(z=y)", in, z, want)
				q = dirtyFr()
				q.Div(&a.e, &z)
				wq = new(big.Int)
				if want.Sign() != 0 {
					wq.Mul(a.reg, new(big.Int).ModInverse(want, bigR)).Mod(wq, bigR)
				}
				chk(r, "Div(x, previous quotient) after Div(z=y)", in, q, wq)
				// receiver = dividend only
				z = a.e
				z.Div(&z, &b.e)
				chk(r, "Div(z=x)", in, z, want)
				x := a.e
				z = dirtyFr()
				z.Div(&x, &x)
				chk(r, "Div(x=y)", in, z, w)
			}
		}
	}})
	us = append(us, core.Unit{Name: "unary ops", Run: func(ctx *core.Ctx, r *core.Result) {
		r.Note("flavour", c15Flavour())
		els := c15Elements(ctx.Seed, ctx.Thorough())
		half := new(big.Int).Rsh(new(big.Int).Sub(bigR, bi(1)), 1)
		exps := []*big.Int{bi(0), bi(1), bi(2), new(big.Int).Sub(bigR, bi(1)), new(big.Int).Sub(bigR, bi(2)), half, pow2(64),
			pow2(63), new(big.Int).Sub(pow2(64), bi(1)), new(big.Int).Add(pow2(64), bi(1)), new(big.Int).Add(pow2(128), bi(5)), new(big.Int).Add(pow2(192), pow2(63)),
			pow2(127), pow2(128), pow2(191), pow2(192), pow2(252), new(big.Int).Add(pow2(192), bi(1)), bigR, new(big.Int).Add(bigR, bi(3)), new(big.Int).Lsh(bigR, 1), pow2(256), new(big.Int).Add(pow2(320), bi(7))}
		for _, a := range els {
			in := fmt.Sprintf("x=mont%x", a.e[:])
			r.Evals += 20
			r.Nontrivial += 20
			t := new(big.Int)
			z := dirtyFr()
			z.Neg(&a.e)
			chk(r, "Neg", in, z, modr(t.Neg(a.reg)))
			// setters from integers (how operands of the arithmetic are made), on a used receiver, also from the
			// unreduced representatives v+r and v-r
			z = dirtyFr()
			z.SetBigInt(a.reg)
			chk(r, "SetBigInt (used receiver)", in, z, a.reg)
			z = dirtyFr()
			z.SetBigInt(new(big.Int).Add(a.reg, bigR))
			chk(r, "SetBigInt(v+r) (used receiver)", in, z, a.reg)
			z = dirtyFr()
			z.SetBigInt(new(big.Int).Sub(a.reg, bigR))
			chk(r, "SetBigInt(v-r) (used receiver)", in, z, a.reg)
			z = dirtyFr()
			z.SetString(a.reg.String())
			chk(r, "SetString (used receiver)", in, z, a.reg)
			if a.reg.IsUint64() {
				z = dirtyFr()
				z.SetUint64(a.reg.Uint64())
				chk(r, "SetUint64 (used receiver)", in, z, a.reg)
			}
			fr.VerifNegGeneric(&z, &a.e)
			chk(r, "_negGeneric", in, z, modr(t.Neg(a.reg)))
			z.Double(&a.e)
			chk(r, "Double", in, z, modr(t.Lsh(a.reg, 1)))
			fr.VerifDoubleGeneric(&z, &a.e)
			chk(r, "_doubleGeneric", in, z, modr(t.Lsh(a.reg, 1)))
			z.Square(&a.e)
			sq := new(big.Int).Mod(t.Mul(a.reg, a.reg), bigR)
			chk(r, "Square", in, z, sq)
			z = a.e
			z.Square(&z)
			chk(r, "Square(z=x)", in, z, sq)
			z = a.e
			z.Add(&z, &z)
			chk(r, "Add(z=x=y)", in, z, modr(t.Lsh(a.reg, 1)))
			z = a.e
			z.Neg(&z)
			chk(r, "Neg(z=x)", in, z, modr(t.Neg(a.reg)))
			inv := new(big.Int)
			if a.reg.Sign() != 0 {
				inv.ModInverse(a.reg, bigR)
			}
			z = dirtyFr()
			if ret := z.Inverse(&a.e); ret != &z {
				vio(r, "c15.value", "fr.Element.Inverse", in, "returns its receiver", "another pointer")
			}
			chk(r, "Inverse", in, z, inv)
			z = a.e
			z.Inverse(&z)
			chk(r, "Inverse(z=x)", in, z, inv)
			for _, c := range []struct {
				k int64
				f func(*fr.Element)
			}{{3, fr.MulBy3}, {5, fr.MulBy5}, {13, fr.MulBy13}} {
				z = a.e
				c.f(&z)
				chk(r, fmt.Sprintf("MulBy%d", c.k), in, z, modr(t.Mul(a.reg, bi(c.k))))
			}
			for _, k := range []uint8{0, 1, 2, 3, 5, 7, 255} {
				z = a.e
				fr.VerifMulByConstant(&z, k)
				chk(r, fmt.Sprintf("mulByConstant(%d)", k), in, z, modr(t.Mul(a.reg, bi(int64(k)))))
			}
			// Montgomery conversions
			z = a.e
			z.FromMont()
			if limbsInt(z).Cmp(a.reg) != 0 {
				vio(r, "c15.value", "fr.Element.FromMont", in, a.reg.Text(16), limbsInt(z).Text(16))
			}
			z = a.e
			fr.VerifFromMontGeneric(&z)
			if limbsInt(z).Cmp(a.reg) != 0 {
				vio(r, "c15.value", "fr._fromMontGeneric", in, a.reg.Text(16), limbsInt(z).Text(16))
			}
			if rg := a.e.ToRegular(); limbsInt(rg).Cmp(a.reg) != 0 {
				vio(r, "c15.value", "fr.Element.ToRegular", in, a.reg.Text(16), limbsInt(rg).Text(16))
			}
			z = a.e
			z.ToMont() // raw limbs L (value L) -> Montgomery form of L, i.e. regular value L
			chk(r, "ToMont", in, z, limbsInt(a.e))
			var bb big.Int
			if a.e.ToBigIntRegular(&bb); bb.Cmp(a.reg) != 0 {
				vio(r, "c15.value", "fr.Element.ToBigIntRegular", in, a.reg.Text(16), bb.Text(16))
			}
			if got, want := a.e.IsZero(), a.reg.Sign() == 0; got != want {
				vio(r, "c15.value", "fr.Element.IsZero", in, fmt.Sprint(want), fmt.Sprint(got))
			}
			if got, want := a.e.LexicographicallyLargest(), a.reg.Cmp(half) > 0; got != want {
				vio(r, "c15.value", "fr.Element.LexicographicallyLargest", in, fmt.Sprint(want), fmt.Sprint(got))
			}
			// Legendre / Sqrt
			jac := big.Jacobi(a.reg, bigR)
			if got := a.e.Legendre(); got != jac {
				vio(r, "c15.value", "fr.Element.Legendre", in, fmt.Sprint(jac), fmt.Sprint(got))
			}
			root := dirtyFr()
			res := root.Sqrt(&a.e)
			if (res == nil) != (jac == -1) {
				vio(r, "c15.value", "fr.Element.Sqrt", in, fmt.Sprintf("nil=%v", jac == -1), fmt.Sprintf("nil=%v", res == nil))
			} else if res != nil {
				var s2 fr.Element
				s2.Square(&root)
				chk(r, "Sqrt^2", in, s2, a.reg)
			}
			for _, e := range exps {
				z.Exp(a.e, e)
				chk(r, "Exp(^"+e.Text(16)+")", in, z, new(big.Int).Exp(a.reg, e, bigR))
			}
			// reduce on raw limbs possibly >= r (inputs in [r, 2r) are within the routine's contract)
			raw := a.e
			var carry uint64
			for l := 0; l < 4; l++ {
				s := raw[l] + qLimbs[l]
				c1 := uint64(0)
				if s < raw[l] {
					c1 = 1
				}
				s2 := s + carry
				if s2 < s {
					c1 = 1
				}
				raw[l] = s2
				carry = c1
			}
			if carry == 0 { // a + r fits in 256 bits
				z = raw
				fr.VerifReduceGeneric(&z)
				if z != a.e {
					vio(r, "c15.value", "fr._reduceGeneric", in+" + r", fmt.Sprintf("%x", a.e[:]), fmt.Sprintf("%x", z[:]))
				}
			}
		}
		r.Sample(map[string]interface{}{"flavour": c15Flavour(), "elements": len(els), "ops_per_element": 40})
	}})
	us = append(us, core.Unit{Name: "Tonelli-Shanks quotient (all 32 two-power parts)", Run: func(ctx *core.Ctx, r *core.Result) {
		r.Note("flavour", c15Flavour())
		m := new(big.Int).Rsh(new(big.Int).Sub(bigR, bi(1)), 5) // r-1 = 2^5 * m
		var nr *big.Int
		for c := int64(2); ; c++ {
			if big.Jacobi(bi(c), bigR) == -1 {
				nr = bi(c)
				break
			}
		}
		g := new(big.Int).Exp(nr, m, bigR) // generator of the 2-Sylow subgroup (order 32)
		for k := 0; k < 32; k++ {
			gk := new(big.Int).Exp(g, bi(int64(k)), bigR)
			for h := 0; h < 8; h++ {
				hv := bi(1)
				if h > 0 {
					hv = new(big.Int).Exp(prfR(ctx.Seed, "c15h", h), bi(32), bigR)
				}
				v := new(big.Int).Mod(new(big.Int).Mul(gk, hv), bigR)
				e := frFromBig(v)
				in := fmt.Sprintf("v=g^%d*h%d=%s", k, h, v.Text(16))
				r.Evals++
				r.Nontrivial++
				jac := big.Jacobi(v, bigR)
				if (jac == 1) != (k%2 == 0) {
					panic("harness: two-power part construction is wrong")
				}
				if got := e.Legendre(); got != jac {
					vio(r, "c15.value", "fr.Element.Legendre", in, fmt.Sprint(jac), fmt.Sprint(got))
				}
				var root fr.Element
				res := root.Sqrt(&e)
				if (res == nil) != (jac == -1) {
					vio(r, "c15.value", "fr.Element.Sqrt", in, fmt.Sprintf("nil=%v", jac == -1), fmt.Sprintf("nil=%v", res == nil))
				} else if res != nil {
					var s2 fr.Element
					s2.Square(&root)
					if !s2.Equal(&e) || !frReduced(root) {
						vio(r, "c15.value", "fr.Element.Sqrt", in, "root^2 = v", frToBig(root).Text(16))
					}
				}
			}
		}
	}})
	us = append(us, core.Unit{Name: "BatchInvert", Run: func(ctx *core.Ctx, r *core.Result) {
		r.Note("flavour", c15Flavour())
		alpha := []*big.Int{bi(0), bi(1), new(big.Int).Sub(bigR, bi(1)), prfR(ctx.Seed, "c15b", 0)}
		check := func(vals []*big.Int) {
			in := make([]fr.Element, len(vals))
			for i, v := range vals {
				in[i] = frFromBig(v)
			}
			keep := append([]fr.Element(nil), in...)
			var out []fr.Element
			desc := fmt.Sprintf("BatchInvert(len %d: %s)", len(vals), clipVals(vals))
			if !guard(r, "c15.panic", "fr.BatchInvert", desc, func() { out = fr.BatchInvert(in) }) {
				return
			}
			r.Evals++
			r.Nontrivial++
			if len(out) != len(vals) {
				vio(r, "c15.value", "fr.BatchInvert", desc, fmt.Sprintf("%d results", len(vals)), fmt.Sprintf("%d results", len(out)))
				return
			}
			for i, v := range vals {
				want := new(big.Int)
				if v.Sign() != 0 {
					want.ModInverse(v, bigR)
				}
				if frToBig(out[i]).Cmp(want) != 0 || !frReduced(out[i]) {
					vio(r, "c15.value", "fr.BatchInvert", desc, fmt.Sprintf("result[%d]=%s", i, want.Text(16)), frToBig(out[i]).Text(16))
					return
				}
				if in[i] != keep[i] {
					vio(r, "c15.input_intact", "fr.BatchInvert", desc, "input slice unchanged", fmt.Sprintf("input[%d] changed", i))
					return
				}
			}
		}
		check(nil)
		for L := 1; L <= 4; L++ {
			idx := make([]int, L)
			for {
				vals := make([]*big.Int, L)
				for i := range vals {
					vals[i] = alpha[idx[i]]
				}
				check(vals)
				p := 0
				for p < L {
					idx[p]++
					if idx[p] < len(alpha) {
						break
					}
					idx[p] = 0
					p++
				}
				if p == L {
					break
				}
			}
		}
		lens := []int{5, 8, 16, 17, 255, 256, 257, 300, 511, 512, 513, 1023, 1024, 1025, 2049, 4097}
		if ctx.Thorough() {
			lens = nil
			for L := 5; L <= 300; L++ {
				lens = append(lens, L)
			}
			lens = append(lens, 511, 512, 513, 1000, 1023, 1024, 1025, 2048, 2049, 4096, 4097, 10000)
		}
		for _, L := range lens {
			base := make([]*big.Int, L)
			for i := range base {
				base[i] = prfR(ctx.Seed, "c15bl", i%7+1)
			}
			check(base)
			for z := 0; z < L; z++ {
				if (!ctx.Thorough() || L > 300) && L > 20 && z%17 != 0 && z != L-1 && z != L-2 && z != L/2 {
					continue
				}
				vals := append([]*big.Int(nil), base...)
				vals[z] = bi(0)
				check(vals)
				if z+1 < L {
					vals[z+1] = bi(0)
					check(vals)
				}
			}
			allz := make([]*big.Int, L)
			for i := range allz {
				allz[i] = bi(0)
			}
			check(allz)
		}
		r.Sample(map[string]interface{}{"flavour": c15Flavour(), "lists": "all lists of length<=4 over {0,1,r-1,prf}; zero at every position for the listed lengths", "lengths": lens})
	}})
	return us
}

func clipVals(v []*big.Int) string {
	s := ""
	for i, x := range v {
		if i >= 6 {
			return s + "…"
		}
		t := x.Text(16)
		if len(t) > 8 {
			t = t[:8] + "…"
		}
		s += t + " "
	}
	return s
}
