package checks

import (
	"bytes"
	"crypto/sha256"
	"encoding/json"
	"fmt"
	"math/big"
	"os"
	"os/exec"
	"strconv"
	"strings"
	"sync"
	"time"

	"github.com/crate-crypto/go-ipa/bandersnatch/fr"
	"github.com/crate-crypto/go-ipa/banderwagon"
	"github.com/crate-crypto/go-ipa/common"
	"github.com/crate-crypto/go-ipa/ipa"
	"github.com/crate-crypto/go-ipa/zzverif/vsched"
	"verif.local/engine/core"
	"verif.local/engine/explore"
	"verif.local/engine/ref"
)

// Two callers at once.
//
// DPOR explores the orders of DEPENDENT synchronisation operations; memory that two API calls share without
// any synchronisation (a package-level scratch buffer, a memo refilled in place and read after the lock was
// released, a table published before it is complete) is invisible to it, and the race detector only reports
// what the executed schedule leaves unordered (a sync.Pool hand-over or a mutex queue elsewhere in the two
// calls orders the accesses by accident). The complement used here is reduction-free and deterministic:
// two top-level callers, and at EVERY scheduling point of the default execution (lock, unlock, channel,
// WaitGroup, pool, sync/atomic operation, goroutine start) the alternative "run the other caller now" —
// all executions with one such switch (two in the thorough tier), each judged against the outputs of the
// calls executed alone. The default order keeps the goroutines of one call together (family affinity), so a
// switch hands the processor to the other call until that call blocks or ends.

// atOnceTags: which properties quantify over which of the C12 operations (by name prefix).
var atOnceTags = []struct{ prefix, props string }{
	{"fr.SetBytes(33", "C15 C16"},
	{"fr.SetBytesLE", "C16"},
	{"fr.SetString", "C15 C16"},
	{"fr.SetBigInt", "C15 C16"},
	{"fr arithmetic", "C15"},
	{"Transcript", "C14"},
	{"Element.SetBytes", "C06 C09 C11 C17"},
	{"fp.SqrtPrecomp", "C06 C17"},
	{"common.ReadPoint", "C06 C10"},
	{"ipa.NewPrecomputedWeights", "C18"},
	{"DivideOnDomain", "C18"},
	{"Commit(sparse)", "C05"},
	{"MultiScalar(3 points)", "C05 C07 C09"},
	{"BatchNormalize(3)", "C07 C19"},
	{"Element arithmetic", "C07 C08"},
	{"Element.MultiExp(20 points)", "C07 C09"},
	{"calls that end with an error", "C01 C04 C09 C13 C19"},
	{"batch helpers", "C11 C19"},
	{"parallel.Execute", "C20"},
	{"CheckIPAProof", "C04"},
	{"CreateIPAProof", "C03 C04"},
	{"CreateMultiProof(n=2)", "C01 C02"},
}

func atOnceOps(id string) []c12op {
	if id == "C12" {
		return c12Ops()
	}
	var out []c12op
	for _, op := range c12Ops() {
		for _, t := range atOnceTags {
			if strings.HasPrefix(op.name, t.prefix) && hasWord(t.props, id) {
				out = append(out, op)
				break
			}
		}
	}
	return out
}

// callerSwitchOpt: options of the caller-switch search.
func callerSwitchOpt(ctx *core.Ctx, quick time.Duration) explore.Options {
	bd, dl := 1, quick
	if ctx.Thorough() {
		bd, dl = 2, 5*time.Minute
	}
	return explore.Options{MaxBound: bd, SchedOnly: true, Allow: callerSwitch, Spread: true, MaxExecs: 200000, Deadline: dl}
}

// atOnceUnits: one unit per pair (with repetition) of the operations of property id.
func atOnceUnits(id string) []core.Unit {
	ops := atOnceOps(id)
	var us []core.Unit
	for a := 0; a < len(ops); a++ {
		for b := a; b < len(ops); b++ {
			if id == "C12" && b != a && b != (a+7)%len(ops) {
				continue // C12 (all operations): every operation with itself and with one other operation
			}
			oa, ob := ops[a], ops[b]
			name := fmt.Sprintf("two callers at once, every switch point: %s || %s", oa.name, ob.name)
			us = append(us, core.Unit{Name: name, Run: func(ctx *core.Ctx, r *core.Result) {
				if !vsched.Instrumented {
					r.Note("seam", "unavailable (fallback flavour)")
					return
				}
				c := conf()
				vsched.SetNumCPU(2)
				defer vsched.SetNumCPU(0)
				vsched.FamilyAffinity, vsched.PostPoints, vsched.GlobalPoints = true, true, true
				oldPoison := vsched.PoolPoison
				vsched.PoolPoison = poisonBig // an object handed to Put may be reused by anybody at once
				defer func() {
					vsched.FamilyAffinity, vsched.PostPoints, vsched.GlobalPoints = false, false, false
					vsched.PoolPoison = oldPoison
				}()
				// the second caller performs its call twice in a row: with one switch that gives three calls that
				// overlap in time (A interrupted; B's first and second call; A resumed)
				var want string
				if !guard(r, lower(id)+".panic", oa.name+" / "+ob.name, "executed alone", func() {
					b := ob.f(c, ctx.Seed, 1)
					want = "[0]" + oa.f(c, ctx.Seed, 0) + "[1]" + b + "[1 again]" + b
				}) {
					return
				}
				body := func() string {
					outs := make([]string, 3)
					var wg vsched.WaitGroup
					wg.Add(2)
					vsched.Go2(func(_, _ int) { defer wg.Done(); outs[0] = oa.f(c, ctx.Seed, 0) }, 0, 0)
					vsched.Go2(func(_, _ int) {
						defer wg.Done()
						outs[1] = ob.f(c, ctx.Seed, 1)
						outs[2] = ob.f(c, ctx.Seed, 1)
					}, 0, 0)
					wg.Wait()
					return "[0]" + outs[0] + "[1]" + outs[1] + "[1 again]" + outs[2]
				}
				st := core.Explore(r, core.SchedSpec{Name: name, API: oa.name + " || " + ob.name, Check: lower(id) + ".at_once", Body: body, Expect: want, Mode: "bounded", Opt: callerSwitchOpt(ctx, 12*time.Second)})
				r.Nontrivial += int64(st.Complete)
				r.Note("distinct_outcomes", len(st.Outcomes))
			}})
		}
	}
	return us
}

// ---------- first use, in a fresh process per execution ----------

// fuScenario: two callers whose FIRST use of the library in the process is concurrent. State that the
// library builds lazily exists only once per process, so every explored execution is a new process: the
// parent enumerates the switch points (same caller-switch search), the child replays one choice sequence.
type fuScenario struct {
	name  string
	props string
	conf  bool // needs the configuration (built sequentially in the child before the controlled part)
	calls [2]func(c *ipa.IPAConfig, seed int64) string
}

func fuScenarios() []fuScenario {
	dec := func(k int) func(c *ipa.IPAConfig, seed int64) string {
		return func(c *ipa.IPAConfig, seed int64) string {
			// encodings of the reference CRS points (no library call is needed to obtain them)
			s := ""
			for j := 0; j < 2; j++ {
				b := refCompress(k*2 + j)
				var e banderwagon.Element
				err := e.SetBytes(b[:])
				out := e.Bytes()
				var m fr.Element
				e.MapToScalarField(&m)
				s += fmt.Sprint(err, hx(out[:]), frToBig(m).Text(16))
			}
			return s
		}
	}
	return []fuScenario{
		{"Element.SetBytes || Element.SetBytes (different encodings)", "C06 C09 C11 C12 C17", false, [2]func(*ipa.IPAConfig, int64) string{dec(0), dec(1)}},
		{"first ScalarMul of the generator || first ScalarMul of the generator (other scalar), then Add", "C07 C08 C12", false, [2]func(*ipa.IPAConfig, int64) string{
			func(c *ipa.IPAConfig, seed int64) string {
				k := frFromBig(bi(1234567))
				var e, f banderwagon.Element
				e.ScalarMul(&banderwagon.Generator, &k)
				f.Add(&e, &banderwagon.Generator)
				return elString(&e) + elString(&f)
			},
			func(c *ipa.IPAConfig, seed int64) string {
				k := frFromBig(new(big.Int).Sub(bigR, bi(3)))
				var e, f banderwagon.Element
				e.ScalarMul(&banderwagon.Generator, &k)
				f.Double(&e)
				return elString(&e) + elString(&f)
			},
		}},
		{"ipa.GenerateRandomPoints(2) || ipa.GenerateRandomPoints(3)", "C05 C12 C17", false, [2]func(*ipa.IPAConfig, int64) string{
			func(c *ipa.IPAConfig, seed int64) string { return elsDigest(ipa.GenerateRandomPoints(2)) },
			func(c *ipa.IPAConfig, seed int64) string { return elsDigest(ipa.GenerateRandomPoints(3)) },
		}},
		{"ipa.NewPrecomputedWeights + DivideOnDomain || the same", "C12 C18", false, [2]func(*ipa.IPAConfig, int64) string{
			func(c *ipa.IPAConfig, seed int64) string {
				pw := ipa.NewPrecomputedWeights()
				return frsDigest(pw.DivideOnDomain(3, frsFromBig(pick(polyAlphabet(seed), 12).V))) + frsDigest(pw.ComputeBarycentricCoefficients(frFromBig(bi(777))))
			},
			func(c *ipa.IPAConfig, seed int64) string {
				pw := ipa.NewPrecomputedWeights()
				return frsDigest(pw.DivideOnDomain(200, frsFromBig(pick(polyAlphabet(seed), 13).V))) + frsDigest(pw.ComputeBarycentricCoefficients(frFromBig(bi(999))))
			},
		}},
		{"fr decoders and printers || the same (other values)", "C12 C15 C16", false, [2]func(*ipa.IPAConfig, int64) string{
			func(c *ipa.IPAConfig, seed int64) string {
				var a, b fr.Element
				a.SetBytes(bytes.Repeat([]byte{0xfe}, 33))
				b.SetString("98765432109876543210987654321098765432101")
				return a.String() + b.String()
			},
			func(c *ipa.IPAConfig, seed int64) string {
				var a, b fr.Element
				a.SetBytesLE(bytes.Repeat([]byte{0xfd}, 33))
				b.SetBigInt(new(big.Int).Add(bigR, bi(9)))
				return a.String() + b.String()
			},
		}},
		{"Transcript || Transcript", "C12 C14", false, [2]func(*ipa.IPAConfig, int64) string{
			func(c *ipa.IPAConfig, seed int64) string {
				t := common.NewTranscript("a")
				s := frFromBig(bi(5))
				t.AppendScalar(&s, []byte("s"))
				x := t.ChallengeScalar([]byte("c"))
				return frToBig(x).Text(16)
			},
			func(c *ipa.IPAConfig, seed int64) string {
				t := common.NewTranscript("b")
				t.AppendMessage([]byte("message"), []byte("m"))
				x := t.ChallengeScalar([]byte("c"))
				y := t.ChallengeScalar([]byte("d"))
				return frToBig(x).Text(16) + frToBig(y).Text(16)
			},
		}},
		{"first Commit || first Commit on a fresh configuration", "C05 C12", true, [2]func(*ipa.IPAConfig, int64) string{
			func(c *ipa.IPAConfig, seed int64) string {
				e := c.Commit(frsFromBig(pick(polyAlphabet(seed), 12).V))
				return elString(&e)
			},
			func(c *ipa.IPAConfig, seed int64) string {
				e := c.Commit(frsFromBig(pick(polyAlphabet(seed), 13).V)[:7])
				return elString(&e)
			},
		}},
		{"first ComputeBarycentricCoefficients || first DivideOnDomain on a fresh configuration", "C12 C18", true, [2]func(*ipa.IPAConfig, int64) string{
			func(c *ipa.IPAConfig, seed int64) string {
				b := c.PrecomputedWeights.ComputeBarycentricCoefficients(frFromBig(bi(300)))
				return frsDigest(b)
			},
			func(c *ipa.IPAConfig, seed int64) string {
				return frsDigest(c.PrecomputedWeights.DivideOnDomain(17, frsFromBig(pick(polyAlphabet(seed), 12).V)))
			},
		}},
	}
}

var (
	fuEncOnce sync.Once
	fuEnc     [][32]byte
)

// refCompress: the encoding of the i-th point of the reference CRS (math/big only).
func refCompress(i int) [32]byte {
	fuEncOnce.Do(func() {
		for _, p := range ref.CRS(4) {
			fuEnc = append(fuEnc, ref.Compress(p))
		}
	})
	return fuEnc[i]
}

func elsDigest(v []banderwagon.Element) string {
	s := ""
	for i := range v {
		b := v[i].Bytes()
		s += hx(b[:])
	}
	return s
}

// fuExec: what the child reports about its one execution.
type fuExec struct {
	Obs      string     `json:"obs"`
	Choices  []int      `json:"choices"`
	Ns       []int      `json:"ns"`
	Kinds    []string   `json:"kinds"`
	Enabled  [][]string `json:"enabled"`
	Panic    string     `json:"panic,omitempty"`
	Deadlock bool       `json:"deadlock,omitempty"`
	Blocked  string     `json:"blocked,omitempty"`
}

const fuChildUnit = "first-use child"

// fuChild runs in the fresh process: one controlled execution following VERIF_FU_PREFIX.
func fuChild(ctx *core.Ctx, r *core.Result) {
	if os.Getenv("VERIF_FU_SCEN") == "" {
		return
	}
	var sc *fuScenario
	for _, s := range fuScenarios() {
		if s.name == os.Getenv("VERIF_FU_SCEN") {
			s := s
			sc = &s
		}
	}
	if sc == nil || !vsched.Instrumented {
		r.ToolError = "first-use child: unknown scenario or no scheduler"
		return
	}
	var prefix []int
	for _, f := range strings.Split(os.Getenv("VERIF_FU_PREFIX"), ",") {
		if f != "" {
			k, _ := strconv.Atoi(f)
			prefix = append(prefix, k)
		}
	}
	var c *ipa.IPAConfig
	if sc.conf {
		c = conf()
	}
	vsched.SetNumCPU(2)
	vsched.FamilyAffinity, vsched.PostPoints, vsched.GlobalPoints = true, true, true
	vsched.PoolPoison = poisonBig
	body := func() string {
		outs := make([]string, 2)
		var wg vsched.WaitGroup
		wg.Add(2)
		vsched.Go2(func(_, _ int) { defer wg.Done(); outs[0] = sc.calls[0](c, ctx.Seed) }, 0, 0)
		vsched.Go2(func(_, _ int) { defer wg.Done(); outs[1] = sc.calls[1](c, ctx.Seed) }, 0, 0)
		wg.Wait()
		return "[0]" + outs[0] + "[1]" + outs[1]
	}
	x := explore.RunOnce(body, prefix)
	r.Note("exec", fuExec{Obs: x.Obs, Choices: x.Choices, Ns: x.Ns, Kinds: x.Kinds, Enabled: x.Enabled, Panic: x.Panic, Deadlock: x.Deadlock, Blocked: x.Blocked})
}

func fuRunChild(ctx *core.Ctx, id, scen string, prefix []int) (*fuExec, string) {
	self, err := os.Executable()
	if err != nil {
		return nil, err.Error()
	}
	ps := make([]string, len(prefix))
	for i, k := range prefix {
		ps[i] = strconv.Itoa(k)
	}
	cmd := exec.Command(self, "-prop", id, "-tier", ctx.Tier, "-seed", fmt.Sprint(ctx.Seed), "-rununit", fuChildUnit)
	cmd.Env = append(os.Environ(), "VERIF_FLAVOUR_CHILD=1", "VERIF_FU_SCEN="+scen, "VERIF_FU_PREFIX="+strings.Join(ps, ","), "GOMAXPROCS=2")
	var errb bytes.Buffer
	cmd.Stderr = &errb
	done := make(chan struct{})
	var out []byte
	go func() { out, err = cmd.Output(); close(done) }()
	select {
	case <-done:
	case <-time.After(5 * time.Minute):
		cmd.Process.Kill()
		<-done
		if core.Overloaded() {
			return nil, "overloaded" // no verdict about termination on an overcommitted machine
		}
		return &fuExec{Obs: "HANG: the execution did not end within 5 minutes", Choices: prefix}, ""
	}
	if err != nil {
		es := errb.String()
		if strings.Contains(es, "github.com/crate-crypto/go-ipa") && (strings.Contains(es, "panic:") || strings.Contains(es, "fatal error:")) {
			return &fuExec{Obs: "CRASH", Panic: clip3k(es), Choices: prefix}, ""
		}
		return nil, fmt.Sprintf("first-use child failed: %v\n%s", err, clip3k(es))
	}
	var sub core.Result
	if e := json.Unmarshal(out, &sub); e != nil {
		return nil, "first-use child: unreadable result: " + e.Error()
	}
	if sub.ToolError != "" {
		return nil, sub.ToolError
	}
	raw, _ := json.Marshal(sub.Notes["exec"])
	var x fuExec
	if e := json.Unmarshal(raw, &x); e != nil || sub.Notes["exec"] == nil {
		return nil, "first-use child: no execution record"
	}
	return &x, ""
}

// fuUnits: one unit per first-use scenario of property id.
func fuUnits(id string) []core.Unit {
	var us []core.Unit
	for _, sc := range fuScenarios() {
		if !hasWord(sc.props, id) {
			continue
		}
		sc := sc
		us = append(us, core.Unit{Name: "first use in a fresh process, every switch point: " + sc.name, Run: func(ctx *core.Ctx, r *core.Result) {
			if !vsched.Instrumented {
				r.Note("seam", "unavailable (fallback flavour)")
				return
			}
			if sc.conf && !ctx.Thorough() && id != "C12" && id != "C05" {
				return // scenarios that build a configuration per execution: thorough tier (quick: C12, C05 only)
			}
			var c *ipa.IPAConfig
			if sc.conf {
				c = conf()
			}
			var want string
			if !guard(r, lower(id)+".panic", sc.name, "executed alone", func() {
				want = "[0]" + sc.calls[0](c, ctx.Seed) + "[1]" + sc.calls[1](c, ctx.Seed)
			}) {
				return
			}
			judge := func(x *fuExec, how string) {
				r.Evals++
				r.Traces++
				r.Nontrivial++
				r.Transitions += int64(len(x.Choices))
				got := x.Obs
				switch {
				case x.Panic != "":
					got = "PANIC/CRASH: " + x.Panic
				case x.Deadlock:
					got = "DEADLOCK: blocked " + x.Blocked
				}
				if got != want {
					vio(r, lower(id)+".first_use", sc.name, fmt.Sprintf("fresh process, two callers at once, %s (choice sequence %v)", how, x.Choices), "the outputs of the two calls executed alone: "+clipS(want), clipS(got))
				}
			}
			overloaded := func(terr string) bool {
				if terr == "overloaded" {
					r.Exhaustive = false
					r.Caps = append(r.Caps, sc.name+": a child process did not finish within 5 minutes on an overcommitted machine (no verdict)")
					return true
				}
				return false
			}
			base, terr := fuRunChild(ctx, id, sc.name, nil)
			if overloaded(terr) {
				return
			}
			if terr != "" {
				r.ToolError = terr
				return
			}
			judge(base, "default schedule")
			// the same choice sequence in another fresh process must give the same execution
			again, terr := fuRunChild(ctx, id, sc.name, base.Choices)
			if overloaded(terr) {
				return
			}
			if terr != "" {
				r.ToolError = terr
				return
			}
			if fmt.Sprint(again.Ns) != fmt.Sprint(base.Ns) || again.Obs != base.Obs {
				r.ToolError = "first-use exploration: the same choice sequence gave a different execution in a second fresh process"
				return
			}
			type seed struct {
				prefix []int
				how    string
			}
			var seeds []seed
			for i := range base.Ns {
				if base.Kinds[i] != "sched" {
					continue
				}
				for alt := 1; alt < base.Ns[i]; alt++ {
					if !callerSwitch(base.Enabled[i], alt) {
						continue
					}
					np := append(append([]int{}, base.Choices[:i]...), alt)
					seeds = append(seeds, seed{np, fmt.Sprintf("switch to caller %s at scheduling point %d", base.Enabled[i][alt], i)})
				}
			}
			seeds = explore.Spread(seeds)
			limit := 10 * time.Second
			if sc.conf {
				limit = 25 * time.Second
			}
			if ctx.Thorough() {
				limit = 10 * time.Minute
			}
			t0 := time.Now()
			var mu sync.Mutex
			var wg sync.WaitGroup
			sem := make(chan struct{}, 4)
			done, capped := 0, false
			for _, sd := range seeds {
				if time.Since(t0) > limit {
					capped = true
					break
				}
				sd := sd
				wg.Add(1)
				sem <- struct{}{}
				go func() {
					defer func() { <-sem; wg.Done() }()
					x, terr := fuRunChild(ctx, id, sc.name, sd.prefix)
					mu.Lock()
					defer mu.Unlock()
					if overloaded(terr) {
						return
					}
					if terr != "" {
						r.ToolError = terr
						return
					}
					done++
					judge(x, sd.how)
				}()
			}
			wg.Wait()
			r.States += int64(len(base.Ns))
			r.Note("switch_points", len(seeds))
			if capped {
				r.Exhaustive = false
				r.Caps = append(r.Caps, fmt.Sprintf("%s: time cap %s after %d of %d switch points", sc.name, limit, done, len(seeds)))
			}
			r.Sample(map[string]interface{}{"scenario": sc.name, "processes": done + 2, "scheduling_points_of_the_default_execution": len(base.Ns), "caller_switch_points": len(seeds)})
		}})
	}
	if len(us) > 0 {
		us = append(us, core.Unit{Name: fuChildUnit, Run: fuChild})
	}
	return us
}

func init() {
	for _, id := range []string{"C01", "C02", "C03", "C04", "C05", "C06", "C07", "C08", "C09", "C10", "C11", "C12", "C14", "C15", "C16", "C17", "C18", "C19", "C20"} {
		id := id
		ch := core.Lookup(id)
		if ch == nil {
			panic("atonce: check " + id + " not registered yet")
		}
		if len(atOnceOps(id)) == 0 && len(fuUnits(id)) == 0 && len(workersUnits(id)) == 0 {
			continue
		}
		ch.Rule += "; two callers at once: for every pair of this property's operations (and, in a fresh process per execution, for their first use) the default execution plus every execution with one switch (thorough: two) to the other top-level caller at a scheduling point (sync, channel, pool, sync/atomic operations), each judged against the calls executed alone (<id>.at_once, <id>.first_use)"
		orig := ch.Units
		ch.Units = func(ctx *core.Ctx) []core.Unit {
			us := orig(ctx)
			if os.Getenv("VERIF_FLAVOUR_CHILD") != "" && os.Getenv("VERIF_FU_SCEN") == "" {
				return us
			}
			us = append(us, atOnceUnits(id)...)
			us = append(us, workersUnits(id)...)
			us = append(us, burstUnits(id)...)
			us = append(us, longShortUnits(id)...)
			return append(us, fuUnits(id)...)
		}
	}
}

// ---------- the workers of ONE call at the variables they share ----------

// A worker closure that a call runs on several goroutines (parallel.Execute, go statements) shares every
// local variable of the enclosing function it names. The instrumenter places points at those accesses as
// well; here one call is explored with every single switch between its own goroutines at such a point
// (bounded search without the caller filter, switch points visited in binary-subdivision order under the
// cap): a scratch variable hoisted out of the closure gives results that depend on the schedule.
type wkCall struct {
	name  string
	props string
	f     func(c *ipa.IPAConfig, seed int64) string
}

func wkMenu() []wkCall {
	els := func(c *ipa.IPAConfig, n int) ([]banderwagon.Element, []*banderwagon.Element) {
		store := make([]banderwagon.Element, n)
		ptrs := make([]*banderwagon.Element, n)
		for i := range store {
			store[i] = reprOf(c.SRS[(i*3+1)%256], 1+i%3)
			ptrs[i] = &store[i]
		}
		return store, ptrs
	}
	return []wkCall{
		{"ElementsToBytes / BatchToBytesUncompressed of 300 elements", "C07 C19", func(c *ipa.IPAConfig, seed int64) string {
			_, ptrs := els(c, 300)
			h := sha256.New()
			for _, b := range banderwagon.ElementsToBytes(ptrs...) {
				h.Write(b[:])
			}
			for _, b := range banderwagon.BatchToBytesUncompressed(ptrs...) {
				h.Write(b[:])
			}
			return fmt.Sprintf("%x", h.Sum(nil))
		}},
		{"BatchMapToScalarField of 300 elements", "C11 C19", func(c *ipa.IPAConfig, seed int64) string {
			_, ptrs := els(c, 300)
			res := make([]*fr.Element, len(ptrs))
			out := make([]fr.Element, len(ptrs))
			for i := range res {
				res[i] = &out[i]
			}
			err := banderwagon.BatchMapToScalarField(res, ptrs)
			return frsDigest(out) + fmt.Sprint(err)
		}},
		{"BatchNormalize of 300 elements", "C07 C19", func(c *ipa.IPAConfig, seed int64) string {
			store, ptrs := els(c, 300)
			err := banderwagon.BatchNormalize(ptrs)
			return elsDigest(store[:5]) + elsDigest(store[295:]) + fmt.Sprint(err)
		}},
		{"fr.BatchInvert of 1100 values", "C15 C19", func(c *ipa.IPAConfig, seed int64) string {
			v := make([]fr.Element, 1100)
			for i := range v {
				if i%97 != 5 {
					v[i] = frFromBig(bi(int64(i + 2)))
				}
			}
			return frsDigest(fr.BatchInvert(v))
		}},
		{"ipa.MultiScalar of 40 points", "C05 C09", func(c *ipa.IPAConfig, seed int64) string {
			sc := make([]fr.Element, 40)
			for i := range sc {
				sc[i] = frFromBig(prfR(seed, "wk", i))
			}
			e, err := ipa.MultiScalar(c.SRS[:40], sc)
			return elString(&e) + fmt.Sprint(err)
		}},
		{"CreateMultiProof with 5 openings (grouping workers)", "C01 C03", func(c *ipa.IPAConfig, seed int64) string {
			polys := polyAlphabet(seed)
			s := stmt{label: "vt"}
			for i := 0; i < 5; i++ {
				s.zs = append(s.zs, (i*37+3)%256)
				s.polys = append(s.polys, pick(polys, 8+i%6))
			}
			b, _, err := implProofBytes(c, s)
			return fmt.Sprintf("%x %v", sha256.Sum256(b), err)
		}},
	}
}

func workersUnits(id string) []core.Unit {
	var us []core.Unit
	for _, w := range wkMenu() {
		if !hasWord(w.props, id) {
			continue
		}
		for _, cpu := range []int{2, 3} {
			w, cpu := w, cpu
			name := fmt.Sprintf("the workers of one call at the variables they share, every switch point: %s, NumCPU=%d", w.name, cpu)
			us = append(us, core.Unit{Name: name, Run: func(ctx *core.Ctx, r *core.Result) {
				if !vsched.Instrumented {
					r.Note("seam", "unavailable (fallback flavour)")
					return
				}
				c := conf()
				vsched.SetNumCPU(cpu)
				defer vsched.SetNumCPU(0)
				var want string
				if !guard(r, lower(id)+".panic", w.name, "executed without the scheduler", func() { want = w.f(c, ctx.Seed) }) {
					return
				}
				vsched.GlobalPoints = true
				defer func() { vsched.GlobalPoints = false }()
				bd, dl := 1, 10*time.Second
				if ctx.Thorough() {
					dl = 5 * time.Minute
				}
				st := core.Explore(r, core.SchedSpec{Name: name, API: w.name, Check: lower(id) + ".workers", Body: func() string { return w.f(c, ctx.Seed) }, Expect: want, Mode: "bounded",
					Opt: explore.Options{MaxBound: bd, SchedOnly: true, Spread: true, MaxExecs: 200000, Deadline: dl}})
				r.Nontrivial += int64(st.Complete)
				r.Note("distinct_outcomes", len(st.Outcomes))
			}})
		}
	}
	return us
}

// ---------- many callers at once (free-running) ----------

// burstUnits: 24 real goroutines inside the same operation at once, three rounds; every output equals the
// output of the call executed alone. Not an exhaustive search (the schedules are the machine's), it covers
// what needs three or more overlapping callers, which the single-switch searches above cannot produce.
func burstUnits(id string) []core.Unit {
	ops := atOnceOps(id)
	if len(ops) == 0 || id == "C12" {
		return nil
	}
	return []core.Unit{{Name: "24 callers inside the same operation at once (free-running, 3 rounds per operation)", Run: func(ctx *core.Ctx, r *core.Result) {
		c := conf()
		for _, op := range ops {
			var alone [2]string
			if !guard(r, lower(id)+".panic", op.name, "executed alone", func() { alone[0], alone[1] = op.f(c, ctx.Seed, 0), op.f(c, ctx.Seed, 1) }) {
				continue
			}
			for round := 0; round < 3; round++ {
				outs := make([]string, 24)
				if !timed(r, lower(id)+".panic", op.name, "24 concurrent callers", func() {
					var wg sync.WaitGroup
					for k := range outs {
						wg.Add(1)
						go func(k int) { defer wg.Done(); outs[k] = op.f(c, ctx.Seed, k%2) }(k)
					}
					wg.Wait()
				}) {
					break
				}
				r.Evals++
				r.Nontrivial++
				bad := false
				for k := range outs {
					if outs[k] != alone[k%2] {
						vio(r, lower(id)+".at_once", op.name, fmt.Sprintf("24 concurrent callers (free-running), round %d, caller %d", round, k), "the output of the call executed alone: "+clipS(alone[k%2]), clipS(outs[k]))
						bad = true
						break
					}
				}
				if bad {
					break
				}
			}
		}
	}}}
}

// ---------- one long call overlapped by many short ones (free-running) ----------

// longShortUnits: a batch helper working on 2^15 elements while two other goroutines keep calling the same
// helper on small batches of other elements; the long call's result must equal the result of the same call
// executed alone (three rounds). Scratch memory that a call keeps using after another call could take it
// over shows here even when no scheduling point lies inside the window.
func longShortUnits(id string) []core.Unit {
	if id != "C11" && id != "C19" && id != "C07" && id != "C15" {
		return nil
	}
	return []core.Unit{{Name: "one long batch call overlapped by many short ones (free-running)", Run: func(ctx *core.Ctx, r *core.Result) {
		c := conf()
		const big = 1 << 15
		mkEls := func(n, off int) ([]banderwagon.Element, []*banderwagon.Element) {
			store := make([]banderwagon.Element, n)
			ptrs := make([]*banderwagon.Element, n)
			for i := range store {
				store[i] = reprOf(c.SRS[(i*3+off)%256], 1+i%3)
				ptrs[i] = &store[i]
			}
			return store, ptrs
		}
		type job struct {
			name string
			run  func(n, off int) string
		}
		jobs := []job{
			{"banderwagon.BatchMapToScalarField", func(n, off int) string {
				_, ptrs := mkEls(n, off)
				out := make([]fr.Element, n)
				res := make([]*fr.Element, n)
				for i := range res {
					res[i] = &out[i]
				}
				err := banderwagon.BatchMapToScalarField(res, ptrs)
				return frsDigest(out) + fmt.Sprint(err)
			}},
			{"banderwagon.ElementsToBytes", func(n, off int) string {
				_, ptrs := mkEls(n, off)
				h := sha256.New()
				for _, b := range banderwagon.ElementsToBytes(ptrs...) {
					h.Write(b[:])
				}
				return fmt.Sprintf("%x", h.Sum(nil))
			}},
			{"banderwagon.BatchNormalize", func(n, off int) string {
				store, ptrs := mkEls(n, off)
				err := banderwagon.BatchNormalize(ptrs)
				return elsDigest(store[:3]) + elsDigest(store[n-3:]) + fmt.Sprint(err)
			}},
			{"fr.BatchInvert", func(n, off int) string {
				v := make([]fr.Element, n)
				for i := range v {
					v[i] = frFromBig(bi(int64(i + 2 + off)))
				}
				return frsDigest(fr.BatchInvert(v))
			}},
		}
		for _, j := range jobs {
			if (id == "C15") != (j.name == "fr.BatchInvert") && id != "C19" {
				continue
			}
			var alone string
			if !guard(r, lower(id)+".panic", j.name, "executed alone", func() { alone = j.run(big, 0) }) {
				continue
			}
			for round := 0; round < 3; round++ {
				var got string
				if !timed(r, lower(id)+".panic", j.name, "a call on 32768 elements overlapped by short calls", func() {
					stop := make(chan struct{})
					var wg sync.WaitGroup
					for k := 0; k < 2; k++ {
						wg.Add(1)
						go func(k int) {
							defer wg.Done()
							for {
								select {
								case <-stop:
									return
								default:
									j.run(64+k, 100+k)
								}
							}
						}(k)
					}
					got = j.run(big, 0)
					close(stop)
					wg.Wait()
				}) {
					break
				}
				r.Evals++
				r.Nontrivial++
				if got != alone {
					vio(r, lower(id)+".at_once", j.name, fmt.Sprintf("a call on %d elements while two goroutines keep calling it on 64 and 65 other elements (free-running, round %d)", big, round), "the result of the same call executed alone", "a different result")
					break
				}
			}
		}
	}}}
}
