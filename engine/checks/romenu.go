package checks

import (
	"bytes"
	"fmt"
	"math/big"
	"os"
	"unsafe"

	multiproof "github.com/crate-crypto/go-ipa"
	"github.com/crate-crypto/go-ipa/bandersnatch/fr"
	"github.com/crate-crypto/go-ipa/banderwagon"
	"github.com/crate-crypto/go-ipa/common"
	"github.com/crate-crypto/go-ipa/ipa"
	"verif.local/engine/core"
)

// roOp: one API call whose read-only arguments live in write-protected memory (romem.go). props lists the
// checks whose property quantifies over this call; C13 (no input is ever changed) runs the whole menu.
type roOp struct {
	name  string
	props string // space separated ids
	// prep places the arguments in g and returns the call (result digest) — the same call is also executed
	// on ordinary memory and the two digests must agree.
	prep func(c *ipa.IPAConfig, seed int64, g *roRegion) func() string
}

func roPtrEls(g *roRegion, v []banderwagon.Element) []*banderwagon.Element {
	els := roEls(g, v)
	p := g.alloc(len(v) * int(unsafe.Sizeof(uintptr(0))))
	out := unsafe.Slice((**banderwagon.Element)(p), len(v))
	for i := range els {
		out[i] = &els[i]
	}
	return out
}

func roPtrFrs(g *roRegion, v []fr.Element) []*fr.Element {
	els := roFrs(g, v)
	p := g.alloc(len(v) * int(unsafe.Sizeof(uintptr(0))))
	out := unsafe.Slice((**fr.Element)(p), len(v))
	for i := range els {
		out[i] = &els[i]
	}
	return out
}

func roMenu() []roOp {
	elb := func(e banderwagon.Element) string { b := e.Bytes(); return hx(b[:]) }
	poly := func(seed int64, k int) []fr.Element { return frsFromBig(pick(polyAlphabet(seed), k).V) }
	scal := func(seed int64, n int) []fr.Element {
		ed := sEdge(seed, false)
		v := make([]fr.Element, n)
		for i := range v {
			v[i] = frFromBig(ed[(i*7+3)%len(ed)])
		}
		return v
	}
	var ops []roOp
	add := func(name, props string, prep func(c *ipa.IPAConfig, seed int64, g *roRegion) func() string) {
		ops = append(ops, roOp{name, props, prep})
	}
	for _, n := range []int{1, 5, 6, 256} {
		n := n
		add(fmt.Sprintf("IPAConfig.Commit(v), len %d", n), "C05 C13", func(c *ipa.IPAConfig, seed int64, g *roRegion) func() string {
			v := roFrs(g, scal(seed, n))
			return func() string { return elb(c.Commit(v)) }
		})
	}
	add("MSMPrecomp.MSM(v), len 256 edge scalars", "C05 C13", func(c *ipa.IPAConfig, seed int64, g *roRegion) func() string {
		v := roFrs(g, poly(seed, 12))
		return func() string { return elb(c.PrecompMSM.MSM(v)) }
	})
	for _, n := range []int{1, 3, 40, 300} {
		n := n
		add(fmt.Sprintf("ipa.MultiScalar(points, scalars), %d terms", n), "C05 C07 C13", func(c *ipa.IPAConfig, seed int64, g *roRegion) func() string {
			pts := make([]banderwagon.Element, n)
			for i := range pts {
				pts[i] = reprOf(c.SRS[(i*5)%256], i%nRepr) // a mix of normalised and projective points
			}
			rp, rs := roEls(g, pts), roFrs(g, scal(seed, n))
			return func() string { e, err := ipa.MultiScalar(rp, rs); return elb(e) + fmt.Sprint(err) }
		})
	}
	add("Element.MultiExp(points, scalars, config), 20 terms", "C07 C13", func(c *ipa.IPAConfig, seed int64, g *roRegion) func() string {
		pts := make([]banderwagon.Element, 20)
		for i := range pts {
			pts[i] = c.SRS[i+3]
		}
		rp, rs := roEls(g, pts), roFrs(g, scal(seed, 20))
		return func() string {
			var e banderwagon.Element
			_, err := e.MultiExp(rp, rs, banderwagon.MultiExpConfig{NbTasks: 2, ScalarsMont: true})
			return elb(e) + fmt.Sprint(err)
		}
	})
	add("ipa.InnerProd(a, b)", "C13 C18", func(c *ipa.IPAConfig, seed int64, g *roRegion) func() string {
		a, b := roFrs(g, poly(seed, 12)), roFrs(g, poly(seed, 13))
		return func() string { x, err := ipa.InnerProd(a, b); return frToBig(x).Text(16) + fmt.Sprint(err) }
	})
	add("PrecomputedWeights.DivideOnDomain(i, f)", "C13 C18", func(c *ipa.IPAConfig, seed int64, g *roRegion) func() string {
		f := roFrs(g, poly(seed, 12))
		return func() string { return frsDigest(c.PrecomputedWeights.DivideOnDomain(9, f)) }
	})
	add("fr.BatchInvert(v)", "C13 C19", func(c *ipa.IPAConfig, seed int64, g *roRegion) func() string {
		v := roFrs(g, scal(seed, 9))
		return func() string { return frsDigest(fr.BatchInvert(v)) }
	})
	add("CreateIPAProof(cm, a, z) out of the domain", "C03 C13", func(c *ipa.IPAConfig, seed int64, g *roRegion) func() string {
		a := poly(seed, 12)
		cm := c.Commit(a)
		ra := roFrs(g, a)
		return func() string {
			pr, err := ipa.CreateIPAProof(common.NewTranscript("ipa"), c, cm, ra, frFromBig(bi(300)))
			return hx(ipaProofBytes(&pr)) + fmt.Sprint(err)
		}
	})
	add("CreateIPAProof(cm, a, z) inside the domain", "C03 C13", func(c *ipa.IPAConfig, seed int64, g *roRegion) func() string {
		a := poly(seed, 13)
		cm := c.Commit(a)
		ra := roFrs(g, a)
		return func() string {
			pr, err := ipa.CreateIPAProof(common.NewTranscript("ipa"), c, cm, ra, frFromBig(bi(17)))
			return hx(ipaProofBytes(&pr)) + fmt.Sprint(err)
		}
	})
	add("CheckIPAProof(cm, proof, z, y): proof vectors", "C04 C13", func(c *ipa.IPAConfig, seed int64, g *roRegion) func() string {
		p := c12Fixture(c, seed)
		pr := ipa.IPAProof{L: roEls(g, p.proof.L), R: roEls(g, p.proof.R), A_scalar: p.proof.A_scalar}
		return func() string {
			ok, err := ipa.CheckIPAProof(common.NewTranscript("ipa"), c, p.cm, pr, p.z, p.y)
			return fmt.Sprint(ok, err)
		}
	})
	for _, n := range []int{1, 2, 17} {
		n := n
		mk := func(seed int64) stmt {
			polys := polyAlphabet(seed)
			s := stmt{label: "vt"}
			for i := 0; i < n; i++ {
				s.zs = append(s.zs, (i*37+3)%256)
				s.polys = append(s.polys, pick(polys, 8+i%6))
			}
			return s
		}
		add(fmt.Sprintf("CreateMultiProof(Cs, fs, zs), %d openings: polynomials and indices", n), "C01 C13", func(c *ipa.IPAConfig, seed int64, g *roRegion) func() string {
			is := mk(seed).build(c)
			fs := make([][]fr.Element, len(is.fs))
			for i := range fs {
				fs[i] = roFrs(g, is.fs[i])
			}
			zs := roU8(g, is.zs)
			return func() string {
				// the commitments may be re-normalised by the prover: fresh ordinary copies for every call
				cs := make([]*banderwagon.Element, len(is.Cs))
				for i := range cs {
					e := *is.Cs[i]
					cs[i] = &e
				}
				p, err := multiproof.CreateMultiProof(common.NewTranscript("vt"), c, cs, fs, zs)
				if err != nil {
					return "error " + err.Error()
				}
				return hx(proofBytes(p))
			}
		})
		add(fmt.Sprintf("CheckMultiProof(proof, Cs, ys, zs), %d openings: everything", n), "C01 C02 C13", func(c *ipa.IPAConfig, seed int64, g *roRegion) func() string {
			is := mk(seed).build(c)
			p, err := multiproof.CreateMultiProof(common.NewTranscript("vt"), c, is.Cs, is.fs, is.zs)
			if err != nil {
				return func() string { return "prover error " + err.Error() }
			}
			cv := make([]banderwagon.Element, len(is.Cs))
			yv := make([]fr.Element, len(is.ys))
			for i := range cv {
				cv[i], yv[i] = *is.Cs[i], *is.ys[i]
			}
			cs, ys, zs := roPtrEls(g, cv), roPtrFrs(g, yv), roU8(g, is.zs)
			// the proof object itself lives in the protected pages too (its slices point into them)
			rp := (*multiproof.MultiProof)(g.alloc(int(unsafe.Sizeof(multiproof.MultiProof{}))))
			rp.D, rp.IPA = p.D, ipa.IPAProof{L: roEls(g, p.IPA.L), R: roEls(g, p.IPA.R), A_scalar: p.IPA.A_scalar}
			return func() string {
				ok, err := multiproof.CheckMultiProof(common.NewTranscript("vt"), c, rp, cs, ys, zs)
				return fmt.Sprint(ok, err)
			}
		})
	}
	// codecs
	for _, n := range []int{0, 1, 31, 32, 33, 64} {
		n := n
		src := func() []byte {
			b := bytes.Repeat([]byte{0xff}, n)
			if n >= 32 {
				b[0], b[31] = 0x01, 0x02 // canonical both ways for n == 32
				for i := 1; i < 31; i++ {
					b[i] = byte(i)
				}
			}
			return b
		}
		add(fmt.Sprintf("fr decoders (SetBytes, SetBytesLE, SetBytesLECanonical, ReadScalar) of %d bytes", n), "C13 C16", func(c *ipa.IPAConfig, seed int64, g *roRegion) func() string {
			b := roBytes(g, src())
			return func() string {
				e1, e2, e4 := dirtyFr(), dirtyFr(), dirtyFr()
				e1.SetBytes(b)
				e2.SetBytesLE(b)
				_, err4 := e4.SetBytesLECanonical(b)
				s, err5 := common.ReadScalar(bytes.NewReader(b))
				return fmt.Sprint(frToBig(e1).Text(16), frToBig(e2).Text(16), err4 == nil, err5 == nil, s != nil)
			}
		})
	}
	add("fr encoders and printers of a shared element (Bytes, BytesLE, String, ToBigIntRegular, Equal, IsZero)", "C13 C16", func(c *ipa.IPAConfig, seed int64, g *roRegion) func() string {
		v := roFrs(g, []fr.Element{frFromBig(new(big.Int).Sub(bigR, bi(5)))})
		return func() string {
			x := &v[0]
			b, l := x.Bytes(), x.BytesLE()
			var bg big.Int
			x.ToBigIntRegular(&bg)
			return fmt.Sprint(hx(b[:]), hx(l[:]), x.String(), bg.Text(16), x.Equal(x), x.IsZero())
		}
	})
	add("fr arithmetic with shared operands (Add, Sub, Mul, Square, Neg, Inverse, Exp, Double)", "C13 C15", func(c *ipa.IPAConfig, seed int64, g *roRegion) func() string {
		v := roFrs(g, []fr.Element{frFromBig(new(big.Int).Sub(bigR, bi(5))), frFromBig(lambdaGLV)})
		return func() string {
			a, b := &v[0], &v[1]
			out := make([]fr.Element, 8)
			for i := range out {
				out[i] = dirtyFr()
			}
			out[0].Add(a, b)
			out[1].Sub(a, b)
			out[2].Mul(a, b)
			out[3].Square(a)
			out[4].Neg(a)
			out[5].Inverse(b)
			out[6].Exp(*a, big.NewInt(65537))
			out[7].Double(b)
			return frsDigest(out)
		}
	})
	add("Element decoders (SetBytes, SetBytesUnsafe, SetBytesUncompressed trusted and untrusted, ReadPoint) of shared bytes", "C06 C09 C13", func(c *ipa.IPAConfig, seed int64, g *roRegion) func() string {
		cb := c.SRS[7].Bytes()
		ub := c.SRS[7].BytesUncompressedTrusted()
		rc, ru := roBytes(g, cb[:]), roBytes(g, ub[:])
		return func() string {
			var e1, e2, e3, e4 banderwagon.Element
			e1, e2, e3, e4 = dirtyEl(), dirtyEl(), dirtyEl(), dirtyEl()
			err1 := e1.SetBytes(rc)
			err2 := e2.SetBytesUnsafe(rc)
			err3 := e3.SetBytesUncompressed(ru, true)
			err4 := e4.SetBytesUncompressed(ru, false)
			p, err5 := common.ReadPoint(bytes.NewReader(rc))
			s := fmt.Sprint(elb(e1), elb(e2), elb(e3), elb(e4), err1, err2, err3, err4, err5)
			if p != nil {
				s += elb(*p)
			}
			return s
		}
	})
	add("Element encoders of shared elements (Bytes, BytesUncompressedTrusted, ElementsToBytes, BatchToBytesUncompressed, MapToScalarField, BatchMapToScalarField, Equal)", "C06 C09 C11 C13 C19", func(c *ipa.IPAConfig, seed int64, g *roRegion) func() string {
		ptrs := roPtrEls(g, []banderwagon.Element{reprOf(c.SRS[3], reprProj), reprOf(c.SRS[4], reprProjFlip), c.SRS[5], reprOf(c.SRS[3], reprFlip)})
		return func() string {
			s := ""
			for _, p := range ptrs {
				u := p.BytesUncompressedTrusted()
				var m fr.Element = dirtyFr()
				p.MapToScalarField(&m)
				s += elb(*p) + hx(u[:8]) + frToBig(m).Text(16) + fmt.Sprint(p.Equal(ptrs[0]), ptrs[3].Equal(p))
			}
			for _, b := range banderwagon.ElementsToBytes(ptrs...) {
				s += hx(b[:4])
			}
			for _, b := range banderwagon.BatchToBytesUncompressed(ptrs...) {
				s += hx(b[:4])
			}
			res := make([]*fr.Element, len(ptrs))
			for i := range res {
				d := dirtyFr()
				res[i] = &d
			}
			err := banderwagon.BatchMapToScalarField(res, ptrs)
			for _, x := range res {
				s += frToBig(*x).Text(16)
			}
			return s + fmt.Sprint(err)
		}
	})
	add("batch encoders of 1100 shared elements in projective form (ElementsToBytes, BatchToBytesUncompressed, BatchMapToScalarField)", "C06 C07 C09 C11 C13 C19", func(c *ipa.IPAConfig, seed int64, g *roRegion) func() string {
		vals := make([]banderwagon.Element, 1100)
		for i := range vals {
			vals[i] = reprOf(c.SRS[(i*11)%256], 1+i%3)
		}
		ptrs := roPtrEls(g, vals)
		return func() string {
			x := banderwagon.ElementsToBytes(ptrs...)
			y := banderwagon.BatchToBytesUncompressed(ptrs...)
			res := make([]*fr.Element, len(ptrs))
			for i := range res {
				res[i] = new(fr.Element)
			}
			err := banderwagon.BatchMapToScalarField(res, ptrs)
			return fmt.Sprint(hx(x[0][:]), hx(x[1099][:]), hx(y[7][:8]), frToBig(*res[1099]).Text(16), err)
		}
	})
	add("Element arithmetic with shared operands (Add, Sub, Double, Neg, ScalarMul, Set, AddMixed-free)", "C08 C09 C13", func(c *ipa.IPAConfig, seed int64, g *roRegion) func() string {
		ptrs := roPtrEls(g, []banderwagon.Element{reprOf(c.SRS[3], reprProj), c.SRS[4]})
		k := roFrs(g, []fr.Element{frFromBig(new(big.Int).Sub(bigR, bi(2)))})
		return func() string {
			a, b := ptrs[0], ptrs[1]
			out := make([]banderwagon.Element, 6)
			for i := range out {
				out[i] = dirtyEl()
			}
			out[0].Add(a, b)
			out[1].Sub(a, b)
			out[2].Double(a)
			out[3].Neg(b)
			out[4].ScalarMul(a, &k[0])
			out[5].Set(b)
			s := ""
			for i := range out {
				s += elb(out[i])
			}
			return s
		}
	})
	add("Transcript with shared message, label, scalar and point", "C13 C14", func(c *ipa.IPAConfig, seed int64, g *roRegion) func() string {
		msg, lbl := roBytes(g, []byte("message bytes 0123456789")), roBytes(g, []byte("lbl"))
		sc := roFrs(g, []fr.Element{frFromBig(lambdaGLV)})
		pt := roPtrEls(g, []banderwagon.Element{reprOf(c.SRS[9], reprProj)})
		return func() string {
			t := common.NewTranscript("ro")
			t.AppendMessage(msg, lbl)
			t.AppendScalar(&sc[0], lbl)
			t.AppendPoint(pt[0], lbl)
			t.DomainSep(lbl)
			a := t.ChallengeScalar(lbl)
			b := t.ChallengeScalar(lbl)
			return frToBig(a).Text(16) + frToBig(b).Text(16)
		}
	})
	add("MultiProof.Read / IPAProof.Read / ReadScalar from shared bytes", "C10 C13", func(c *ipa.IPAConfig, seed int64, g *roRegion) func() string {
		hb := roBytes(g, honestProofBytes(seed, 0))
		return func() string {
			var mp multiproof.MultiProof
			err := mp.Read(bytes.NewReader(hb))
			var ip ipa.IPAProof
			err2 := ip.Read(bytes.NewReader(hb[32:]))
			s, err3 := common.ReadScalar(bytes.NewReader(hb[544:]))
			var out bytes.Buffer
			err4 := mp.Write(&out)
			return fmt.Sprint(err, err2, err3, err4, s != nil, bytes.Equal(out.Bytes(), hb))
		}
	})
	return ops
}

// roUnit: the menu entries tagged with id (all of them for C13), each executed once on ordinary memory and
// once on write-protected argument memory.
func roUnit(id string) core.Unit {
	return core.Unit{Name: "write-protected arguments", Run: func(ctx *core.Ctx, r *core.Result) {
		c := conf()
		clause := lower(id) + ".input_write"
		n := 0
		for _, op := range roMenu() {
			if id != "C13" && !hasWord(op.props, id) {
				continue
			}
			n++
			plain := newRO(1 << 20)
			if plain == nil {
				r.Note("write_protection", "unavailable on this platform (mmap refused)")
				r.Exhaustive = false
				return
			}
			var want, got string
			okp := guard(r, clausePanic(clause), op.name, "ordinary memory", func() { want = op.prep(c, ctx.Seed, plain)() })
			plain.release()
			if !okp {
				continue
			}
			g := newRO(1 << 20)
			var call func() string
			if !guard(r, clausePanic(clause), op.name, "preparing arguments", func() { call = op.prep(c, ctx.Seed, g) }) {
				g.release()
				continue
			}
			r.Evals++
			r.Nontrivial++
			if roCall(r, clause, op.name, "arguments in write-protected memory", g, func() { got = call() }) && got != want {
				vio(r, lower(id)+".input_alias", op.name, "arguments in write-protected memory vs. the same arguments in ordinary memory", want, got)
			}
			g.release()
		}
		r.Sample(map[string]interface{}{"calls_with_write_protected_arguments": n})
	}}
}

func lower(s string) string {
	b := []byte(s)
	for i := range b {
		if b[i] >= 'A' && b[i] <= 'Z' {
			b[i] += 32
		}
	}
	return string(b)
}

func hasWord(list, w string) bool {
	for _, f := range bytes.Fields([]byte(list)) {
		if string(f) == w {
			return true
		}
	}
	return false
}

// every check whose property quantifies over calls of the menu gets the write-protected-arguments unit
// (this file's init runs after the cNN.go files have registered their checks: file order within the package)
func init() {
	for _, id := range []string{"C01", "C02", "C03", "C04", "C05", "C06", "C07", "C08", "C09", "C10", "C11", "C13", "C14", "C15", "C16", "C18", "C19"} {
		id := id
		ch := core.Lookup(id)
		if ch == nil {
			panic("romenu: check " + id + " not registered yet")
		}
		ch.Rule += "; additionally every call of this property from the write-protection menu is executed with its read-only arguments in mprotect'ed pages: a store into a caller-supplied input — transient, restoring or same-value — faults deterministically and is a violation (<id>.input_write)"
		orig := ch.Units
		ch.Units = func(ctx *core.Ctx) []core.Unit {
			us := orig(ctx)
			if os.Getenv("VERIF_FLAVOUR_CHILD") != "" {
				return us
			}
			return append(us, roUnit(id))
		}
	}
}
