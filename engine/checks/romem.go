package checks

import (
	"fmt"
	"runtime/debug"
	"strings"
	"syscall"
	"unsafe"

	"github.com/crate-crypto/go-ipa/bandersnatch/fr"
	"github.com/crate-crypto/go-ipa/banderwagon"
	"verif.local/engine/core"
)

// Write-protected argument memory.
//
// A call that rewrites a caller-supplied input and puts the old value back before it returns is invisible
// to a before/after comparison, yet the input "changes" (C13) and two callers that share it read-only
// interfere (C05/C16 results then depend on the schedule). To decide "never written" for every enumerated
// input without sampling schedules, the input is placed in its own anonymous mapping which is made
// read-only for the duration of the call: any store into it — transient, restoring or same-value — faults
// deterministically, and the fault is turned into a panic that roCall reports.
//
// Element types placed here contain no Go pointers (fr.Element, banderwagon.Element, bytes), so hiding the
// memory from the garbage collector is safe.

type roRegion struct {
	mem   []byte
	used  int
	ro    bool
	plain bool
}

const roPage = 4096

func newRO(size int) *roRegion {
	n := (size + 64 + roPage - 1) / roPage * roPage
	if n == 0 {
		n = roPage
	}
	mem, err := syscall.Mmap(-1, 0, n, syscall.PROT_READ|syscall.PROT_WRITE, syscall.MAP_ANON|syscall.MAP_PRIVATE)
	if err != nil {
		return nil
	}
	return &roRegion{mem: mem}
}

// alloc: n bytes, 32-byte aligned, placed so that the slice ENDS at the end of the used part only when asked
func (g *roRegion) alloc(n int) unsafe.Pointer {
	off := (g.used + 31) &^ 31
	if off+n > len(g.mem) {
		panic("verif: roRegion overflow")
	}
	g.used = off + n
	if n == 0 {
		return unsafe.Pointer(&g.mem[off])
	}
	return unsafe.Pointer(&g.mem[off])
}

// newPlain: the same allocator over ordinary Go memory (never protected) — used where the race detector
// has to see the accesses (it ignores memory outside the Go heap).
func newPlain(size int) *roRegion {
	w := make([]uint64, (size+64+7)/8)
	return &roRegion{mem: unsafe.Slice((*byte)(unsafe.Pointer(&w[0])), len(w)*8), plain: true}
}

func (g *roRegion) protect() bool {
	if g == nil || g.plain {
		return false
	}
	if err := syscall.Mprotect(g.mem, syscall.PROT_READ); err != nil {
		return false
	}
	g.ro = true
	return true
}

func (g *roRegion) release() {
	if g == nil || g.mem == nil || g.plain {
		return
	}
	syscall.Mprotect(g.mem, syscall.PROT_READ|syscall.PROT_WRITE)
	syscall.Munmap(g.mem)
	g.mem = nil
}

func (g *roRegion) contains(a uintptr) bool {
	if g == nil || g.mem == nil {
		return false
	}
	base := uintptr(unsafe.Pointer(&g.mem[0]))
	return a >= base && a < base+uintptr(len(g.mem))
}

// roBytes / roFrs / roEls: copies of the given values inside g (capacity == length: the spare-capacity
// cases are covered by the slack helpers elsewhere).
func roBytes(g *roRegion, b []byte) []byte {
	p := g.alloc(len(b))
	out := unsafe.Slice((*byte)(p), len(b))
	copy(out, b)
	return out
}

func roFrs(g *roRegion, v []fr.Element) []fr.Element {
	p := g.alloc(len(v) * int(unsafe.Sizeof(fr.Element{})))
	out := unsafe.Slice((*fr.Element)(p), len(v))
	copy(out, v)
	return out
}

func roEls(g *roRegion, v []banderwagon.Element) []banderwagon.Element {
	p := g.alloc(len(v) * int(unsafe.Sizeof(banderwagon.Element{})))
	out := unsafe.Slice((*banderwagon.Element)(p), len(v))
	copy(out, v)
	return out
}

func roU8(g *roRegion, v []uint8) []uint8 { return roBytes(g, v) }

// roCall protects g, runs f with faults turned into panics, unprotects, and reports a store into g as a
// violation of clause. Other panics are reported like guard does. Returns false when f did not complete.
// When the platform refuses the mapping or the protection the call simply runs unprotected (ran=true).
func roCall(r *core.Result, clause, api, input string, g *roRegion, f func()) (ok bool) {
	prot := g.protect()
	old := debug.SetPanicOnFault(true)
	defer func() {
		debug.SetPanicOnFault(old)
		if prot {
			syscall.Mprotect(g.mem, syscall.PROT_READ|syscall.PROT_WRITE)
			g.ro = false
		}
		if e := recover(); e != nil {
			ok = false
			if msg := fmt.Sprint(e); strings.HasPrefix(msg, "verif: seam unavailable") {
				seamUnavailable(r, msg)
				return
			}
			type addrer interface{ Addr() uintptr }
			if ae, is := e.(addrer); is && g.contains(ae.Addr()) {
				vio(r, clause, api, input, "caller-supplied inputs are never written (not even transiently: they may be shared read-only between goroutines)", fmt.Sprintf("the call stores into its input (write fault at offset %d of the write-protected argument memory)\n%s", ae.Addr()-uintptr(unsafe.Pointer(&g.mem[0])), clip3k(string(debug.Stack()))))
				return
			}
			vio(r, clausePanic(clause), api, input, "no panic", fmt.Sprintf("panic: %v\n%s", e, clip3k(string(debug.Stack()))))
		}
	}()
	f()
	return true
}

func clausePanic(clause string) string {
	for i := 0; i < len(clause); i++ {
		if clause[i] == '.' {
			return clause[:i] + ".panic"
		}
	}
	return clause + ".panic"
}
