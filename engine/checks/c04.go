package checks

import (
	"bytes"
	"fmt"
	"math/big"

	"github.com/crate-crypto/go-ipa/bandersnatch/fr"
	"github.com/crate-crypto/go-ipa/banderwagon"
	"github.com/crate-crypto/go-ipa/common"
	"github.com/crate-crypto/go-ipa/ipa"
	"github.com/crate-crypto/go-ipa/zzverif/vsched"
	"verif.local/engine/core"
	"verif.local/engine/ref"
)

// C04 — IPA opens the committed polynomial at any field point, in or outside the domain.

func init() {
	core.Register(&core.Check{
		ID: "C04", Level: "exploration",
		Rule:   "evalPoint in {0,1,2,127,128,254,255,256,257,258,2^64,r-2,r-1,PRF x2} (thorough: additionally every point 0..300) x POLY (14 polynomials: zero, constants, unit vectors, sparse, max, ramp, x^255, PRF) x result in {p(point), p(point)+1, 0, -p(point), f[point+-1 mod 256], p evaluated at point+-1}; one IPA proof per (point, polynomial), one verification per result; two polynomials per point re-proved under NumCPU {1,2,3,17,64,65,128,300}; four proofs stored back to back in one buffer verified in sequence; the exported computeBVector is compared with the unit vector / reference Lagrange coefficients on 250..260; non-trivial = every case except the zero polynomial with result 0",
		Assume: []string{"p(point) is computed by the reference in coefficient form (interpolation + Horner), not by the library's barycentric code", "a wrong result being rejected is a 2^-250 probabilistic fact backed by the verification equation"},
		Units:  c04Units,
	})
}

func c04Units(ctx *core.Ctx) []core.Unit {
	points := func(seed int64, thorough bool) []*big.Int {
		rinv := new(big.Int).ModInverse(pow2(256), bigR) // k*2^-256: raw Montgomery limbs look like the domain point k
		ps := []*big.Int{bi(0), bi(1), bi(2), bi(127), bi(128), bi(254), bi(255), bi(256), bi(257), bi(258), pow2(64), new(big.Int).Set(rinv), new(big.Int).Mod(new(big.Int).Mul(rinv, bi(200)), bigR),
			new(big.Int).Sub(bigR, bi(2)), new(big.Int).Sub(bigR, bi(1)), prfR(seed, "c04", 0), prfR(seed, "c04", 1)}
		if thorough {
			seen := map[string]bool{}
			for _, p := range ps {
				seen[p.Text(16)] = true
			}
			for v := int64(0); v <= 300; v++ {
				if !seen[bi(v).Text(16)] {
					ps = append(ps, bi(v))
				}
			}
		}
		return ps
	}
	var us []core.Unit
	pts := points(ctx.Seed, ctx.Thorough())
	for pi, z := range pts {
		pi, z := pi, z
		us = append(us, core.Unit{Name: "evalPoint " + clipHex(z), Run: func(ctx *core.Ctx, r *core.Result) {
			needRef()
			c := conf()
			polys := polyAlphabet(ctx.Seed)
			if pi >= 15 { // the dense sweep of thorough uses two polynomials per point
				polys = []namedPoly{polys[10], polys[12]}
			}
			ze := frFromBig(z)
			for _, p := range polys {
				a := frsFromBig(p.V)
				coef := ref.Interpolate(p.V)
				pz := ref.Horner(coef, z)
				if z.Cmp(bi(255)) <= 0 && pz.Cmp(p.V[z.Int64()]) != 0 {
					panic("reference interpolation inconsistent")
				}
				cm := c.Commit(a)
				in := fmt.Sprintf("poly=%s point=%s", p.Name, z.Text(16))
				var proof ipa.IPAProof
				var err error
				if !timed(r, "c04.panic", "ipa.CreateIPAProof", in, func() { proof, err = ipa.CreateIPAProof(common.NewTranscript("ipa"), c, cm, a, ze) }) {
					continue
				}
				// the same opening under other CPU counts (MSM windows and splits differ): proof bytes identical, verdict unchanged
				if vsched.Instrumented && (p.Name == "ramp" || p.Name == "prf0") {
					for _, k := range []int{1, 2, 3, 17, 64, 65, 128, 300} {
						setCPU(k)
						var p2 ipa.IPAProof
						var err2 error
						var ok2 bool
						if timed(r, "c04.panic", "ipa.CreateIPAProof", fmt.Sprintf("%s NumCPU=%d", in, k), func() {
							p2, err2 = ipa.CreateIPAProof(common.NewTranscript("ipa"), c, cm, a, ze)
							if err2 == nil {
								ok2, err2 = ipa.CheckIPAProof(common.NewTranscript("ipa"), c, cm, p2, ze, frFromBig(pz))
							}
						}) {
							r.Evals++
							r.Nontrivial++
							if err2 != nil || !ok2 || hx(ipaProofBytes(&p2)) != hx(ipaProofBytes(&proof)) {
								vio(r, "c04.config", "ipa.CreateIPAProof/CheckIPAProof", fmt.Sprintf("%s NumCPU=%d", in, k), "same proof bytes as under the default CPU count, accepted for p(point)", fmt.Sprintf("accepted=%v err=%v", ok2, err2))
							}
						}
					}
					setCPU(0)
				}
				if err != nil {
					vio(r, "c04.prove", "ipa.CreateIPAProof", in, "a proof", "error: "+err.Error())
					continue
				}
				// the proof as a receiver gets it: written and read back (identity points come back in the
				// representation the decoder chooses), accepted for p(point) and rejected for p(point)+1
				{
					var rt ipa.IPAProof
					var okr, okf bool
					var rerr, verr error
					if guard(r, "c04.panic", "ipa.IPAProof.Read / CheckIPAProof", in+" after a Write/Read round trip", func() {
						rerr = rt.Read(bytes.NewReader(ipaProofBytes(&proof)))
						if rerr == nil {
							okr, verr = ipa.CheckIPAProof(common.NewTranscript("ipa"), c, cm, rt, ze, frFromBig(pz))
							okf, _ = ipa.CheckIPAProof(common.NewTranscript("ipa"), c, cm, rt, ze, frFromBig(ref.AddR(pz, bi(1))))
						}
					}) {
						r.Evals++
						r.Nontrivial++
						if rerr != nil || verr != nil || !okr || okf {
							vio(r, "c04.verify", "ipa.IPAProof.Read / CheckIPAProof", in+" after a Write/Read round trip of the proof", "accepted for p(point), rejected for p(point)+1", fmt.Sprintf("read error=%v accepted=%v err=%v, accepted for p(point)+1=%v", rerr, okr, verr, okf))
						}
					}
				}
				results := []*big.Int{pz, ref.AddR(pz, bi(1)), bi(0), ref.SubR(new(big.Int), pz)}
				if z.IsInt64() || true {
					zi := new(big.Int).Mod(z, bi(256)).Int64()
					results = append(results, p.V[(zi+1)%256], p.V[(zi+255)%256])
				}
				results = append(results, ref.Horner(coef, ref.AddR(z, bi(1))), ref.Horner(coef, ref.SubR(z, bi(1))))
				seen := map[string]bool{}
				for _, y := range results {
					if seen[y.Text(16)] {
						continue
					}
					seen[y.Text(16)] = true
					want := y.Cmp(pz) == 0
					var ok bool
					var verr error
					if !guard(r, "c04.panic", "ipa.CheckIPAProof", in, func() {
						ok, verr = ipa.CheckIPAProof(common.NewTranscript("ipa"), c, cm, proof, ze, frFromBig(y))
					}) {
						continue
					}
					r.Evals++
					if !(p.Name == "zero" && y.Sign() == 0) {
						r.Nontrivial++
					}
					if verr != nil || ok != want {
						vio(r, "c04.verify", "ipa.CheckIPAProof", in+" result="+y.Text(16), fmt.Sprintf("accepted=%v (p(point)=%s)", want, pz.Text(16)), fmt.Sprintf("accepted=%v err=%v", ok, verr))
					}
				}
			}
			if pi == 7 {
				r.Sample(map[string]interface{}{"point": "256", "poly": "ramp", "results": "p(256), p(256)+1, 0, -p(256), f[1], f[255], p(257), p(255)"})
			}
		}})
	}
	us = append(us, core.Unit{Name: "several proofs stored in one shared buffer, verified in sequence (twice)", Run: func(ctx *core.Ctx, r *core.Result) {
		needRef()
		c := conf()
		polys := polyAlphabet(ctx.Seed)
		type item struct {
			cm    banderwagon.Element
			z, y  fr.Element
			proof ipa.IPAProof
		}
		zs := []*big.Int{bi(3), bi(255), bi(256), new(big.Int).Sub(bigR, bi(1))}
		items := make([]item, len(zs))
		arena := make([]banderwagon.Element, 0, 16*len(zs)+8)
		for i, z := range zs {
			p := polys[10+i%4]
			a := frsFromBig(p.V)
			cm := c.Commit(a)
			pr, err := ipa.CreateIPAProof(common.NewTranscript("ipa"), c, cm, a, frFromBig(z))
			if err != nil {
				panic(core.ImplFault{API: "ipa.CreateIPAProof", Input: "honest opening of " + p.Name, Got: "error: " + err.Error()})
			}
			// L_i and R_i live back to back in one allocation, so every slice has spare capacity that
			// belongs to the next proof
			lo := len(arena)
			arena = append(arena, pr.L...)
			arena = append(arena, pr.R...)
			items[i] = item{cm, frFromBig(z), frFromBig(ref.Horner(ref.Interpolate(p.V), z)), ipa.IPAProof{L: arena[lo : lo+8], R: arena[lo+8 : lo+16], A_scalar: pr.A_scalar}}
		}
		for round := 0; round < 2; round++ {
			for i, it := range items {
				in := fmt.Sprintf("proof %d of %d stored in one buffer (L0|R0|L1|R1|...), verification round %d", i, len(items), round+1)
				var ok bool
				var err error
				if !guard(r, "c04.panic", "ipa.CheckIPAProof", in, func() { ok, err = ipa.CheckIPAProof(common.NewTranscript("ipa"), c, it.cm, it.proof, it.z, it.y) }) {
					continue
				}
				r.Evals++
				r.Nontrivial++
				if !ok || err != nil {
					vio(r, "c04.verify", "ipa.CheckIPAProof", in, "accepted=true", fmt.Sprintf("accepted=%v err=%v", ok, err))
				}
			}
		}
		r.Sample(map[string]interface{}{"layout": "L0|R0|L1|R1|L2|R2|L3|R3 in one backing array", "rounds": 2})
	}})
	us = append(us, core.Unit{Name: "polynomials stored back to back in one buffer, opened in sequence", Run: func(ctx *core.Ctx, r *core.Result) {
		needRef()
		c := conf()
		polys := polyAlphabet(ctx.Seed)
		use := []namedPoly{polys[12], polys[13], polys[10], edgePolys()[0]}
		buf := make([]fr.Element, 0, 256*len(use)+7)
		var cms []banderwagon.Element
		for _, p := range use {
			v := frsFromBig(p.V)
			cms = append(cms, c.Commit(v))
			buf = append(buf, v...)
		}
		orig := append([]fr.Element(nil), buf...)
		for _, z := range []*big.Int{bi(300), bi(0), bi(255), new(big.Int).Sub(bigR, bi(1))} {
			for k, p := range use {
				a := buf[k*256 : (k+1)*256] // capacity reaches into the next polynomial
				in := fmt.Sprintf("polynomial %d (%s) of %d stored back to back, point %s", k, p.Name, len(use), clipHex(z))
				var pr ipa.IPAProof
				var err, verr error
				var ok bool
				y := frFromBig(ref.Inner(p.V, ref.BVec(z)))
				if !timed(r, "c04.panic", "ipa.CreateIPAProof / CheckIPAProof", in, func() {
					pr, err = ipa.CreateIPAProof(common.NewTranscript("ipa"), c, cms[k], a, frFromBig(z))
					if err == nil {
						ok, verr = ipa.CheckIPAProof(common.NewTranscript("ipa"), c, cms[k], pr, frFromBig(z), y)
					}
				}) {
					return
				}
				r.Evals++
				r.Nontrivial++
				if err != nil || verr != nil || !ok {
					vio(r, "c04.verify", "ipa.CreateIPAProof / CheckIPAProof", in, "the honest opening is accepted", fmt.Sprintf("ok=%v prover error=%v verifier error=%v", ok, err, verr))
				}
				for i := range orig {
					if buf[i] != orig[i] {
						vio(r, "c04.input_intact", "ipa.CreateIPAProof", in, "the caller's buffer is unchanged (also beyond the end of the slice that was passed)", fmt.Sprintf("element %d of the buffer (polynomial %d, index %d) changed", i, i/256, i%256))
						copy(buf, orig)
						break
					}
				}
			}
		}
	}})
	us = append(us, core.Unit{Name: "honest openings prove and verify after calls that ended with an error", Run: func(ctx *core.Ctx, r *core.Result) {
		needRef()
		c := conf()
		polys := polyAlphabet(ctx.Seed)
		pA, pB := polys[12], polys[13]
		aA, aB := frsFromBig(pA.V), frsFromBig(pB.V)
		cmA, cmB := c.Commit(aA), c.Commit(aB)
		honest := func(in string, cm banderwagon.Element, a []fr.Element, poly namedPoly, z *big.Int) {
			var pr ipa.IPAProof
			var err, verr error
			var ok bool
			y := frFromBig(ref.Inner(poly.V, ref.BVec(z)))
			if !timed(r, "c04.panic", "ipa.CreateIPAProof / CheckIPAProof", in, func() {
				pr, err = ipa.CreateIPAProof(common.NewTranscript("ipa"), c, cm, append([]fr.Element(nil), a...), frFromBig(z))
				if err == nil {
					ok, verr = ipa.CheckIPAProof(common.NewTranscript("ipa"), c, cm, pr, frFromBig(z), y)
				}
			}) {
				return
			}
			r.Evals++
			r.Nontrivial++
			if err != nil || verr != nil || !ok {
				vio(r, "c04.verify", "ipa.CreateIPAProof / CheckIPAProof", in, "the honest opening is accepted (nothing survives a call that ended with an error)", fmt.Sprintf("ok=%v prover error=%v verifier error=%v", ok, err, verr))
			}
		}
		pts := []*big.Int{bi(300), bi(5), new(big.Int).Sub(bigR, bi(1))}
		failing := []struct {
			name string
			run  func(z *big.Int)
		}{
			{"CreateIPAProof for the commitment of B with only 255 evaluations", func(z *big.Int) {
				ipa.CreateIPAProof(common.NewTranscript("ipa"), c, cmB, append([]fr.Element(nil), aB[:255]...), frFromBig(z))
			}},
			{"CreateIPAProof for the commitment of B with 257 evaluations", func(z *big.Int) {
				ipa.CreateIPAProof(common.NewTranscript("ipa"), c, cmB, append(append([]fr.Element(nil), aB...), fr.One()), frFromBig(z))
			}},
			{"CheckIPAProof of B's opening with one L point missing", func(z *big.Int) {
				pr, err := ipa.CreateIPAProof(common.NewTranscript("ipa"), c, cmB, append([]fr.Element(nil), aB...), frFromBig(z))
				if err != nil {
					return
				}
				bad := ipa.IPAProof{L: pr.L[:len(pr.L)-1], R: pr.R, A_scalar: pr.A_scalar}
				ipa.CheckIPAProof(common.NewTranscript("ipa"), c, cmB, bad, frFromBig(z), fr.One())
			}},
			{"CheckIPAProof of B's opening with L[1] := Element{} (not a point)", func(z *big.Int) {
				pr, err := ipa.CreateIPAProof(common.NewTranscript("ipa"), c, cmB, append([]fr.Element(nil), aB...), frFromBig(z))
				if err != nil {
					return
				}
				bad := ipa.IPAProof{L: append([]banderwagon.Element(nil), pr.L...), R: pr.R, A_scalar: pr.A_scalar}
				bad.L[1] = banderwagon.Element{}
				ipa.CheckIPAProof(common.NewTranscript("ipa"), c, cmB, bad, frFromBig(z), fr.One())
			}},
			{"CheckIPAProof of a false value for B", func(z *big.Int) {
				pr, err := ipa.CreateIPAProof(common.NewTranscript("ipa"), c, cmB, append([]fr.Element(nil), aB...), frFromBig(z))
				if err != nil {
					return
				}
				ipa.CheckIPAProof(common.NewTranscript("ipa"), c, cmB, pr, frFromBig(z), frFromBig(bi(12345)))
			}},
		}
		for _, f := range failing {
			for _, z := range pts {
				// history: an honest opening of A, the failing call about B, then honest openings of B and A
				honest(fmt.Sprintf("%s at %s before the failing call", pA.Name, clipHex(z)), cmA, aA, pA, z)
				if !timed(r, "c04.panic", "ipa.CreateIPAProof / CheckIPAProof", f.name, func() { f.run(z) }) {
					return
				}
				honest(fmt.Sprintf("%s at %s, after (%s)", pB.Name, clipHex(z), f.name), cmB, aB, pB, z)
				honest(fmt.Sprintf("%s at %s, after (%s)", pA.Name, clipHex(z), f.name), cmA, aA, pA, z)
			}
		}
	}})
	us = append(us, core.Unit{Name: "computeBVector boundary 250..260 and far points", Run: func(ctx *core.Ctx, r *core.Result) {
		needRef()
		c := conf()
		zs := []*big.Int{}
		for v := int64(0); v <= 260; v++ {
			if v < 3 || v >= 250 || v == 127 || v == 128 {
				zs = append(zs, bi(v))
			}
		}
		zs = append(zs, pow2(64), new(big.Int).Sub(bigR, bi(1)), new(big.Int).Add(pow2(64), bi(255)), new(big.Int).Add(pow2(128), bi(3)))
		for _, z := range zs {
			var b []fr.Element
			in := "computeBVector(" + z.Text(16) + ")"
			if !guard(r, "c04.panic", "ipa.computeBVector", in, func() { b = ipa.VerifComputeBVector(c, frFromBig(z)) }) {
				continue
			}
			want := ref.BVec(z)
			r.Evals++
			r.Nontrivial++
			if len(b) != 256 {
				vio(r, "c04.bvector", "ipa.computeBVector", in, "256 entries", fmt.Sprint(len(b)))
				continue
			}
			for i := range want {
				if frToBig(b[i]).Cmp(want[i]) != 0 {
					vio(r, "c04.bvector", "ipa.computeBVector", in, fmt.Sprintf("b[%d] = %s", i, want[i].Text(16)), frToBig(b[i]).Text(16))
					break
				}
			}
		}
		r.Sample(map[string]interface{}{"points": "0,1,2,127,128,250..260,2^64,2^64+255,2^128+3,r-1"})
	}})
	return us
}
