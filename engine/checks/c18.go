package checks

import (
	"fmt"
	"math/big"

	"github.com/crate-crypto/go-ipa/bandersnatch/fr"
	"github.com/crate-crypto/go-ipa/ipa"
	"github.com/crate-crypto/go-ipa/zzverif/vsched"
	"verif.local/engine/core"
	"verif.local/engine/ref"
)

// C18 — barycentric evaluation and in-domain division are exact polynomial operations.

func unitVec(k int) []*big.Int {
	v := zeros256()
	v[k] = bi(1)
	return v
}

// refQuotient: evaluation form of (p(X)-p(k))/(X-k) on the whole domain, from coefficient form.
func refQuotient(coef []*big.Int, fk *big.Int, k int) []*big.Int {
	c := make([]*big.Int, len(coef))
	for i := range c {
		c[i] = new(big.Int).Set(coef[i])
	}
	c[0] = ref.SubR(c[0], fk)
	// synthetic division by (X-k)
	n := len(c) - 1
	q := make([]*big.Int, n)
	carry := new(big.Int)
	kk := bi(int64(k))
	for i := n; i >= 1; i-- {
		carry = ref.AddR(c[i], ref.MulR(carry, kk))
		q[i-1] = carry
	}
	out := make([]*big.Int, 256)
	for i := range out {
		out[i] = ref.Horner(q, bi(int64(i)))
	}
	return out
}

func init() {
	core.Register(&core.Check{
		ID: "C18", Level: "exploration",
		Rule:   "DivideOnDomain(k, f): ALL 256 indices k x f in {unit vectors (all 256 thorough; e_0,e_1,e_127,e_128,e_255 + e_(k+-1), e_k quick)} u POLY — the routine is linear in f, so unit vectors reach every (i,k) coefficient of the operator; ComputeBarycentricCoefficients(z) for z in {256,257,2^64,r-1,r-2,PRF..} against reference Lagrange coefficients and against p(z) by Horner for POLY; all 512+510 precomputed table entries against their defining products/inverses, tables rebuilt under 21 CPU-count overrides, results re-requested after the caller overwrote them; a case = (k, f) or (z, f) or a table entry; non-trivial = every case except the zero polynomial",
		Assume: []string{"oracle in coefficient form over math/big: interpolation through the master polynomial A(X), synthetic division, Horner on all 256 domain points including k itself"},
		Units:  c18Units,
	})
}

func c18Units(ctx *core.Ctx) []core.Unit {
	var us []core.Unit
	us = append(us, core.Unit{Name: "weight tables rebuilt under CPU-count overrides", Run: func(ctx *core.Ctx, r *core.Result) {
		if !vsched.Instrumented {
			r.Note("seam", "unavailable (fallback flavour)")
			return
		}
		defer setCPU(0)
		want := core.Fingerprint(conf().PrecomputedWeights)
		for _, k := range []int{1, 2, 3, 4, 5, 6, 7, 8, 12, 15, 16, 17, 24, 31, 32, 33, 64, 255, 256, 257, 300} {
			setCPU(k)
			pw := ipa.NewPrecomputedWeights()
			r.Evals++
			r.Nontrivial++
			if core.Fingerprint(pw) != want {
				vio(r, "c18.tables", "ipa.NewPrecomputedWeights", fmt.Sprintf("NumCPU/GOMAXPROCS = %d", k), "the same tables as under the default CPU count (checked entry by entry in the next unit)", "different tables")
			}
		}
	}})
	us = append(us, core.Unit{Name: "precomputed weight tables (512 + 510 entries)", Run: func(ctx *core.Ctx, r *core.Result) {
		pw := conf().PrecomputedWeights
		bw := ipa.VerifBarycentricWeights(pw)
		id := ipa.VerifInvertedDomain(pw)
		if len(bw) != 512 || len(id) != 510 {
			vio(r, "c18.tables", "ipa.NewPrecomputedWeights", "table sizes", "512 and 510", fmt.Sprintf("%d and %d", len(bw), len(id)))
			return
		}
		for i := 0; i < 256; i++ {
			ap := bi(1)
			for j := 0; j < 256; j++ {
				if j != i {
					ap = ref.MulR(ap, ref.ModR(bi(int64(i-j))))
				}
			}
			r.Evals += 2
			r.Nontrivial += 2
			if frToBig(bw[i]).Cmp(ap) != 0 {
				vio(r, "c18.tables", "ipa.NewPrecomputedWeights", fmt.Sprintf("barycentricWeights[%d]", i), "A'(i) = "+ap.Text(16), frToBig(bw[i]).Text(16))
			}
			if inv := ref.InvR(ap); frToBig(bw[i+256]).Cmp(inv) != 0 {
				vio(r, "c18.tables", "ipa.NewPrecomputedWeights", fmt.Sprintf("barycentricWeights[%d]", i+256), "1/A'(i) = "+inv.Text(16), frToBig(bw[i+256]).Text(16))
			}
			if ref.APrime(i).Cmp(ap) != 0 {
				panic("reference A'(i) inconsistent")
			}
		}
		for k := 1; k < 256; k++ {
			inv := ref.InvR(bi(int64(k)))
			r.Evals += 2
			r.Nontrivial += 2
			if frToBig(id[k-1]).Cmp(inv) != 0 {
				vio(r, "c18.tables", "ipa.NewPrecomputedWeights", fmt.Sprintf("invertedDomain[%d]", k-1), "1/k", frToBig(id[k-1]).Text(16))
			}
			if neg := ref.SubR(new(big.Int), inv); frToBig(id[k-1+255]).Cmp(neg) != 0 {
				vio(r, "c18.tables", "ipa.NewPrecomputedWeights", fmt.Sprintf("invertedDomain[%d]", k-1+255), "-1/k", frToBig(id[k-1+255]).Text(16))
			}
		}
		r.Sample(map[string]interface{}{"entry": "barycentricWeights[300] = 1/A'(44)", "entries": 1022})
	}})
	// DivideOnDomain, sharded by k
	const shards = 16
	for sh := 0; sh < shards; sh++ {
		sh := sh
		us = append(us, core.Unit{Name: fmt.Sprintf("DivideOnDomain k = %d mod %d", sh, shards), Run: func(ctx *core.Ctx, r *core.Result) {
			needRef()
			pw := conf().PrecomputedWeights
			type poly struct {
				name string
				v    []*big.Int
				coef []*big.Int
			}
			var base []poly
			for _, p := range polyAlphabet(ctx.Seed) {
				base = append(base, poly{p.Name, p.V, nil})
			}
			unitCoef := map[int][]*big.Int{}
			getUnit := func(j int) poly {
				if unitCoef[j] == nil {
					unitCoef[j] = ref.Interpolate(unitVec(j))
				}
				return poly{fmt.Sprintf("e%d", j), unitVec(j), unitCoef[j]}
			}
			for k := sh; k < 256; k += shards {
				var fsk []poly
				fsk = append(fsk, base...)
				js := map[int]bool{}
				if ctx.Thorough() {
					for j := 0; j < 256; j++ {
						js[j] = true
					}
				} else {
					for _, j := range []int{0, 1, 127, 128, 255, k, (k + 1) % 256, (k + 255) % 256, (k + 201) % 256, (k + 55) % 256, 255 - k} {
						js[j] = true
					}
				}
				for j := 0; j < 256; j++ {
					if js[j] {
						fsk = append(fsk, getUnit(j))
					}
				}
				for pi := range fsk {
					p := &fsk[pi]
					if p.coef == nil {
						p.coef = ref.Interpolate(p.v)
						for bi_ := range base {
							if base[bi_].name == p.name {
								base[bi_].coef = p.coef
							}
						}
					}
					f := frsFromBig(p.v)
					keep := append([]fr.Element(nil), f...)
					var q []fr.Element
					in := fmt.Sprintf("DivideOnDomain(k=%d, f=%s)", k, p.name)
					if !guard(r, "c18.panic", "ipa.PrecomputedWeights.DivideOnDomain", in, func() { q = pw.DivideOnDomain(uint8(k), f) }) {
						continue
					}
					r.Evals++
					if p.name != "zero" {
						r.Nontrivial++
					}
					if k%16 == 3 && len(q) == 256 {
						// same for the quotient: overwrite it, divide again
						first := frsDigest(q)
						for i := range q {
							q[i] = dirtyFr()
						}
						q = pw.DivideOnDomain(uint8(k), f)
						if frsDigest(q) != first {
							vio(r, "c18.result_alias", "ipa.PrecomputedWeights.DivideOnDomain", in+" called again after the caller overwrote the first result", "the same quotient", "different")
						}
					}
					want := refQuotient(p.coef, p.v[k], k)
					if len(q) != 256 {
						vio(r, "c18.divide", "ipa.PrecomputedWeights.DivideOnDomain", in, "256 evaluations", fmt.Sprint(len(q)))
						continue
					}
					for i := range want {
						if frToBig(q[i]).Cmp(want[i]) != 0 {
							vio(r, "c18.divide", "ipa.PrecomputedWeights.DivideOnDomain", in, fmt.Sprintf("quotient[%d] = %s", i, want[i].Text(16)), frToBig(q[i]).Text(16))
							break
						}
					}
					for i := range f {
						if f[i] != keep[i] {
							vio(r, "c18.input_intact", "ipa.PrecomputedWeights.DivideOnDomain", in, "f unchanged", fmt.Sprintf("f[%d] modified", i))
							break
						}
					}
				}
			}
			if sh == 3 {
				r.Sample(map[string]interface{}{"k": 3, "f": "e_204 (index distance 201)", "oracle": "synthetic division of the interpolant by (X-3), Horner at 0..255"})
			}
		}})
	}
	us = append(us, core.Unit{Name: "DivideOnDomain: all index sequences of length 5 over 3 indices on one PrecomputedWeights (and on a fresh one)", Run: func(ctx *core.Ctx, r *core.Result) {
		needRef()
		polys := polyAlphabet(ctx.Seed)
		f := polys[12]
		fv := frsFromBig(f.V)
		idx := []int{3, 200, 77}
		want := map[int]string{}
		for _, k := range idx {
			want[k] = frsDigest(frsFromBig(ref.QuotientEval(f.V, k)))
		}
		for _, fresh := range []bool{false, true} {
			pw := conf().PrecomputedWeights
			for seq := 0; seq < 243; seq++ {
				if fresh {
					pw = ipa.NewPrecomputedWeights()
				}
				hist := ""
				if seq%9 == 4 {
					// a call that cannot succeed comes first: the vector ends right after the division index (the
					// caller recovers from whatever that call does)
					func() {
						defer func() { recover() }()
						pw.DivideOnDomain(uint8(idx[seq%3]), fv[:idx[seq%3]+2])
					}()
					hist = fmt.Sprintf("[DivideOnDomain(%d, vector of %d values) recovered] ", idx[seq%3], idx[seq%3]+2)
				}
				for step, s := 0, seq; step < 5; step, s = step+1, s/3 {
					k := idx[s%3]
					hist += fmt.Sprint(k, " ")
					var q []fr.Element
					in := fmt.Sprintf("index history %s(fresh weights: %v), f=%s", hist, fresh, f.Name)
					if !guard(r, "c18.panic", "ipa.PrecomputedWeights.DivideOnDomain", in, func() { q = pw.DivideOnDomain(uint8(k), fv) }) {
						break
					}
					r.Evals++
					r.Nontrivial++
					if frsDigest(q) != want[k] {
						vio(r, "c18.divide", "ipa.PrecomputedWeights.DivideOnDomain", in, "the quotient (f - f(k))/(X - k) on the domain, as for any other history", "a different vector")
						break
					}
				}
			}
		}
	}})
	us = append(us, core.Unit{Name: "DivideOnDomain at all 256 indices in sequence, twice, on one PrecomputedWeights", Run: func(ctx *core.Ctx, r *core.Result) {
		needRef()
		pw := conf().PrecomputedWeights
		f := polyAlphabet(ctx.Seed)[13]
		fv := frsFromBig(f.V)
		want := make([]string, 256)
		for pass := 0; pass < 2; pass++ {
			for k := 0; k < 256; k++ {
				if want[k] == "" {
					want[k] = frsDigest(frsFromBig(ref.QuotientEval(f.V, k)))
				}
				var q []fr.Element
				in := fmt.Sprintf("pass %d of 0..255 in sequence, index %d, f=%s", pass+1, k, f.Name)
				if !guard(r, "c18.panic", "ipa.PrecomputedWeights.DivideOnDomain", in, func() { q = pw.DivideOnDomain(uint8(k), fv) }) {
					return
				}
				r.Evals++
				r.Nontrivial++
				if frsDigest(q) != want[k] {
					vio(r, "c18.divide", "ipa.PrecomputedWeights.DivideOnDomain", in, "the quotient (f - f(k))/(X - k) on the domain", "a different vector")
				}
			}
		}
	}})
	us = append(us, core.Unit{Name: "ComputeBarycentricCoefficients outside the domain", Run: func(ctx *core.Ctx, r *core.Result) {
		needRef()
		pw := conf().PrecomputedWeights
		zs := []*big.Int{bi(256), bi(257), bi(258), bi(511), bi(65536), pow2(64), new(big.Int).Sub(bigR, bi(1)), new(big.Int).Sub(bigR, bi(2)), new(big.Int).Rsh(bigR, 1)}
		// points whose Montgomery representation is a small integer (k * 2^-256 mod r): outside the domain,
		// although their raw limbs look like the domain points k
		rinv := new(big.Int).ModInverse(pow2(256), bigR)
		for _, k := range []int64{1, 2, 7, 255, 256, 1000} {
			zs = append(zs, new(big.Int).Mod(new(big.Int).Mul(rinv, bi(k)), bigR))
		}
		defer setCPU(0)
		for i := 0; i < 4; i++ {
			z := prfR(ctx.Seed, "c18z", i)
			if z.Cmp(bi(255)) > 0 {
				zs = append(zs, z)
			}
		}
		polys := polyAlphabet(ctx.Seed)
		coefs := make([][]*big.Int, len(polys))
		for i, p := range polys {
			coefs[i] = ref.Interpolate(p.V)
		}
		for zi, z := range zs {
			in := "z=" + z.Text(16)
			if cpu := []int{0, 1, 2, 3, 16}[zi%5]; setCPU(cpu) && cpu != 0 {
				in += fmt.Sprintf(" NumCPU/GOMAXPROCS=%d", cpu)
			}
			if zi%2 == 1 {
				// earlier, unrelated use of the helpers the evaluation is built on: batch inversions of 256 and
				// 300 values with zeros at every other position / at the ends (what they leave behind must not matter)
				for _, L := range []int{256, 300} {
					pol := make([]fr.Element, L)
					for i := range pol {
						if (i+zi/2)%2 == 0 && i != 0 && i != L-1 {
							pol[i] = frFromBig(bi(int64(i + 2)))
						}
					}
					fr.BatchInvert(pol)
				}
				in += " after batch inversions of vectors containing zeros"
			}
			var b []fr.Element
			if !guard(r, "c18.panic", "ipa.PrecomputedWeights.ComputeBarycentricCoefficients", in, func() { b = pw.ComputeBarycentricCoefficients(frFromBig(z)) }) {
				continue
			}
			want := ref.BVec(z)
			r.Evals++
			r.Nontrivial++
			// the returned vector belongs to the caller: scribbling on it must not influence a later call
			keep := append([]fr.Element(nil), b...)
			for i := range b {
				b[i] = dirtyFr()
			}
			if b2 := pw.ComputeBarycentricCoefficients(frFromBig(z)); len(b2) != len(keep) || frsDigest(b2) != frsDigest(keep) {
				vio(r, "c18.result_alias", "ipa.PrecomputedWeights.ComputeBarycentricCoefficients", in+" called again after the caller overwrote the first result", "the same coefficients", "different (the result shares memory with internal state)")
			}
			b = keep
			if len(b) != 256 {
				vio(r, "c18.bary", "ipa.PrecomputedWeights.ComputeBarycentricCoefficients", in, "256 coefficients", fmt.Sprint(len(b)))
				continue
			}
			for i := range want {
				if frToBig(b[i]).Cmp(want[i]) != 0 {
					vio(r, "c18.bary", "ipa.PrecomputedWeights.ComputeBarycentricCoefficients", in, fmt.Sprintf("L_%d(z) = %s", i, want[i].Text(16)), frToBig(b[i]).Text(16))
					break
				}
			}
			for pi, p := range polys {
				ip, err := ipa.InnerProd(frsFromBig(p.V), b)
				pz := ref.Horner(coefs[pi], z)
				r.Evals++
				r.Nontrivial++
				if err != nil || frToBig(ip).Cmp(pz) != 0 {
					vio(r, "c18.eval", "ipa.InnerProd(f, ComputeBarycentricCoefficients(z))", in+" f="+p.Name, "p(z) = "+pz.Text(16), fmt.Sprintf("%s err=%v", frToBig(ip).Text(16), err))
				}
			}
		}
		r.Sample(map[string]interface{}{"z": "r-1", "f": "x^255", "oracle": "Horner on the interpolated coefficients"})
	}})
	return us
}
