package checks

import (
	"bytes"
	"encoding/hex"
	"fmt"
	"math/big"

	"github.com/crate-crypto/go-ipa/banderwagon"
	"github.com/crate-crypto/go-ipa/common"
	"github.com/crate-crypto/go-ipa/zzverif/vsched"
	"verif.local/engine/core"
	"verif.local/engine/explore"
	"verif.local/engine/ref"
)

// C06 — untrusted point decoding accepts exactly canonical subgroup encodings.

var halfP = new(big.Int).Rsh(new(big.Int).Sub(ref.P, big.NewInt(1)), 1)

// refDecode: the reference predicate on the integer x (< 2^256): returns the expected affine (x, y) or nil.
func refDecode(x *big.Int) (y *big.Int) {
	if x.Cmp(bigP) >= 0 {
		return nil
	}
	x2 := ref.MulP(x, x)
	num := ref.SubP(ref.MulP(ref.A, x2), bi(1))
	den := ref.SubP(ref.MulP(ref.D, x2), bi(1))
	u := ref.MulP(num, ref.InvP(den))
	if big.Jacobi(u, bigP) == -1 {
		return nil // not on the curve
	}
	if big.Jacobi(ref.SubP(bi(1), ref.MulP(ref.A, x2)), bigP) != 1 {
		return nil // not in the subgroup
	}
	y = new(big.Int).ModSqrt(u, bigP)
	if y.Cmp(halfP) <= 0 {
		y = ref.SubP(new(big.Int), y)
	}
	return y
}

func be32(x *big.Int) []byte {
	var b [32]byte
	x.FillBytes(b[:])
	return b[:]
}

type c06ctx struct {
	r           *core.Result
	orderChk    int
	unsafeFirst bool
}

// compressed checks one 32-byte (or other length) string through SetBytes and ReadPoint.
func (c *c06ctx) compressed(buf []byte, deep bool) (accepted bool) {
	r := c.r
	var want *big.Int
	if len(buf) == 32 {
		want = refDecode(new(big.Int).SetBytes(buf))
	}
	in := fmt.Sprintf("%x [len %d]", buf, len(buf))
	// history: the same bytes first go through the unchecked decoders; what they do must not influence the
	// validated ones afterwards
	if c.unsafeFirst {
		var u banderwagon.Element
		guard(r, "c06.panic", "banderwagon.Element.SetBytesUnsafe", in, func() { u.SetBytesUnsafe(append([]byte(nil), buf...)) })
		in += " after SetBytesUnsafe of the same bytes"
	}
	for _, api := range []string{"banderwagon.Element.SetBytes", "common.ReadPoint"} {
		var e banderwagon.Element
		var err error
		b := withSlack(buf)
		ok := guard(r, "c06.panic", api, in, func() {
			if api == "common.ReadPoint" {
				if len(buf) < 32 {
					// shorter streams are a C10 matter (I/O); ReadPoint reads exactly 32 bytes
					var p *banderwagon.Element
					p, err = common.ReadPoint(bytes.NewReader(b))
					if p != nil {
						e = *p
					}
					return
				}
				var p *banderwagon.Element
				p, err = common.ReadPoint(bytes.NewReader(b[:32]))
				if p != nil {
					e = *p
				}
			} else {
				err = e.SetBytes(b)
			}
		})
		if !ok {
			continue
		}
		r.Evals++
		w := want
		if api == "common.ReadPoint" && len(buf) > 32 {
			w = refDecode(new(big.Int).SetBytes(buf[:32])) // ReadPoint consumes the first 32 bytes of a stream
		}
		if (err == nil) != (w != nil) {
			vio(r, "c06.accept", api, in, fmt.Sprintf("accepted=%v by the reference predicate (len 32, x<p, on curve, 1-ax^2 non-zero square)", w != nil), fmt.Sprintf("err=%v", err))
			continue
		}
		if !bytes.Equal(fullCap(b), fullCap(withSlack(buf))) {
			vio(r, "c06.input_intact", api, in, "input unchanged", fmt.Sprintf("%x", fullCap(b)))
		}
		if err != nil {
			continue
		}
		accepted = true
		p := elToRef(&e)
		xi := new(big.Int).SetBytes(buf[:32])
		if p.X.Cmp(xi) != 0 || p.Y.Cmp(w) != 0 || p.Z.Cmp(bi(1)) != 0 {
			vio(r, "c06.value", api, in, fmt.Sprintf("(x, largest y)=(%s,%s)", xi.Text(16), w.Text(16)), elString(&e))
		}
		if re := e.Bytes(); !bytes.Equal(re[:], buf[:32]) {
			vio(r, "c06.reencode", api, in, "Bytes() reproduces the input", hx(re[:]))
		}
	}
	if accepted && deep && c.orderChk < 40 {
		c.orderChk++
		var e banderwagon.Element
		e.SetBytes(buf)
		if !ref.IsIdentityClass(ref.Mul(elToRef(&e), bigR)) {
			vio(r, "c06.order", "banderwagon.Element.SetBytes", in, "r*P in the identity class", "not")
		}
	}
	return accepted
}

// uncompressed drives SetBytesUncompressed(buf,false) with every y variant for an x (32 bytes, any value).
func (c *c06ctx) uncompressed(xb []byte) {
	r := c.r
	xi := new(big.Int).SetBytes(xb)
	y := refDecode(xi)
	var xr *big.Int // reduced x (to derive y variants for aliases)
	yr := y
	if y == nil {
		xr = new(big.Int).Mod(xi, bigP)
		yr = refDecode(xr)
		if yr == nil {
			// x is not an accepted compressed encoding; if it is nevertheless the abscissa of a curve point (one
			// outside the subgroup), the untrusted decoder is offered that point's real ordinates as well
			if pt, ok := ref.CurvePointWithX(xr, true); ok {
				yr = pt.Y
			}
		}
	}
	var ys []*big.Int
	if yr != nil {
		small := ref.SubP(new(big.Int), yr)
		ys = append(ys, yr, small, new(big.Int).Add(yr, bigP), new(big.Int).Add(small, bigP), new(big.Int).Add(yr, bi(1)))
	}
	ys = append(ys, bi(0), bi(1), bigP, new(big.Int).Sub(bigP, bi(1)))
	for _, yv := range ys {
		if yv.BitLen() > 256 {
			continue
		}
		buf := append(append([]byte(nil), xb...), be32(yv)...)
		_, want := ref.DecodeUncompressed(buf)
		in := fmt.Sprintf("x=%x y=%x", xb, be32(yv))
		var e banderwagon.Element
		var err error
		b := withSlack(buf)
		if !guard(r, "c06.panic", "banderwagon.Element.SetBytesUncompressed(untrusted)", in, func() { err = e.SetBytesUncompressed(b, false) }) {
			continue
		}
		r.Evals++
		r.Nontrivial++
		if (err == nil) != want {
			vio(r, "c06.accept_uncompressed", "banderwagon.Element.SetBytesUncompressed(untrusted)", in, fmt.Sprintf("accepted=%v (x,y canonical, on curve, subgroup, y the largest root)", want), fmt.Sprintf("err=%v", err))
			continue
		}
		if !bytes.Equal(fullCap(b), fullCap(withSlack(buf))) {
			vio(r, "c06.input_intact", "banderwagon.Element.SetBytesUncompressed(untrusted)", in, "input unchanged", fmt.Sprintf("%x", fullCap(b)))
		}
		if err == nil {
			if re := e.BytesUncompressedTrusted(); !bytes.Equal(re[:], buf) {
				vio(r, "c06.reencode", "banderwagon.Element.SetBytesUncompressed(untrusted)", in, "BytesUncompressedTrusted() reproduces the input", hx(re[:]))
			}
			if re := e.Bytes(); !bytes.Equal(re[:], xb) {
				vio(r, "c06.reencode", "banderwagon.Element.SetBytesUncompressed(untrusted)", in, "Bytes() = x", hx(re[:]))
			}
		}
	}
}

func init() {
	core.Register(&core.Check{
		ID: "C06", Level: "exploration",
		Rule: "compressed form through SetBytes and ReadPoint: ALL x in [0,2^18) (2^22 thorough), all x in [p-2^12,p+2^12] and [2^256-2^12,2^256), the images x+p, x+2p and p-x of accepted x, the 16+16 pinned vectors, every length 0..70 around valid encodings; a quarter of the inputs first go through the unchecked decoders (history independence); uncompressed untrusted form: every accepted x (and its x+p alias) and every x on the curve outside the subgroup combined with y in {largest root, smaller root, root+p, y+1, 0, 1, p, p-1}; a case = (decoder, byte string); non-trivial = accepted by the reference, or an alias/boundary/wrong-length/wrong-y variant of an accepted encoding",
		Assume: []string{"reference predicate: math/big (x<p, Jacobi of (ax^2-1)/(dx^2-1) >= 0, Jacobi(1-ax^2)=+1, y = largest root), itself bound to 16 good and 16 bad-subgroup pinned vectors",
			"order | r verified with the reference scalar multiplication on a subset of the accepted inputs (40 per unit)"},
		Units: c06Units,
	})
}

func c06Units(ctx *core.Ctx) []core.Unit {
	var us []core.Unit
	lim := int64(1 << 18)
	if ctx.Thorough() {
		lim = 1 << 22
	}
	shards := int64(16)
	if ctx.Thorough() {
		shards = 64
	}
	for sh := int64(0); sh < shards; sh++ {
		sh := sh
		us = append(us, core.Unit{Name: fmt.Sprintf("x range shard %d/%d", sh, shards), Run: func(ctx *core.Ctx, r *core.Result) {
			needRef()
			c := &c06ctx{r: r}
			nacc, nsub := 0, 0
			for x := sh; x < lim; x += shards {
				xb := be32(bi(x))
				c.unsafeFirst = (x/shards)%4 == 3 // every fourth input is first seen by the unchecked decoder
				if c.compressed(xb, x%997 == 0) {
					nacc++
					r.Nontrivial++
					// aliases and negation of an accepted x
					xi := bi(x)
					for _, al := range []*big.Int{new(big.Int).Add(xi, bigP), new(big.Int).Add(xi, new(big.Int).Lsh(bigP, 1)), new(big.Int).Sub(bigP, xi)} {
						if al.BitLen() <= 256 {
							c.compressed(be32(al), false)
							r.Nontrivial++
						}
					}
					if nacc%8 == 1 || ctx.Thorough() {
						c.uncompressed(xb)
						c.uncompressed(be32(new(big.Int).Add(xi, bigP)))
					}
					if nacc == 1 {
						r.Sample(map[string]interface{}{"accepted_x": hx(xb), "also_tried": "x+p, x+2p, p-x, uncompressed with 9 y variants"})
					}
				} else if _, on := ref.CurvePointWithX(bi(x), true); on {
					// rejected as compressed form but on the curve: wrong subgroup — through the uncompressed decoder
					// with the point's true ordinates
					nsub++
					if nsub%8 == 1 || ctx.Thorough() {
						c.uncompressed(xb)
						r.Nontrivial++
						// the same rejected encoding once more (after other decodes): the decision is a function
						// of the bytes, not of what was decoded before
						c.compressed(xb, false)
					}
				}
			}
			r.Note("n_accepted", nacc)
		}})
	}
	us = append(us, core.Unit{Name: "two points decoded concurrently from readers that yield between deliveries (all interleavings)", Run: func(ctx *core.Ctx, r *core.Result) {
		if !vsched.Instrumented {
			r.Note("seam", "unavailable (fallback flavour)")
			return
		}
		needRef()
		a, b := ref.Compress(ref.SRS()[3]), ref.Compress(ref.SRS()[4])
		bad := be32(bigP) // not canonical: must be rejected whatever the other stream does
		for vi, pair := range [][2][]byte{{a[:], b[:]}, {a[:], bad}, {a[:], b[:]}, {b[:], bad}} {
			pair := pair
			failFirst := vi >= 2
			body := func() string {
				if failFirst {
					// history: reads that ended with an error (truncated stream, reader fault) come first
					common.ReadPoint(bytes.NewReader(pair[0][:20]))
					common.ReadPoint(&yieldReader{data: pair[1][:7], chunk: 3, tok: new(vsched.Mutex)})
				}
				var wg vsched.WaitGroup
				var tok vsched.Mutex
				outs := make([]string, 2)
				for k := 0; k < 2; k++ {
					wg.Add(1)
					vsched.Go1(func(k int) {
						e, err := common.ReadPoint(&yieldReader{data: pair[k], chunk: 11, tok: &tok})
						if err != nil {
							outs[k] = "rejected"
						} else {
							eb := e.Bytes()
							outs[k] = hx(eb[:])
						}
						wg.Done()
					}, k)
				}
				wg.Wait()
				return outs[0] + " | " + outs[1]
			}
			want := hx(pair[0]) + " | " + hx(pair[1])
			if vi == 1 || vi == 3 {
				want = hx(pair[0]) + " | rejected"
			}
			st := core.Explore(r, core.SchedSpec{Name: fmt.Sprintf("common.ReadPoint x 2 through yielding readers (variant %d, failed reads first: %v)", vi, failFirst), API: "common.ReadPoint", Check: "c06.concurrent_streams", Body: body, Expect: want, Mode: "dpor", Opt: explore.Options{DataBudget: 0, MaxExecs: 100000, Deadline: schedDeadline(ctx)}})
			r.Evals += int64(st.Execs)
			r.Nontrivial += int64(st.Complete)
		}
	}})
	us = append(us, core.Unit{Name: "points whose ordinate is next to (p-1)/2 (the sign decision at its boundary)", Run: func(ctx *core.Ctx, r *core.Result) {
		needRef()
		c := &c06ctx{r: r}
		half := new(big.Int).Rsh(new(big.Int).Sub(bigP, bi(1)), 1)
		found := 0
		for k := int64(-300); k <= 300; k++ {
			y := new(big.Int).Add(half, bi(k))
			// x^2 = (1 - y^2)/(a - d*y^2)
			y2 := ref.MulP(y, y)
			den := ref.SubP(ref.A, ref.MulP(ref.D, y2))
			if den.Sign() == 0 {
				continue
			}
			x2 := ref.MulP(ref.SubP(bi(1), y2), ref.InvP(den))
			x := new(big.Int).ModSqrt(x2, bigP)
			if x == nil {
				continue
			}
			for _, xv := range []*big.Int{x, ref.SubP(new(big.Int), x)} {
				found++
				c.compressed(be32(xv), false)
				c.uncompressed(be32(xv))
				r.Nontrivial++
			}
		}
		r.Note("abscissae_with_ordinate_next_to_half", found)
	}})
	us = append(us, core.Unit{Name: "boundaries around p and 2^256", Run: func(ctx *core.Ctx, r *core.Result) {
		needRef()
		c := &c06ctx{r: r}
		for d := int64(-4096); d <= 4096; d++ {
			x := new(big.Int).Add(bigP, bi(d))
			if c.compressed(be32(x), d%512 == 0) {
				c.uncompressed(be32(x))
			}
			r.Nontrivial++
		}
		for d := int64(1); d <= 4096; d++ {
			c.compressed(be32(new(big.Int).Sub(pow2(256), bi(d))), false)
			r.Nontrivial++
		}
	}})
	us = append(us, core.Unit{Name: "pinned vectors, lengths 0..70, PRF values", Run: func(ctx *core.Ctx, r *core.Result) {
		needRef()
		c := &c06ctx{r: r}
		good := []string{"4a2c7486fd924882bf02c6908de395122843e3e05264d7991e18e7985dad51e9", "43aa74ef706605705989e8fd38df46873b7eae5921fbed115ac9d937399ce4d5",
			"5e5f550494159f38aa54d2ed7f11a7e93e4968617990445cc93ac8e59808c126", "0e7e3748db7c5c999a7bcd93d71d671f1f40090423792266f94cb27ca43fce5c",
			"01587ad1336675eb912550ec2a28eb8923b824b490dd2ba82e48f14590a298a0", "3de2be346b539395b0c0de56a5ccca54a317f1b5c80107b0802af9a62276a4d8"}
		bad := []string{"280e608d5bbbe84b16aac62aa450e8921840ea563f1c9c266e0240d89cbe6a78", "1b6989e2393c65bbad7567929cdbd72bbf0218521d975b0fb209fba0ee493c32",
			"31468782818807366dbbcd20b9f10f0d5b93f22e33fe49b450dfbddaf3ba6a9b", "6bfc4097e4874cdddebe74e041fcd329d8455278cd42b6dd4f40b042d4fc466b"}
		for _, s := range append(good, bad...) {
			b, _ := hex.DecodeString(s)
			c.unsafeFirst = true
			c.compressed(b, false)
			var tu banderwagon.Element
			tu.SetBytesUncompressed(append(append([]byte(nil), b...), make([]byte, 32)...), true) // trusted decode of garbage y first
			c.uncompressed(b)
			c.unsafeFirst = false
			acc := c.compressed(b, true)
			r.Nontrivial++
			c.uncompressed(b)
			if acc {
				c.uncompressed(be32(new(big.Int).Add(new(big.Int).SetBytes(b), bigP)))
				c.compressed(be32(new(big.Int).Add(new(big.Int).SetBytes(b), bigP)), false)
			}
			for L := 0; L <= 70; L++ {
				v := make([]byte, L)
				copy(v, b)
				c.compressed(v, false)
				if L != 32 {
					v2 := bytes.Repeat([]byte{0}, L) // right-aligned variant
					if L > 32 {
						copy(v2[L-32:], b)
					} else {
						copy(v2, b[32-L:])
					}
					c.compressed(v2, false)
				}
				r.Nontrivial++
				// uncompressed with wrong lengths
				var e banderwagon.Element
				if L != 64 {
					u := make([]byte, L)
					var err error
					if guard(r, "c06.panic", "banderwagon.Element.SetBytesUncompressed(untrusted)", fmt.Sprintf("length %d", L), func() { err = e.SetBytesUncompressed(u, false) }) && err == nil {
						vio(r, "c06.accept_uncompressed", "banderwagon.Element.SetBytesUncompressed(untrusted)", fmt.Sprintf("%d zero bytes", L), "rejected (wrong length)", "accepted")
					}
					r.Evals++
				}
			}
		}
		for i := 0; i < 2000; i++ {
			x := new(big.Int).Mod(prf(ctx.Seed, "c06", i), pow2(256))
			if i%2 == 0 {
				x.Mod(x, bigP)
			}
			if c.compressed(be32(x), false) {
				c.uncompressed(be32(x))
				c.compressed(be32(new(big.Int).Add(x, bigP)), false)
				r.Nontrivial++
			}
		}
		// no two accepted encodings are Equal: x and p-x decode to different elements
		for i := 0; i < 64; i++ {
			x := bi(int64(i))
			if refDecode(x) == nil || i == 0 {
				continue
			}
			var a, b banderwagon.Element
			if a.SetBytes(be32(x)) == nil && b.SetBytes(be32(new(big.Int).Sub(bigP, x))) == nil && a.Equal(&b) {
				vio(r, "c06.injective", "banderwagon.Element.SetBytes", fmt.Sprintf("x=%d and p-x", i), "different elements", "Equal")
			}
		}
		r.Sample(map[string]interface{}{"pinned_good": good[0], "pinned_bad": bad[0], "lengths": "0..70 left- and right-aligned"})
	}})
	return us
}
