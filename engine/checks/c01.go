package checks

import (
	"crypto/sha256"
	"fmt"
	"math/big"

	multiproof "github.com/crate-crypto/go-ipa"
	"github.com/crate-crypto/go-ipa/bandersnatch/fr"
	"github.com/crate-crypto/go-ipa/banderwagon"
	"github.com/crate-crypto/go-ipa/common"
	"github.com/crate-crypto/go-ipa/ipa"
	"github.com/crate-crypto/go-ipa/zzverif/vsched"
	"verif.local/engine/core"
	"verif.local/engine/explore"
	"verif.local/engine/ref"
)

// C01 — multiproof completeness: every honest set of openings verifies.

var z5 = []int{0, 1, 128, 254, 255}
var z7 = []int{0, 1, 128, 254, 255, 2, 127}

func setCPU(k int) bool {
	if !vsched.Instrumented {
		return k == 0
	}
	vsched.SetNumCPU(k)
	return true
}

// c01Case runs one statement under one CPU count and judges it.
func c01Case(r *core.Result, s stmt, cpu int, refVerify bool) {
	c := conf()
	if !setCPU(cpu) {
		return
	}
	defer setCPU(0)
	in := fmt.Sprintf("%s NumCPU=%d", s, cpu)
	var ok, same bool
	var perr, verr error
	var is implStmt
	var proof *multiproof.MultiProof
	if !timed(r, "c01.panic", "CreateMultiProof/CheckMultiProof", in, func() { proof, is, ok, perr, verr, same = proveVerify(c, s) }) {
		return
	}
	r.Evals++
	if len(s.zs) > 1 || s.zs[0] > 0 || cpu != 0 {
		r.Nontrivial++
	}
	switch {
	case perr != nil:
		vio(r, "c01.prove", "CreateMultiProof", in, "a proof", "error: "+perr.Error())
		return
	case verr != nil || !ok:
		vio(r, "c01.verify", "CheckMultiProof", in, "(true, nil)", fmt.Sprintf("(%v, %v)", ok, verr))
	case !same:
		vio(r, "c01.transcript", "CreateMultiProof/CheckMultiProof", in, "prover and verifier transcripts yield the same next challenge", "different challenges")
	}
	// the commitments may have been re-normalised but must still be the same group elements
	rc, _, rys := s.refObjs()
	for i := range is.Cs {
		if msg := validSame(is.Cs[i], rc[i]); msg != "" {
			vio(r, "c01.commitments", "CreateMultiProof", in, fmt.Sprintf("commitment %d unchanged as a group element", i), msg)
			break
		}
	}
	if perr == nil && ok && verr == nil {
		// a verifier that holds its OWN copies of the commitments, never touched by the prover, in projective
		// representations (the prover normalised the objects it was given)
		cs := make([]*banderwagon.Element, len(is.Cs))
		for i := range cs {
			e := reprOf(*is.Cs[i], []int{reprProj, reprProjFlip, reprFlip}[i%3])
			cs[i] = &e
		}
		var ok2 bool
		var verr2 error
		if timed(r, "c01.panic", "CheckMultiProof", in+" (verifier-side copies of the commitments in projective form)", func() {
			ok2, verr2 = multiproof.CheckMultiProof(common.NewTranscript(s.label), c, proof, cs, is.ys, is.zs)
		}) && (!ok2 || verr2 != nil) {
			vio(r, "c01.verify", "CheckMultiProof", in+" (verifier-side copies of the commitments in projective form)", "(true, nil)", fmt.Sprintf("(%v, %v)", ok2, verr2))
		}
	}
	if refVerify && perr == nil {
		acc, shape := ref.MultiVerify(ref.NewTranscript(s.label), ref.SRS(), elToRef(&proof.D), refIPAProof(proof.IPA), rc, rys, s.zs)
		if !acc || shape {
			vio(r, "c01.refverify", "CreateMultiProof", in, "accepted by the reference verifier", fmt.Sprintf("accepted=%v shape_error=%v", acc, shape))
		}
	}
}

func init() {
	core.Register(&core.Check{
		ID: "C01", Level: "exploration",
		Rule:   "statements (label, n, zs, fs, representation and pointer sharing of Cs, NumCPU): (1) ALL zs in Z5^n, n<=3 (Z7 thorough) x NumCPU {1,2,3,16,17}; (2) ALL POLY^2 pairs at zs (5,5),(5,200), ALL REPR^2, all 5 pointer-sharing partitions of 3 commitments x {same z, distinct z}; (3) sizes n in {4..20,31,32,33,255,256,257,1025} x z-pattern {equal, stride 1, stride 37} x NumCPU {1,16,17,64}; (4) labels; (NumCPU, GOMAXPROCS) pairs that differ; (5) the grouping seam for ALL (n,NumCPU) in [0,40]x[1,40] against the reference sum r^i f_i; (6) ALL arrival orders of the grouping fan-in (DPOR, unbounded) for NumCPU 2..4, n 2..6; oracle: CheckMultiProof on a fresh transcript = (true,nil), equal next challenge, reference verifier on a subset; non-trivial = at least two openings, an index > 0 or an overridden CPU count",
		Assume: []string{"NumCPU is driven through the vsched.NumCPU seam (runtime.NumCPU rewritten by the overlay)", "reference verifier = specification equation over math/big"},
		Units:  c01Units,
	})
}

func pick(ps []namedPoly, i int) namedPoly { return ps[((i%len(ps))+len(ps))%len(ps)] }

func c01Units(ctx *core.Ctx) []core.Unit {
	var us []core.Unit
	zset := z5
	if ctx.Thorough() {
		zset = z7
	}
	cpus := []int{1, 2, 3, 16, 17, 48, 96}
	if ctx.Thorough() {
		cpus = append(cpus, 4, 5, 8, 32, 64, 300)
	}
	// (1) shape sweep, one unit per first index
	for _, z0 := range zset {
		z0 := z0
		us = append(us, core.Unit{Name: fmt.Sprintf("shape sweep z_0=%d", z0), Run: func(ctx *core.Ctx, r *core.Result) {
			needRef()
			polys := polyAlphabet(ctx.Seed)
			cnt := 0
			var tuples [][]int
			tuples = append(tuples, []int{z0})
			for _, z1 := range zset {
				tuples = append(tuples, []int{z0, z1})
				for _, z2 := range zset {
					tuples = append(tuples, []int{z0, z1, z2})
				}
			}
			for _, zs := range tuples {
				s := stmt{label: "vt", zs: zs}
				for i := range zs {
					s.polys = append(s.polys, pick(polys, cnt+3*i+z0))
				}
				for _, cpu := range cpus {
					cnt++
					c01Case(r, s, cpu, cnt%8 == 0)
				}
			}
			r.Sample(map[string]interface{}{"statement": stmt{label: "vt", zs: tuples[len(tuples)-2], polys: []namedPoly{{Name: "…"}}}.String(), "cpus": cpus})
		}})
	}
	// (2) polynomial / representation / sharing sweeps
	for half := 0; half < 4; half++ {
		half := half
		us = append(us, core.Unit{Name: fmt.Sprintf("POLY^2 pairs part %d/4", half), Run: func(ctx *core.Ctx, r *core.Result) {
			needRef()
			polys := polyAlphabet(ctx.Seed)
			n := 0
			for _, a := range polys {
				for _, b := range polys {
					n++
					if n%4 != half {
						continue
					}
					for zi, zs := range [][]int{{5, 5}, {5, 200}} {
						cpu := []int{2, 16}[(n+zi)%2]
						c01Case(r, stmt{label: "vt", zs: zs, polys: []namedPoly{a, b}}, cpu, n%16 == 0)
					}
				}
			}
		}})
	}
	us = append(us, core.Unit{Name: "polynomials with limb-boundary evaluations", Run: func(ctx *core.Ctx, r *core.Result) {
		needRef()
		polys := polyAlphabet(ctx.Seed)
		for ei, e := range edgePolys() {
			for _, z := range []int{0, 3, 4, 255} {
				c01Case(r, stmt{label: "vt", zs: []int{z}, polys: []namedPoly{e}}, []int{0, 2, 16}[(ei+z)%3], true)
			}
			c01Case(r, stmt{label: "vt", zs: []int{77, 200}, polys: []namedPoly{e, polys[12]}}, 2, ei%2 == 0)
			c01Case(r, stmt{label: "vt", zs: []int{5, 5, 6}, polys: []namedPoly{polys[10], e, e}}, 16, false)
		}
	}})
	us = append(us, core.Unit{Name: "REPR^2 and pointer sharing", Run: func(ctx *core.Ctx, r *core.Result) {
		needRef()
		polys := polyAlphabet(ctx.Seed)
		a, b, cpoly := polys[10], polys[12], polys[8]
		for ra := 0; ra < nRepr; ra++ {
			for rb := 0; rb < nRepr; rb++ {
				for _, zs := range [][]int{{5, 5}, {5, 200}} {
					c01Case(r, stmt{label: "vt", zs: zs, polys: []namedPoly{a, b}, reprs: []int{ra, rb}}, 2, ra == rb)
					c01Case(r, stmt{label: "vt", zs: zs, polys: []namedPoly{a, a}, reprs: []int{ra, rb}}, 3, false)
				}
			}
		}
		// all set partitions of three positions as pointer-sharing patterns (sharing requires the same polynomial)
		parts := [][]int{{0, 0, 0}, {1, 1, 0}, {1, 0, 1}, {0, 1, 1}, {1, 1, 1}}
		for _, sh := range parts {
			for _, zs := range [][]int{{7, 7, 7}, {7, 8, 200}} {
				for _, reprs := range [][]int{nil, {reprProj, reprProj, reprProj}, {reprFlip, reprProjFlip, reprNorm}} {
					ps := []namedPoly{a, a, a}
					_ = cpoly
					c01Case(r, stmt{label: "vt", zs: zs, polys: ps, share: sh, reprs: reprs}, 2, false)
					c01Case(r, stmt{label: "vt", zs: zs, polys: ps, share: sh, reprs: reprs}, 16, false)
				}
			}
		}
		// longer pointer-sharing patterns: every set partition of 4 positions and selected ones of 5
		// (positions with the same letter share one *Element; different letters are different polynomials)
		pats := []string{"AAAA", "AAAB", "AABA", "ABAA", "ABBB", "AABB", "ABAB", "ABBA", "AABC", "ABAC", "ABCA", "ABBC", "ABCB", "ABCC", "ABCD",
			"AABCB", "AABBC", "ABCAB", "ABACB", "AABAC", "ABCBA", "AABBA"}
		for pi2, pat := range pats {
			st := stmt{label: "vt"}
			for i, ch := range pat {
				k := int(ch - 'A')
				st.polys = append(st.polys, []namedPoly{a, b, cpoly, polys[13]}[k])
				st.share = append(st.share, k+1)
				st.zs = append(st.zs, []int{7, 7, 200, 9, 7}[(i+pi2)%5])
			}
			c01Case(r, st, []int{0, 2, 16}[pi2%3], pi2%5 == 0)
			st2 := st
			st2.reprs = make([]int, len(pat))
			for i := range st2.reprs {
				st2.reprs[i] = 1 + int(pat[i]-'A')%3
			}
			c01Case(r, st2, 3, false)
		}
		for _, lb := range []string{"", "vt", "multiproof", string(make([]byte, 1100))} {
			c01Case(r, stmt{label: lb, zs: []int{3, 200}, polys: []namedPoly{a, b}}, 0, true)
		}
		r.Sample(map[string]interface{}{"statement": stmt{label: "vt", zs: []int{7, 8, 200}, polys: []namedPoly{a, a, a}, share: []int{1, 0, 1}, reprs: []int{reprFlip, reprProjFlip, reprNorm}}.String()})
	}})
	us = append(us, core.Unit{Name: "honest statements prove and verify after calls that ended with an error", Run: func(ctx *core.Ctx, r *core.Result) {
		c := conf()
		polys := polyAlphabet(ctx.Seed)
		base := stmt{label: "vt", zs: []int{3, 200, 3}, polys: []namedPoly{polys[10], polys[12], polys[13]}}
		// the failing calls: each is built from an honest proof / statement and must end with an error (or false)
		failing := []struct {
			name string
			run  func()
		}{
			{"CheckMultiProof with one L point missing", func() {
				p, is, _, _, _, _ := proveVerify(c, base)
				if p == nil {
					return
				}
				bad := &multiproof.MultiProof{D: p.D, IPA: ipa.IPAProof{L: p.IPA.L[:len(p.IPA.L)-1], R: p.IPA.R, A_scalar: p.IPA.A_scalar}}
				multiproof.CheckMultiProof(common.NewTranscript("vt"), c, bad, is.Cs, is.ys, is.zs)
			}},
			{"CheckMultiProof with fewer claimed values than commitments", func() {
				p, is, _, _, _, _ := proveVerify(c, base)
				if p == nil {
					return
				}
				multiproof.CheckMultiProof(common.NewTranscript("vt"), c, p, is.Cs, is.ys[:2], is.zs)
			}},
			{"CheckMultiProof of a false claim", func() {
				p, is, _, _, _, _ := proveVerify(c, base)
				if p == nil {
					return
				}
				y := *is.ys[1]
				one := fr.One()
				y.Add(&y, &one)
				ys := []*fr.Element{is.ys[0], &y, is.ys[2]}
				multiproof.CheckMultiProof(common.NewTranscript("vt"), c, p, is.Cs, ys, is.zs)
			}},
			{"CreateMultiProof with a polynomial of 255 evaluations", func() {
				is := base.build(c)
				fs := [][]fr.Element{is.fs[0], is.fs[1][:255], is.fs[2]}
				multiproof.CreateMultiProof(common.NewTranscript("vt"), c, is.Cs, fs, is.zs)
			}},
			{"CreateMultiProof with fewer points than commitments", func() {
				is := base.build(c)
				multiproof.CreateMultiProof(common.NewTranscript("vt"), c, is.Cs, is.fs, is.zs[:2])
			}},
		}
		honest := []stmt{
			{label: "vt", zs: []int{3, 200, 3}, polys: []namedPoly{polys[10], polys[12], polys[13]}},
			{label: "vt", zs: []int{7}, polys: []namedPoly{polys[11]}},
			{label: "w", zs: []int{0, 255}, polys: []namedPoly{polys[13], polys[9]}},
		}
		for fi, f := range failing {
			for rep := 0; rep < 2; rep++ { // once, and twice in a row
				for k := 0; k <= rep; k++ {
					if !timed(r, "c01.panic", "CreateMultiProof / CheckMultiProof", f.name, f.run) {
						return
					}
				}
				for _, s := range honest {
					in := fmt.Sprintf("%s, after %d x (%s)", s.String(), rep+1, f.name)
					var ok bool
					var perr, verr error
					var same bool
					if !timed(r, "c01.panic", "CreateMultiProof / CheckMultiProof", in, func() { _, _, ok, perr, verr, same = proveVerify(c, s) }) {
						return
					}
					r.Evals++
					r.Nontrivial++
					if perr != nil || verr != nil || !ok || !same {
						vio(r, "c01.verify", "CreateMultiProof / CheckMultiProof", in, "the honest proof is accepted (nothing survives a call that ended with an error)", fmt.Sprintf("ok=%v prover error=%v verifier error=%v transcripts agree=%v", ok, perr, verr, same))
					}
				}
			}
			_ = fi
		}
		r.Sample(map[string]interface{}{"failing_calls": len(failing), "honest_statements_after_each": len(honest)})
	}})
	us = append(us, core.Unit{Name: "CPU count and GOMAXPROCS that differ (quota-restricted process)", Run: func(ctx *core.Ctx, r *core.Result) {
		if !vsched.Instrumented {
			r.Note("seam", "unavailable (fallback flavour)")
			return
		}
		needRef()
		polys := polyAlphabet(ctx.Seed)
		defer vsched.SetGoMaxProcs(0)
		for _, cfg := range [][2]int{{16, 1}, {16, 4}, {16, 8}, {4, 16}, {2, 64}, {64, 2}, {3, 2}} {
			for _, n := range []int{1, 3, 5, 17} {
				s := stmt{label: "vt"}
				for i := 0; i < n; i++ {
					s.zs = append(s.zs, (i*37+n)%256)
					s.polys = append(s.polys, pick(polys, 8+i%6))
				}
				vsched.SetGoMaxProcs(cfg[1])
				c01Case(r, s, cfg[0], false)
			}
		}
		r.Sample(map[string]interface{}{"configs": "(NumCPU,GOMAXPROCS) in (16,1),(16,4),(16,8),(4,16),(2,64),(64,2),(3,2)", "n": []int{1, 3, 5, 17}})
	}})
	// (3) size sweep
	sizes := []int{4, 5, 6, 7, 8, 9, 10, 11, 12, 13, 14, 15, 16, 17, 18, 19, 20, 31, 32, 33, 255, 256, 257, 1025}
	if ctx.Thorough() {
		sizes = append(sizes, 1000, 1024, 2049)
	}
	for _, n := range sizes {
		n := n
		us = append(us, core.Unit{Name: fmt.Sprintf("size n=%d", n), Run: func(ctx *core.Ctx, r *core.Result) {
			needRef()
			polys := polyAlphabet(ctx.Seed)
			for pat := 0; pat < 3; pat++ {
				s := stmt{label: "vt"}
				for i := 0; i < n; i++ {
					switch pat {
					case 0:
						s.zs = append(s.zs, 77)
					case 1:
						s.zs = append(s.zs, i%256)
					case 2:
						s.zs = append(s.zs, (i*37)%256)
					}
					s.polys = append(s.polys, pick(polys, i*5+pat))
				}
				for ci, cpu := range []int{1, 16, 17, 64} {
					if n > 300 && ci%2 == 1 {
						continue
					}
					c01Case(r, s, cpu, n <= 8 && ci == 0)
				}
			}
			r.Sample(map[string]interface{}{"n": n, "z_patterns": "all 77 | i mod 256 | 37*i mod 256", "cpus": []int{1, 16, 17, 64}})
		}})
	}
	// (5) grouping seam
	for part := 0; part < 4; part++ {
		part := part
		us = append(us, core.Unit{Name: fmt.Sprintf("grouping seam all (n,NumCPU) part %d/4", part), Run: func(ctx *core.Ctx, r *core.Result) {
			if !vsched.Instrumented {
				r.Note("seam", "unavailable (fallback flavour)")
				return
			}
			defer setCPU(0)
			polys := polyAlphabet(ctx.Seed)
			rho := prfR(ctx.Seed, "c01rho", 0)
			ns := []int{}
			for n := 0; n <= 40; n++ {
				ns = append(ns, n)
			}
			ns = append(ns, 255, 256, 257)
			for _, n := range ns {
				if n%4 != part {
					continue
				}
				fs := make([][]fr.Element, n)
				zs := make([]uint8, n)
				pw := make([]*big.Int, n)
				want := make([][]*big.Int, 256)
				p := bi(1)
				for i := 0; i < n; i++ {
					poly := pick(polys, i*3+n)
					fs[i] = frsFromBig(poly.V)
					zs[i] = uint8((i*i + n) % 7 * 37 % 256)
					pw[i] = p
					z := int(zs[i])
					if want[z] == nil {
						want[z] = zeros256()
					}
					for j := 0; j < 256; j++ {
						want[z][j] = ref.AddR(want[z][j], ref.MulR(p, poly.V[j]))
					}
					p = ref.MulR(p, rho)
				}
				pwe := frsFromBig(pw)
				cpuMax := 40
				for cpu := 1; cpu <= cpuMax; cpu++ {
					if n > 100 && cpu > 4 && cpu != 16 && cpu != 17 {
						continue
					}
					setCPU(cpu)
					in := fmt.Sprintf("groupPolynomialsByEvaluationPoint(n=%d) NumCPU=%d", n, cpu)
					var got [256][]fr.Element
					if !timed(r, "c01.panic", "groupPolynomialsByEvaluationPoint", in, func() { got = multiproof.VerifGroup(fs, pwe, zs) }) {
						continue
					}
					r.Evals++
					r.Nontrivial++
					for z := 0; z < 256; z++ {
						if (want[z] == nil) != (len(got[z]) == 0) {
							vio(r, "c01.grouping", "groupPolynomialsByEvaluationPoint", in, fmt.Sprintf("group %d empty=%v", z, want[z] == nil), fmt.Sprintf("len=%d", len(got[z])))
							break
						}
						bad := false
						for j := range got[z] {
							if frToBig(got[z][j]).Cmp(want[z][j]) != 0 {
								vio(r, "c01.grouping", "groupPolynomialsByEvaluationPoint", in, fmt.Sprintf("group[%d][%d] = sum r^i f_i", z, j), frToBig(got[z][j]).Text(16))
								bad = true
								break
							}
						}
						if bad {
							break
						}
					}
				}
			}
			r.Sample(map[string]interface{}{"n": 17, "NumCPU": 16, "oracle": "per index z: sum over openings with z_i=z of rho^i * f_i; nil where unused"})
		}})
	}
	// (6) schedules of the grouping fan-in
	for _, cpu := range []int{2, 3, 4} {
		for n := 2; n <= 6; n++ {
			if cpu == 4 && n > 5 && !ctx.Thorough() {
				continue
			}
			cpu, n := cpu, n
			us = append(us, core.Unit{Name: fmt.Sprintf("grouping fan-in schedules NumCPU=%d n=%d", cpu, n), Run: func(ctx *core.Ctx, r *core.Result) {
				if !vsched.Instrumented {
					r.Note("seam", "unavailable (fallback flavour)")
					return
				}
				defer setCPU(0)
				setCPU(cpu)
				polys := polyAlphabet(ctx.Seed)
				for variant, zpat := range [][]int{{9, 9, 9, 9, 9, 9}, {9, 10, 9, 200, 10, 9}} {
					fs := make([][]fr.Element, n)
					zs := make([]uint8, n)
					for i := 0; i < n; i++ {
						fs[i] = frsFromBig(pick(polys, i*2+9).V)
						zs[i] = uint8(zpat[i])
					}
					pwe := frsFromBig(powersBig(prfR(ctx.Seed, "c01rho", 1), n))
					digest := func(g [256][]fr.Element) string {
						h := sha256.New()
						for z := range g {
							if len(g[z]) == 0 {
								h.Write([]byte{0})
								continue
							}
							h.Write([]byte{1})
							for j := range g[z] {
								b := g[z][j].Bytes()
								h.Write(b[:])
							}
						}
						return fmt.Sprintf("%x", h.Sum(nil)[:12])
					}
					f0 := make([][]fr.Element, len(fs))
					for i := range fs {
						f0[i] = append([]fr.Element(nil), fs[i]...)
					}
					want := digest(multiproof.VerifGroup(f0, append([]fr.Element(nil), pwe...), append([]uint8(nil), zs...)))
					name := fmt.Sprintf("group(n=%d, zs=%v) NumCPU=%d", n, zpat[:n], cpu)
					st := core.Explore(r, core.SchedSpec{Name: name, API: "groupPolynomialsByEvaluationPoint", Check: "c01.grouping_schedule",
						Body: func() string {
							// fresh inputs in every execution: an execution must not see what an earlier one did to its arguments
							f2 := make([][]fr.Element, len(fs))
							for i := range fs {
								f2[i] = append([]fr.Element(nil), fs[i]...)
							}
							return digest(multiproof.VerifGroup(f2, append([]fr.Element(nil), pwe...), append([]uint8(nil), zs...)))
						}, Expect: want, Mode: "dpor", Opt: explore.Options{DataBudget: -1, MaxExecs: 200000, Deadline: schedDeadline(ctx)}})
					r.Nontrivial += int64(st.Complete)
					r.Note(fmt.Sprintf("distinct_outcomes_v%d", variant), len(st.Outcomes))
				}
			}})
		}
	}
	return us
}

func powersBig(x *big.Int, n int) []*big.Int {
	out := make([]*big.Int, n)
	p := bi(1)
	for i := range out {
		out[i] = p
		p = ref.MulR(p, x)
	}
	return out
}
