package checks

import (
	"fmt"
	"math/big"

	"github.com/crate-crypto/go-ipa/bandersnatch"
	"github.com/crate-crypto/go-ipa/bandersnatch/fp"
	"verif.local/engine/core"
	"verif.local/engine/ref"
)

// C17 — base-field square root and point recovery from x are exact.

var dyadicG, _ = new(big.Int).SetString("10238227357739495823651030575849232062558860180284477541189508159991286009131", 10)

// c17Tables: T[b][v] = g^(v << 8b) as implementation field elements, computed with math/big.
func c17Tables() (tab [4][256]fp.Element) {
	// g must be a primitive 2^32-th root of unity (checked with math/big, independent of the library)
	if new(big.Int).Exp(dyadicG, pow2(31), bigP).Cmp(new(big.Int).Sub(bigP, bi(1))) != 0 {
		panic("harness: dyadic root constant is not of order 2^32")
	}
	for b := 0; b < 4; b++ {
		base := new(big.Int).Exp(dyadicG, pow2(uint(8*b)), bigP)
		cur := bi(1)
		for v := 0; v < 256; v++ {
			tab[b][v] = fpFromBig(cur)
			cur = ref.MulP(cur, base)
		}
	}
	return
}

func gPow(tab *[4][256]fp.Element, e uint32) fp.Element {
	z := tab[0][e&0xff]
	z.Mul(&z, &tab[1][(e>>8)&0xff])
	z.Mul(&z, &tab[2][(e>>16)&0xff])
	z.Mul(&z, &tab[3][(e>>24)&0xff])
	return z
}

// c17Dyadic checks invSqrtEqDyadic on g^e.
func c17Dyadic(r *core.Result, z fp.Element, e uint32) {
	in := z
	var ok bool
	if !guard(r, "c17.panic", "fp.invSqrtEqDyadic", fmt.Sprintf("g^0x%08x", e), func() { ok = fp.VerifInvSqrtEqDyadic(&z) }) {
		return
	}
	r.Evals++
	if ok != (e&1 == 0) {
		vio(r, "c17.dyadic", "fp.invSqrtEqDyadic", fmt.Sprintf("z=g^0x%08x", e), fmt.Sprintf("returns %v (dlog %s)", e&1 == 0, map[bool]string{true: "even", false: "odd"}[e&1 == 0]), fmt.Sprint(ok))
		return
	}
	if ok {
		var t fp.Element
		t.Square(&z).Mul(&t, &in)
		if !t.IsOne() {
			vio(r, "c17.dyadic", "fp.invSqrtEqDyadic", fmt.Sprintf("z=g^0x%08x", e), "out^2 * in = 1", "out="+fpToBig(z).Text(16))
		}
	}
}

// the previous non-nil root and its argument: a result must stay valid after later calls
var (
	c17PrevRoot *fp.Element
	c17PrevV    *big.Int
	c17PrevLbl  string
)

func c17Sqrt(r *core.Result, v *big.Int, label string) {
	defer func() {
		if c17PrevRoot != nil {
			if got := fpToBig(*c17PrevRoot); ref.MulP(got, got).Cmp(c17PrevV) != 0 {
				vio(r, "c17.result_stable", "fp.SqrtPrecomp", c17PrevLbl+" (root kept by the caller), then "+label, "the earlier result is unchanged by a later call", got.Text(16))
				c17PrevRoot = nil
			}
		}
	}()
	x := fpFromBig(v)
	keep := x
	var res *fp.Element
	if !guard(r, "c17.panic", "fp.SqrtPrecomp", label, func() { res = fp.SqrtPrecomp(&x) }) {
		return
	}
	r.Evals++
	jac := big.Jacobi(v, bigP)
	if x != keep {
		vio(r, "c17.arg_intact", "fp.SqrtPrecomp", label, "argument unchanged", fpToBig(x).Text(16))
	}
	if (res == nil) != (jac == -1) {
		vio(r, "c17.sqrt", "fp.SqrtPrecomp", label, fmt.Sprintf("nil=%v (Jacobi %d)", jac == -1, jac), fmt.Sprintf("nil=%v", res == nil))
		return
	}
	if res != nil {
		got := fpToBig(*res)
		if ref.MulP(got, got).Cmp(v) != 0 {
			vio(r, "c17.sqrt", "fp.SqrtPrecomp", label, "root^2 = v", got.Text(16))
		} else if c17PrevRoot == nil || v.Bit(0) == 1 {
			c17PrevRoot, c17PrevV, c17PrevLbl = res, v, label
		}
	}
}

// c17X: ONE argument variable for the whole sweep, overwritten in place before every call (a caller scanning
// abscissae does exactly that): nothing the implementation remembers about an earlier call may be tied to it.
var c17X fp.Element

func c17Point(r *core.Result, xv *big.Int, largest bool) {
	c17X = fpFromBig(xv)
	keep := c17X
	in := fmt.Sprintf("GetPointFromX(x=%s, largest=%v) through an argument variable reused for every call", xv.Text(16), largest)
	var pt *bandersnatch.PointAffine
	if !guard(r, "c17.panic", "bandersnatch.GetPointFromX", in, func() { pt = bandersnatch.GetPointFromX(&c17X, largest) }) {
		return
	}
	x := c17X
	r.Evals++
	x2 := ref.MulP(xv, xv)
	num := ref.SubP(ref.MulP(ref.A, x2), bi(1))
	den := ref.SubP(ref.MulP(ref.D, x2), bi(1))
	u := ref.MulP(num, ref.InvP(den))
	exists := big.Jacobi(u, bigP) >= 0
	if x != keep {
		vio(r, "c17.arg_intact", "bandersnatch.GetPointFromX", in, "argument unchanged", fpToBig(x).Text(16))
	}
	if (pt != nil) != exists {
		vio(r, "c17.point", "bandersnatch.GetPointFromX", in, fmt.Sprintf("point exists=%v", exists), fmt.Sprintf("nil=%v", pt == nil))
		return
	}
	if pt == nil {
		return
	}
	r.Nontrivial++
	gx, gy := fpToBig(pt.X), fpToBig(pt.Y)
	half := new(big.Int).Rsh(new(big.Int).Sub(bigP, bi(1)), 1)
	switch {
	case gx.Cmp(xv) != 0:
		vio(r, "c17.point", "bandersnatch.GetPointFromX", in, "returned X = x", gx.Text(16))
	case ref.MulP(gy, gy).Cmp(u) != 0:
		vio(r, "c17.point", "bandersnatch.GetPointFromX", in, "(x,y) on the curve", "y="+gy.Text(16))
	case u.Sign() != 0 && (gy.Cmp(half) > 0) != largest:
		vio(r, "c17.point", "bandersnatch.GetPointFromX", in, fmt.Sprintf("y lexicographically largest=%v", largest), "y="+gy.Text(16))
	}
}

func init() {
	core.Register(&core.Check{
		ID: "C17", Level: "exploration",
		Rule:   "invSqrtEqDyadic depends on its argument only through an element g^e of the 2^32-th roots of unity: thorough enumerates ALL 2^32 exponents e, quick every 8-bit value of each of the 4 dlog blocks x the other blocks in {00,01,80,FF} and all 2^16 values of the two low blocks; SqrtPrecomp on g^e*h for the quick e-set x 8 odd-order h, all v in [0,2^16) (2^20 thorough), the 33 dyadic roots, 0, p-1; an earlier root must stay valid after later calls; GetPointFromX on all x in [0,2^16) (2^18 thorough) x both sign flags plus boundary x; non-trivial = a residue / an existing point (squares and non-squares occur in equal share by construction)",
		Assume: []string{"oracle: math/big Jacobi symbol, squaring and the curve equation", "g^e is assembled from four 256-entry tables computed with math/big"},
		Units:  c17Units,
	})
}

func c17Units(ctx *core.Ctx) []core.Unit {
	var us []core.Unit
	quickSet := func() []uint32 {
		seen := map[uint32]bool{}
		var out []uint32
		add := func(e uint32) {
			if !seen[e] {
				seen[e] = true
				out = append(out, e)
			}
		}
		oth := []uint32{0x00, 0x01, 0x80, 0xFF}
		for b := 0; b < 4; b++ {
			for v := uint32(0); v < 256; v++ {
				for c := 0; c < 64; c++ {
					var blk [4]uint32
					k := c
					for o := 0; o < 4; o++ {
						if o == b {
							blk[o] = v
						} else {
							blk[o] = oth[k%4]
							k /= 4
						}
					}
					add(blk[0] | blk[1]<<8 | blk[2]<<16 | blk[3]<<24)
				}
			}
		}
		return out
	}
	us = append(us, core.Unit{Name: "dyadic: block sweeps", Run: func(ctx *core.Ctx, r *core.Result) {
		tab := c17Tables()
		for _, e := range quickSet() {
			c17Dyadic(r, gPow(&tab, e), e)
			r.Nontrivial++
		}
		r.Sample(map[string]interface{}{"example": "z = g^0x80FF0142", "oracle": "false iff e odd, else out^2*in = 1"})
	}})
	us = append(us, core.Unit{Name: "dyadic: all 2^16 low exponents, high blocks 0000 and 8001", Run: func(ctx *core.Ctx, r *core.Result) {
		tab := c17Tables()
		for e := uint32(0); e < 1<<16; e++ {
			c17Dyadic(r, gPow(&tab, e), e)
			c17Dyadic(r, gPow(&tab, e|0x80010000), e|0x80010000)
			r.Nontrivial += 2
		}
	}})
	if ctx.Thorough() {
		const shards = 256
		for sh := uint32(0); sh < shards; sh++ {
			sh := sh
			us = append(us, core.Unit{Name: fmt.Sprintf("dyadic: ALL exponents with top byte 0x%02x", sh), Run: func(ctx *core.Ctx, r *core.Result) {
				tab := c17Tables()
				g := tab[0][1]
				start := sh << 24
				cur := gPow(&tab, start)
				for i := uint32(0); i < 1<<24; i++ {
					c17Dyadic(r, cur, start|i)
					cur.Mul(&cur, &g)
				}
				r.Nontrivial += 1 << 24
				// the running product must have stayed in sync with the table product
				chk := gPow(&tab, start)
				gg := gPow(&tab, 1<<24-1)
				chk.Mul(&chk, &gg).Mul(&chk, &g)
				if cur != chk {
					panic("harness: running power out of sync")
				}
			}})
		}
	}
	us = append(us, core.Unit{Name: "SqrtPrecomp: g^e*h over the block sweep x 8 odd-order h", Run: func(ctx *core.Ctx, r *core.Result) {
		tab := c17Tables()
		es := quickSet()
		step := 1
		if !ctx.Thorough() {
			step = 4
		}
		for h := 0; h < 8; h++ {
			hv := bi(1)
			if h > 0 {
				hv = new(big.Int).Exp(new(big.Int).Mod(prf(ctx.Seed, "c17h", h), bigP), pow2(32), bigP) // odd-order part
			}
			for i := h % step; i < len(es); i += step {
				e := es[i]
				v := ref.MulP(fpToBig(gPow(&tab, e)), hv)
				c17Sqrt(r, v, fmt.Sprintf("v=g^0x%08x*h%d", e, h))
				if e&1 == 0 {
					r.Nontrivial++
				}
			}
		}
	}})
	us = append(us, core.Unit{Name: "SqrtPrecomp: small range, dyadic roots, boundaries", Run: func(ctx *core.Ctx, r *core.Result) {
		lim := int64(1 << 16)
		if ctx.Thorough() {
			lim = 1 << 20
		}
		for v := int64(0); v < lim; v++ {
			c17Sqrt(r, bi(v), fmt.Sprintf("v=%d", v))
			r.Nontrivial++
		}
		for k := uint(0); k <= 32; k++ {
			c17Sqrt(r, new(big.Int).Exp(dyadicG, pow2(k), bigP), fmt.Sprintf("v=g^(2^%d)", k))
		}
		for d := int64(1); d <= 64; d++ {
			c17Sqrt(r, new(big.Int).Sub(bigP, bi(d)), fmt.Sprintf("v=p-%d", d))
		}
		r.Sample(map[string]interface{}{"range": []int64{0, lim}, "extra": "33 dyadic roots, p-1..p-64"})
	}})
	xl := int64(1 << 16)
	if ctx.Thorough() {
		xl = 1 << 18
	}
	const xs = 8
	for sh := int64(0); sh < xs; sh++ {
		sh := sh
		us = append(us, core.Unit{Name: fmt.Sprintf("GetPointFromX shard %d/%d", sh, xs), Run: func(ctx *core.Ctx, r *core.Result) {
			for x := sh; x < xl; x += xs {
				c17Point(r, bi(x), true)
				c17Point(r, bi(x), false)
				if x%16 == sh%16 {
					// several consecutive recoveries at the same abscissa and at its negative
					c17Point(r, bi(x), true)
					c17Point(r, ref.SubP(new(big.Int), bi(x)), true)
					c17Point(r, bi(x), true)
					c17Point(r, bi(x), false)
				}
			}
			if sh == 1 {
				// abscissae whose ordinate is next to (p-1)/2: the choice between y and -y at its boundary
				half := new(big.Int).Rsh(new(big.Int).Sub(bigP, bi(1)), 1)
				for k := int64(-300); k <= 300; k++ {
					y := new(big.Int).Add(half, bi(k))
					y2 := ref.MulP(y, y)
					den := ref.SubP(ref.A, ref.MulP(ref.D, y2))
					if den.Sign() == 0 {
						continue
					}
					xq := new(big.Int).ModSqrt(ref.MulP(ref.SubP(bi(1), y2), ref.InvP(den)), bigP)
					if xq == nil {
						continue
					}
					c17Point(r, xq, true)
					c17Point(r, xq, false)
				}
			}
			if sh == 0 {
				for d := int64(1); d <= 256; d++ {
					c17Point(r, new(big.Int).Sub(bigP, bi(d)), true)
					c17Point(r, new(big.Int).Sub(bigP, bi(d)), false)
				}
				for i := 0; i < 64; i++ {
					c17Point(r, new(big.Int).Mod(prf(ctx.Seed, "c17x", i), bigP), i%2 == 0)
				}
				r.Sample(map[string]interface{}{"x_range": []int64{0, xl}, "flags": "both", "extra": "p-1..p-256, 64 PRF values"})
			}
		}})
	}
	return us
}
