package checks

import (
	"bytes"
	"crypto/sha256"
	"errors"
	"fmt"
	"github.com/crate-crypto/go-ipa/banderwagon"
	"io"
	"math/big"

	multiproof "github.com/crate-crypto/go-ipa"
	"github.com/crate-crypto/go-ipa/common"
	"github.com/crate-crypto/go-ipa/ipa"
	"github.com/crate-crypto/go-ipa/zzverif/vsched"
	"verif.local/engine/core"
	"verif.local/engine/explore"
	"verif.local/engine/ref"
)

// C10 — proof (de)serialisation is total, canonical and robust to I/O faults.

// refFields: the reference decoder on the first nPoints*32+32 bytes.
func refFields(b []byte, nPoints int) bool {
	if len(b) < nPoints*32+32 {
		return false
	}
	for i := 0; i < nPoints; i++ {
		if refDecode(new(big.Int).SetBytes(b[i*32:i*32+32])) == nil {
			return false
		}
	}
	return leInt(b[nPoints*32:nPoints*32+32]).Cmp(bigR) < 0
}

func honestProofBytes(seed int64, which int) []byte {
	c := conf()
	polys := polyAlphabet(seed)
	var s stmt
	switch which {
	case 0:
		s = stmt{label: "vt", zs: []int{3, 200}, polys: []namedPoly{polys[10], polys[12]}}
	default:
		s = stmt{label: "x", zs: []int{255}, polys: []namedPoly{polys[13]}}
	}
	b, _, err := implProofBytes(c, s)
	if err != nil || len(b) != 576 {
		panic(core.ImplFault{API: "CreateMultiProof / MultiProof.Write", Input: "honest statement " + s.String(), Got: fmt.Sprintf("err=%v, %d proof bytes (576 expected)", err, len(b))})
	}
	return b
}

// readMulti / readIPA run the real parsers under recover.
func readMulti(r *core.Result, rd io.Reader, desc string) (p multiproof.MultiProof, err error, ran bool) {
	ran = guard(r, "c10.panic", "MultiProof.Read", desc, func() { err = p.Read(rd) })
	return
}
func readIPA(r *core.Result, rd io.Reader, desc string) (p ipa.IPAProof, err error, ran bool) {
	ran = guard(r, "c10.panic", "ipa.IPAProof.Read", desc, func() { err = p.Read(rd) })
	return
}

// c10Input checks one byte string through both parsers against the reference decoder, plus Write(Read(x)) = x.
// one proof object of each kind per worker process, read into again and again
var (
	c10ReuseM          multiproof.MultiProof
	c10ReuseI          ipa.IPAProof
	c10PrevM, c10PrevI []byte
)

func c10Input(r *core.Result, b []byte, what string) {
	desc := fmt.Sprintf("%s [len %d]", what, len(b))
	wantM := len(b) == 576 && refFields(b, 17)
	mp, err, ran := readMulti(r, bytes.NewReader(b), desc)
	if ran {
		r.Evals++
		r.Nontrivial++
		if (err == nil) != wantM {
			vio(r, "c10.accept", "MultiProof.Read", desc, fmt.Sprintf("accepted=%v (exactly 576 bytes: 17 valid canonical points + canonical scalar)", wantM), fmt.Sprintf("err=%v", err))
		} else if err == nil {
			var out bytes.Buffer
			if werr := mp.Write(&out); werr != nil || !bytes.Equal(out.Bytes(), b) {
				vio(r, "c10.roundtrip", "MultiProof.Write(Read(x))", desc, "reproduces the input", fmt.Sprintf("%x err=%v", out.Bytes(), werr))
			}
		}
	}
	// the same stream through a bytes.Buffer (a reader that hands out its own storage): the caller's bytes
	// must be untouched afterwards and the decision the same
	{
		cp := append([]byte(nil), b...)
		var mb multiproof.MultiProof
		var errB error
		if guard(r, "c10.panic", "MultiProof.Read", desc+" via bytes.NewBuffer", func() { errB = mb.Read(bytes.NewBuffer(cp)) }) {
			r.Evals++
			if (errB == nil) != wantM {
				vio(r, "c10.accept", "MultiProof.Read", desc+" via bytes.NewBuffer", fmt.Sprintf("accepted=%v", wantM), fmt.Sprintf("err=%v", errB))
			}
			if !bytes.Equal(cp, b) {
				vio(r, "c10.input_intact", "MultiProof.Read", desc+" via bytes.NewBuffer", "the caller's byte slice is unchanged", fmt.Sprintf("%x", cp))
			}
		}
	}
	// one long-lived proof variable that every stream is read into: value copies taken after earlier reads
	// (they share nothing the next Read may reuse) must still serialise to what they were read from
	{
		keepM, keepI := c10ReuseM, c10ReuseI
		prevM, prevI := c10PrevM, c10PrevI
		var e1, e2 error
		if guard(r, "c10.panic", "MultiProof.Read / IPAProof.Read", desc+" into a proof variable that was read into before", func() {
			e1 = c10ReuseM.Read(bytes.NewReader(b))
			e2 = c10ReuseI.Read(bytes.NewReader(b))
		}) {
			r.Evals++
			if prevM != nil {
				var out bytes.Buffer
				if werr := keepM.Write(&out); werr != nil || !bytes.Equal(out.Bytes(), prevM) {
					vio(r, "c10.roundtrip", "MultiProof.Read", desc+" into a proof variable that was read into before", "a value copy of the earlier proof still serialises to the earlier bytes", fmt.Sprintf("%x err=%v", out.Bytes(), werr))
				}
			}
			if prevI != nil {
				var out bytes.Buffer
				if werr := keepI.Write(&out); werr != nil || !bytes.Equal(out.Bytes(), prevI) {
					vio(r, "c10.roundtrip", "ipa.IPAProof.Read", desc+" into a proof variable that was read into before", "a value copy of the earlier proof still serialises to the earlier bytes", fmt.Sprintf("%x err=%v", out.Bytes(), werr))
				}
			}
			c10PrevM, c10PrevI = nil, nil
			if e1 == nil {
				c10PrevM = append([]byte(nil), b...)
			} else {
				c10ReuseM = multiproof.MultiProof{} // a failed read leaves an unspecified object: start afresh
			}
			if e2 == nil && len(b) >= 544 {
				c10PrevI = append([]byte(nil), b[:544]...)
			} else {
				c10ReuseI = ipa.IPAProof{}
			}
		}
	}
	// IPAProof.Read consumes exactly 544 bytes of the stream
	wantI := len(b) >= 544 && refFields(b, 16)
	rdr := bytes.NewReader(b)
	ip, err, ran := readIPA(r, rdr, desc)
	if ran {
		r.Evals++
		if (err == nil) != wantI {
			vio(r, "c10.accept", "ipa.IPAProof.Read", desc, fmt.Sprintf("accepted=%v (first 544 bytes: 16 valid canonical points + canonical scalar)", wantI), fmt.Sprintf("err=%v", err))
		} else if err == nil {
			if consumed := len(b) - rdr.Len(); consumed != 544 {
				vio(r, "c10.accept", "ipa.IPAProof.Read", desc, "consumes exactly 544 bytes", fmt.Sprint(consumed))
			}
			var out bytes.Buffer
			if werr := ip.Write(&out); werr != nil || !bytes.Equal(out.Bytes(), b[:544]) {
				vio(r, "c10.roundtrip", "ipa.IPAProof.Write(Read(x))", desc, "reproduces the input", fmt.Sprintf("%x err=%v", out.Bytes(), werr))
			}
		}
	}
}

// ---------- fault-injecting reader / writer ----------

var errInjected = errors.New("injected I/O error")

// chooserReader: every Read call asks the explorer how to answer.
type chooserReader struct {
	data []byte
	pos  int
	log  []string
}

func (c *chooserReader) Read(p []byte) (int, error) {
	if len(p) == 0 {
		return 0, nil
	}
	rem := len(c.data) - c.pos
	if rem == 0 {
		if vsched.Choose(2, "io-eof") == 1 {
			c.log = append(c.log, "err")
			return 0, errInjected
		}
		c.log = append(c.log, "eof")
		return 0, io.EOF
	}
	full := len(p)
	if full > rem {
		full = rem
	}
	k := vsched.Choose(5, "io")
	n := full
	var err error
	switch k {
	case 1:
		n = 1
	case 2:
		n = (full + 1) / 2
	case 3: // data together with io.EOF when the stream ends inside this call
		if full == rem {
			err = io.EOF
		}
	case 4:
		c.log = append(c.log, "err")
		return 0, errInjected
	}
	copy(p, c.data[c.pos:c.pos+n])
	c.pos += n
	c.log = append(c.log, fmt.Sprintf("%d%s", n, map[bool]string{true: "+EOF", false: ""}[err != nil]))
	return n, err
}

// profileReader: fixed chunking profiles.
type profileReader struct {
	data    []byte
	pos     int
	chunk   int  // max bytes per call (0 = unlimited)
	dataEOF bool // return io.EOF together with the last bytes
	failAt  int  // inject an error once pos reaches failAt (-1 = never)
}

func (c *profileReader) Read(p []byte) (int, error) {
	if len(p) == 0 {
		return 0, nil
	}
	if c.failAt >= 0 && c.pos >= c.failAt {
		return 0, errInjected
	}
	rem := len(c.data) - c.pos
	if rem == 0 {
		return 0, io.EOF
	}
	n := len(p)
	if n > rem {
		n = rem
	}
	if c.chunk > 0 && n > c.chunk {
		n = c.chunk
	}
	if c.failAt >= 0 && c.pos+n > c.failAt {
		n = c.failAt - c.pos
	}
	copy(p, c.data[c.pos:c.pos+n])
	c.pos += n
	if c.dataEOF && c.pos == len(c.data) {
		return n, io.EOF
	}
	return n, nil
}

// failWriter fails once the stream reaches byte offset failAt (-1 = never), whatever the size of the
// individual Write calls: with short=true the bytes up to the offset are accepted first (short write + error).
// yieldReader delivers the stream in chunks and yields to the scheduler before every delivery (a reader
// that may block: the natural scheduling points of a parser).
type yieldReader struct {
	data  []byte
	pos   int
	chunk int
	tok   *vsched.Mutex // shared by the readers of one scenario: makes their deliveries mutually dependent, so that every interleaving of deliveries is explored
}

func (y *yieldReader) Read(p []byte) (int, error) {
	if y.tok != nil {
		y.tok.Lock()
		y.tok.Unlock()
	} else {
		vsched.Yield()
	}
	if y.pos >= len(y.data) {
		return 0, io.EOF
	}
	n := len(p)
	if n > y.chunk {
		n = y.chunk
	}
	if n > len(y.data)-y.pos {
		n = len(y.data) - y.pos
	}
	copy(p, y.data[y.pos:y.pos+n])
	y.pos += n
	return n, nil
}

type failWriter struct {
	calls  int
	failAt int
	short  bool
	once   bool // transient fault: only the first Write that crosses the offset fails, later ones succeed
	failed bool
	buf    bytes.Buffer
}

func (w *failWriter) Write(p []byte) (int, error) {
	w.calls++
	if w.failAt >= 0 && w.buf.Len()+len(p) > w.failAt && !(w.once && w.failed) {
		w.failed = true
		n := 0
		if w.short {
			n = w.failAt - w.buf.Len()
			w.buf.Write(p[:n])
		}
		return n, errInjected
	}
	return w.buf.Write(p)
}

func init() {
	core.Register(&core.Check{
		ID: "C10", Level: "fault_enumeration",
		Rule:   "inputs: an honest 576-byte proof with EVERY single-field substitution (17 point fields x {other valid point, x+p alias, non-subgroup x, off-curve x, 0, 1, p-1, p, 2^256-1, p-x}; scalar x {0,1,r-1,r,r+1,2^253,2^256-1}), all pairs of substitutions in thorough, every length 0..600 (truncation at every byte, 1..24 trailing bytes), through MultiProof.Read and IPAProof.Read against a reference field decoder, with Write(Read(x)) = x; fault sequences: for 4 inputs (valid, 577 bytes, 575 bytes, invalid scalar) ALL reader answer sequences with <= 2 (3 thorough) deviations from 'full read' over {1 byte, half, data+EOF, injected error} (every Read call is a choice point), the extreme profiles (always 1 byte, always half, data+EOF at the end), an injected error at EVERY byte offset 0..576, and a writer failing (or short-writing) at EVERY byte offset of the output, followed by a healthy Write; non-trivial = every substituted, truncated, extended or fault-injected case",
		Assume: []string{"well-behaved reader = obeys the io.Reader contract and never returns (0, nil)", "reference decoder = C06 predicate per point field, little-endian value < r for the scalar, exact length"},
		Units:  c10Units,
	})
}

func c10Units(ctx *core.Ctx) []core.Unit {
	var us []core.Unit
	pointSubs := func(seed int64, honest []byte, field int) map[string][]byte {
		m := map[string][]byte{}
		orig := new(big.Int).SetBytes(honest[field*32 : field*32+32])
		other := ref.Compress(ref.SRS()[(field*7+3)%256])
		m["other valid point"] = other[:]
		m["x+p alias"] = be32(new(big.Int).Add(orig, bigP))
		m["p-x"] = be32(new(big.Int).Sub(bigP, orig))
		m["0"] = be32(bi(0))
		m["1"] = be32(bi(1))
		m["p-1"] = be32(new(big.Int).Sub(bigP, bi(1)))
		m["p"] = be32(bigP)
		m["2^256-1"] = be32(new(big.Int).Sub(pow2(256), bi(1)))
		// a non-subgroup x and an off-curve x, found by search with the reference predicate
		for x := int64(2); ; x++ {
			xi := bi(x + int64(field)*1000)
			x2 := ref.MulP(xi, xi)
			u := ref.MulP(ref.SubP(ref.MulP(ref.A, x2), bi(1)), ref.InvP(ref.SubP(ref.MulP(ref.D, x2), bi(1))))
			onCurve := big.Jacobi(u, bigP) >= 0
			sub := big.Jacobi(ref.SubP(bi(1), ref.MulP(ref.A, x2)), bigP) == 1
			if onCurve && !sub && m["non-subgroup x"] == nil {
				m["non-subgroup x"] = be32(xi)
			}
			if !onCurve && m["off-curve x"] == nil {
				m["off-curve x"] = be32(xi)
			}
			if m["non-subgroup x"] != nil && m["off-curve x"] != nil {
				break
			}
		}
		return m
	}
	scalarSubs := map[string]*big.Int{"0": bi(0), "1": bi(1), "r-1": new(big.Int).Sub(bigR, bi(1)), "r": bigR, "r+1": new(big.Int).Add(bigR, bi(1)), "2^253": pow2(253), "2^256-1": new(big.Int).Sub(pow2(256), bi(1))}
	us = append(us, core.Unit{Name: "single-field substitutions under other CPU counts", Run: func(ctx *core.Ctx, r *core.Result) {
		if !vsched.Instrumented {
			r.Note("seam", "unavailable (fallback flavour)")
			return
		}
		needRef()
		defer setCPU(0)
		honest := honestProofBytes(ctx.Seed, 0)
		for _, k := range []int{1, 2, 3, 4, 5, 7, 8, 17} {
			setCPU(k)
			c10Input(r, honest, fmt.Sprintf("honest proof, NumCPU=%d", k))
			for f := 0; f < 17; f++ {
				for name, v := range pointSubs(ctx.Seed, honest, f) {
					b := append([]byte(nil), honest...)
					copy(b[f*32:], v)
					c10Input(r, b, fmt.Sprintf("honest proof with point field %d := %s, NumCPU=%d", f, name, k))
				}
			}
			b := append([]byte(nil), honest...)
			copy(b[544:], ref.LE32(bigR))
			c10Input(r, b, fmt.Sprintf("honest proof with scalar := r, NumCPU=%d", k))
		}
	}})
	us = append(us, core.Unit{Name: "single-field substitutions", Run: func(ctx *core.Ctx, r *core.Result) {
		needRef()
		for which := 0; which < 2; which++ {
			honest := honestProofBytes(ctx.Seed, which)
			c10Input(r, honest, "honest proof")
			for f := 0; f < 17; f++ {
				for name, v := range pointSubs(ctx.Seed, honest, f) {
					b := append([]byte(nil), honest...)
					copy(b[f*32:], v)
					c10Input(r, b, fmt.Sprintf("honest proof %d with point field %d := %s", which, f, name))
					if f%4 == 1 {
						// history: the substituted field has been seen by the unchecked decoders before, and the
						// same stream is parsed again afterwards — the decision may not depend on either
						var e banderwagon.Element
						func() {
							defer func() { recover() }()
							e.SetBytesUnsafe(v)
							e.SetBytesUncompressed(append(append([]byte(nil), v...), make([]byte, 32)...), true)
						}()
						c10Input(r, b, fmt.Sprintf("honest proof %d with point field %d := %s, after the unchecked decoders have seen that field", which, f, name))
						c10Input(r, b, fmt.Sprintf("honest proof %d with point field %d := %s, parsed once more", which, f, name))
					}
				}
			}
			for name, v := range scalarSubs {
				b := append([]byte(nil), honest...)
				copy(b[544:], ref.LE32(new(big.Int).Mod(v, pow2(256))))
				if v.BitLen() > 253 && v.Cmp(pow2(256)) < 0 {
					le := make([]byte, 32)
					vb := v.Bytes()
					for i := range vb {
						le[i] = vb[len(vb)-1-i]
					}
					copy(b[544:], le)
				}
				c10Input(r, b, fmt.Sprintf("honest proof %d with scalar := %s", which, name))
			}
		}
		r.Sample(map[string]interface{}{"input": "honest proof with point field 9 := x+p alias", "expected": "rejected by MultiProof.Read and IPAProof.Read"})
	}})
	us = append(us, core.Unit{Name: "all pairs of fields replaced by curve points outside the subgroup", Run: func(ctx *core.Ctx, r *core.Result) {
		needRef()
		honest := honestProofBytes(ctx.Seed, 0)
		// two abscissae of curve points outside the subgroup (rejected by the reference decoder, ordinate exists)
		var bad [][]byte
		for x := int64(2); len(bad) < 2 && x < 200; x++ {
			if refDecode(bi(x)) != nil {
				continue
			}
			if _, on := ref.CurvePointWithX(bi(x), true); on {
				bad = append(bad, be32(bi(x)))
			}
		}
		if len(bad) < 2 {
			r.ToolError = "no abscissa outside the subgroup found below 200"
			return
		}
		for f1 := 0; f1 < 17; f1++ {
			for f2 := f1 + 1; f2 < 17; f2++ {
				for v := 0; v < 2; v++ {
					b := append([]byte(nil), honest...)
					copy(b[f1*32:], bad[0])
					copy(b[f2*32:], bad[v])
					c10Input(r, b, fmt.Sprintf("honest proof with point fields %d and %d := abscissae outside the subgroup (variant %d)", f1, f2, v))
				}
			}
		}
	}})
	if ctx.Thorough() {
		for f1 := 0; f1 < 17; f1++ {
			f1 := f1
			us = append(us, core.Unit{Name: fmt.Sprintf("pairs of substitutions, first field %d", f1), Run: func(ctx *core.Ctx, r *core.Result) {
				needRef()
				honest := honestProofBytes(ctx.Seed, 0)
				s1 := pointSubs(ctx.Seed, honest, f1)
				for f2 := f1 + 1; f2 < 17; f2++ {
					s2 := pointSubs(ctx.Seed, honest, f2)
					for n1, v1 := range s1 {
						for n2, v2 := range s2 {
							b := append([]byte(nil), honest...)
							copy(b[f1*32:], v1)
							copy(b[f2*32:], v2)
							c10Input(r, b, fmt.Sprintf("fields %d := %s, %d := %s", f1, n1, f2, n2))
						}
					}
				}
				for n1, v1 := range s1 {
					for n2, v2 := range scalarSubs {
						b := append([]byte(nil), honest...)
						copy(b[f1*32:], v1)
						le := ref.LE32(new(big.Int).Mod(v2, pow2(256)))
						copy(b[544:], le)
						c10Input(r, b, fmt.Sprintf("field %d := %s, scalar := %s", f1, n1, n2))
					}
				}
			}})
		}
	}
	us = append(us, core.Unit{Name: "every length 0..600", Run: func(ctx *core.Ctx, r *core.Result) {
		needRef()
		honest := honestProofBytes(ctx.Seed, 0)
		for L := 0; L <= 600; L++ {
			b := make([]byte, L)
			copy(b, honest)
			for i := 576; i < L; i++ {
				b[i] = byte(i)
			}
			c10Input(r, b, "honest proof truncated/extended")
			if L > 576 {
				z := make([]byte, L)
				copy(z, honest) // zero trailing bytes
				c10Input(r, z, "honest proof with zero trailing bytes")
			}
		}
		r.Sample(map[string]interface{}{"lengths": "0..600", "trailing": "non-zero and zero bytes"})
	}})
	// fault sequences
	type finput struct {
		name string
		mk   func(h []byte) []byte
	}
	finputs := []finput{
		{"valid 576 bytes", func(h []byte) []byte { return h }},
		{"577 bytes (one trailing byte)", func(h []byte) []byte { return append(append([]byte(nil), h...), 0x01) }},
		{"575 bytes", func(h []byte) []byte { return h[:575] }},
		{"576 bytes with scalar = r", func(h []byte) []byte {
			b := append([]byte(nil), h...)
			copy(b[544:], ref.LE32(bigR))
			return b
		}},
	}
	for fi, in := range finputs {
		fi, in := fi, in
		us = append(us, core.Unit{Name: "reader answer sequences (<= 2 deviations): " + in.name, Run: func(ctx *core.Ctx, r *core.Result) {
			needRef()
			if !vsched.Instrumented {
				// the chooser only needs the shim package, which exists in every flavour
			}
			data := in.mk(honestProofBytes(ctx.Seed, 0))
			want := len(data) == 576 && refFields(data, 17)
			body := func() string {
				rd := &chooserReader{data: data}
				var p multiproof.MultiProof
				err := p.Read(rd)
				injected := false
				for _, l := range rd.log {
					if l == "err" {
						injected = true
					}
				}
				switch {
				case injected && err == nil:
					return "ACCEPTED although the reader returned an error"
				case injected:
					return "error (injected)"
				case err == nil:
					return "accepted"
				}
				return "rejected"
			}
			judge := func(o string) string {
				exp := "rejected"
				if want {
					exp = "accepted"
				}
				if o == exp || o == "error (injected)" {
					return ""
				}
				return exp + " whatever the chunking (or an error when the reader fails)"
			}
			bd := 2
			if ctx.Thorough() {
				bd = 3
			}
			st := core.Explore(r, core.SchedSpec{Name: "MultiProof.Read of " + in.name + " under a fault-injecting reader", API: "MultiProof.Read", Check: "c10.chunking", Body: body, Judge: judge, Mode: "bounded", Opt: explore.Options{MaxBound: bd, DataOnly: true}})
			r.Nontrivial += int64(st.Complete)
			r.Note(fmt.Sprintf("outcomes_%d", fi), fmt.Sprint(st.Outcomes))
		}})
	}
	us = append(us, core.Unit{Name: "two streams parsed concurrently through readers that yield at every call (all interleavings)", Run: func(ctx *core.Ctx, r *core.Result) {
		if !vsched.Instrumented {
			r.Note("seam", "unavailable (fallback flavour)")
			return
		}
		needRef()
		h0, h1 := honestProofBytes(ctx.Seed, 0), honestProofBytes(ctx.Seed, 1)
		body := func() string {
			var wg vsched.WaitGroup
			var tok vsched.Mutex
			outs := make([]string, 2)
			for k, hb := range [][]byte{h0, h1} {
				wg.Add(1)
				vsched.Go2(func(k int, hb []byte) {
					var p multiproof.MultiProof
					err := p.Read(&yieldReader{data: hb, chunk: 288, tok: &tok})
					var out bytes.Buffer
					if err == nil {
						err = p.Write(&out)
					}
					outs[k] = fmt.Sprintf("%v %x", err, sha256.Sum256(out.Bytes()))
					wg.Done()
				}, k, hb)
			}
			wg.Wait()
			return outs[0] + " | " + outs[1]
		}
		want := fmt.Sprintf("<nil> %x | <nil> %x", sha256.Sum256(h0), sha256.Sum256(h1))
		st := core.Explore(r, core.SchedSpec{Name: "MultiProof.Read x 2 through yielding readers", API: "MultiProof.Read", Check: "c10.concurrent_streams", Body: body, Expect: want, Mode: "bounded", Opt: explore.Options{MaxBound: 2, SchedOnly: true, MaxExecs: 20000, Deadline: schedDeadline(ctx)}})
		r.Nontrivial += int64(st.Complete)
		// the same for single fields, without bound
		p0, p1 := h0[:32], h1[32:64]
		body2 := func() string {
			var wg vsched.WaitGroup
			var tok vsched.Mutex
			outs := make([]string, 2)
			for k, b := range [][]byte{p0, p1} {
				wg.Add(1)
				vsched.Go2(func(k int, b []byte) {
					e, err := common.ReadPoint(&yieldReader{data: b, chunk: 16, tok: &tok})
					if err != nil {
						outs[k] = err.Error()
					} else {
						eb := e.Bytes()
						outs[k] = hx(eb[:])
					}
					wg.Done()
				}, k, b)
			}
			wg.Wait()
			return outs[0] + " | " + outs[1]
		}
		st = core.Explore(r, core.SchedSpec{Name: "common.ReadPoint x 2 through yielding readers", API: "common.ReadPoint", Check: "c10.concurrent_streams", Body: body2, Expect: hx(p0) + " | " + hx(p1), Mode: "dpor", Opt: explore.Options{DataBudget: 0, MaxExecs: 100000, Deadline: schedDeadline(ctx)}})
		r.Nontrivial += int64(st.Complete)
	}})
	us = append(us, core.Unit{Name: "extreme profiles, error at every byte offset, failing writer at each call", Run: func(ctx *core.Ctx, r *core.Result) {
		needRef()
		honest := honestProofBytes(ctx.Seed, 0)
		for _, in := range finputs {
			data := in.mk(honest)
			want := len(data) == 576 && refFields(data, 17)
			for _, pf := range []struct {
				name string
				rd   *profileReader
			}{
				{"1 byte at a time", &profileReader{data: data, chunk: 1, failAt: -1}},
				{"3 bytes at a time", &profileReader{data: data, chunk: 3, failAt: -1}},
				{"half-field chunks", &profileReader{data: data, chunk: 16, failAt: -1}},
				{"31-byte chunks", &profileReader{data: data, chunk: 31, failAt: -1}},
				{"33-byte chunks", &profileReader{data: data, chunk: 33, failAt: -1}},
				{"everything at once, data+EOF", &profileReader{data: data, dataEOF: true, failAt: -1}},
				{"1 byte at a time, data+EOF", &profileReader{data: data, chunk: 1, dataEOF: true, failAt: -1}},
				{"32-byte chunks, data+EOF", &profileReader{data: data, chunk: 32, dataEOF: true, failAt: -1}},
			} {
				desc := in.name + " read " + pf.name
				_, err, ran := readMulti(r, pf.rd, desc)
				if !ran {
					continue
				}
				r.Evals++
				r.Nontrivial++
				if (err == nil) != want {
					vio(r, "c10.chunking", "MultiProof.Read", desc, fmt.Sprintf("accepted=%v whatever the chunking", want), fmt.Sprintf("err=%v", err))
				}
			}
		}
		for off := 0; off <= 576; off++ {
			for _, chunk := range []int{0, 7} {
				desc := fmt.Sprintf("valid proof, reader fails at byte offset %d (chunk %d)", off, chunk)
				_, err, ran := readMulti(r, &profileReader{data: honest, failAt: off, chunk: chunk}, desc)
				if !ran {
					continue
				}
				r.Evals++
				r.Nontrivial++
				if err == nil {
					vio(r, "c10.readerror", "MultiProof.Read", desc, "an error", "nil")
				}
				if off <= 544 {
					_, err, ran := readIPA(r, &profileReader{data: honest[32:], failAt: off, chunk: chunk}, desc)
					if ran && err == nil && off < 544 {
						vio(r, "c10.readerror", "ipa.IPAProof.Read", desc, "an error", "nil")
					}
				}
			}
		}
		var mp multiproof.MultiProof
		if err := mp.Read(bytes.NewReader(honest)); err != nil {
			panic(core.ImplFault{API: "MultiProof.Read", Input: "the 576 bytes written by MultiProof.Write for an honest proof", Got: "error: " + err.Error()})
		}
		for k := 0; k < 576; k++ {
			for _, short := range []bool{false, true} {
				if !ctx.Thorough() && short && k%32 != 0 && k%32 != 1 && k%32 != 31 {
					continue
				}
				w := &failWriter{failAt: k, short: short}
				desc := fmt.Sprintf("writer fails at byte offset %d (short write: %v)", k, short)
				var err error
				if !guard(r, "c10.panic", "MultiProof.Write", desc, func() { err = mp.Write(w) }) {
					continue
				}
				r.Evals++
				r.Nontrivial++
				if err == nil {
					vio(r, "c10.writeerror", "MultiProof.Write", desc, "an error", "nil")
				}
				if k >= 32 {
					wi := &failWriter{failAt: k - 32, short: short}
					if err := mp.IPA.Write(wi); err == nil {
						vio(r, "c10.writeerror", "ipa.IPAProof.Write", desc, "an error", "nil")
					}
				}
				// a transient fault (one failing call, the writer works again afterwards) is still a failed Write
				wt := &failWriter{failAt: k, short: short, once: true}
				if err := mp.Write(wt); err == nil {
					vio(r, "c10.writeerror", "MultiProof.Write", desc+" once (transient fault)", "an error", "nil")
				}
				// a failed Write must not influence the next one
				if k%64 == 5 {
					w2 := &failWriter{failAt: -1}
					if err := mp.Write(w2); err != nil || !bytes.Equal(w2.buf.Bytes(), honest) {
						vio(r, "c10.roundtrip", "MultiProof.Write", "a Write after "+desc, "the 576 honest bytes", fmt.Sprintf("%d bytes err=%v", w2.buf.Len(), err))
					}
				}
			}
		}
		w := &failWriter{failAt: -1}
		if err := mp.Write(w); err != nil || !bytes.Equal(w.buf.Bytes(), honest) {
			vio(r, "c10.roundtrip", "MultiProof.Write", "honest proof after the failing writers", "the 576 honest bytes", fmt.Sprintf("%d bytes err=%v", w.buf.Len(), err))
		}
		// Read(Write(p)) equals p for honest proofs
		for which := 0; which < 2; which++ {
			hb := honestProofBytes(ctx.Seed, which)
			var a, b multiproof.MultiProof
			a.Read(bytes.NewReader(hb))
			var out bytes.Buffer
			a.Write(&out)
			if err := b.Read(&out); err != nil || !a.Equal(b) || !b.Equal(a) {
				vio(r, "c10.roundtrip", "MultiProof.Read(Write(p))", fmt.Sprintf("honest proof %d", which), "Equal to p", fmt.Sprintf("err=%v", err))
			}
			r.Evals++
		}
		r.Sample(map[string]interface{}{"profiles": "1,3,16,31,33-byte chunks, data+EOF variants", "error_offsets": "0..576", "writer": "fails / short-writes at every byte offset 0..575"})
	}})
	return us
}
