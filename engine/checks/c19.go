package checks

import (
	"fmt"

	"github.com/crate-crypto/go-ipa/bandersnatch/fr"
	"github.com/crate-crypto/go-ipa/banderwagon"
	"github.com/crate-crypto/go-ipa/zzverif/vsched"
	"verif.local/engine/core"
	"verif.local/engine/explore"
	"verif.local/engine/ref"
)

// C19 — batch helpers and the uncompressed form agree with the single-element operations.

func c19Values() []banderwagon.Element {
	c := conf()
	var id, g2 banderwagon.Element
	id.SetIdentity()
	g2.Double(&banderwagon.Generator)
	return []banderwagon.Element{
		id,
		reprOf(id, reprProjFlip),
		reprOf(banderwagon.Generator, reprProj),
		reprOf(banderwagon.Generator, reprFlip),
		reprOf(c.SRS[5], reprProjFlip),
		g2,
	}
}

// c19List checks every batch helper on the list described by (vals[i], block[i]): positions with the same
// block number share one pointer.
func c19List(r *core.Result, vals []banderwagon.Element, block []int, desc string) {
	L := len(vals)
	store := map[int]*banderwagon.Element{}
	els := make([]*banderwagon.Element, L)
	for i := 0; i < L; i++ {
		if p, ok := store[block[i]]; ok {
			els[i] = p
			continue
		}
		e := vals[i]
		store[block[i]] = &e
		els[i] = &e
	}
	before := make([]banderwagon.Element, L)
	refs := make([]ref.Pt, L)
	for i := range els {
		before[i] = *els[i]
		refs[i] = elToRef(els[i])
	}
	r.Evals++
	r.Nontrivial++
	// serialisers and map-to-field: position-wise equality with the single-element operations
	var cb [][32]byte
	var ub [][64]byte
	res := make([]*fr.Element, L)
	for i := range res {
		d := dirtyFr()
		res[i] = &d
	}
	origRes := append([]*fr.Element(nil), res...) // the caller's own result variables
	var merr error
	if !guard(r, "c19.panic", "batch helpers", desc, func() {
		cb = banderwagon.ElementsToBytes(els...)
		ub = banderwagon.BatchToBytesUncompressed(els...)
		merr = banderwagon.BatchMapToScalarField(res, els)
	}) {
		return
	}
	if len(cb) != L || len(ub) != L || merr != nil {
		vio(r, "c19.batch", "batch helpers", desc, fmt.Sprintf("%d results, no error", L), fmt.Sprintf("%d / %d results, err=%v", len(cb), len(ub), merr))
		return
	}
	for i := range els {
		if *els[i] != before[i] {
			vio(r, "c19.input_intact", "ElementsToBytes/BatchToBytesUncompressed/BatchMapToScalarField", desc, "elements unchanged", fmt.Sprintf("element %d modified", i))
			break
		}
		if want := els[i].Bytes(); cb[i] != want {
			vio(r, "c19.batch", "banderwagon.ElementsToBytes", desc, fmt.Sprintf("[%d] = Bytes() = %x", i, want), fmt.Sprintf("%x", cb[i]))
		}
		if want := ref.Compress(refs[i]); cb[i] != want {
			vio(r, "c19.batch", "banderwagon.ElementsToBytes", desc, fmt.Sprintf("[%d] = reference encoding %x", i, want), fmt.Sprintf("%x", cb[i]))
		}
		if want := els[i].BytesUncompressedTrusted(); ub[i] != want {
			vio(r, "c19.batch", "banderwagon.BatchToBytesUncompressed", desc, fmt.Sprintf("[%d] = BytesUncompressedTrusted() = %x", i, want), fmt.Sprintf("%x", ub[i]))
		}
		m := dirtyFr()
		els[i].MapToScalarField(&m)
		if res[i] != origRes[i] || !m.Equal(origRes[i]) {
			vio(r, "c19.batch", "banderwagon.BatchMapToScalarField", desc, fmt.Sprintf("the caller's variable for slot %d receives MapToScalarField() = %s", i, frToBig(m).Text(16)), frToBig(*origRes[i]).Text(16))
		}
		if !m.Equal(res[i]) {
			vio(r, "c19.batch", "banderwagon.BatchMapToScalarField", desc, fmt.Sprintf("[%d] = MapToScalarField() = %s", i, frToBig(m).Text(16)), frToBig(*res[i]).Text(16))
		}
		// trusted uncompressed round trip
		var d banderwagon.Element
		if err := d.SetBytesUncompressed(ub[i][:], true); err != nil || !d.Equal(els[i]) || !ref.SameClass(elToRef(&d), refs[i]) {
			vio(r, "c19.uncompressed", "banderwagon.Element.SetBytesUncompressed(trusted)", desc, fmt.Sprintf("[%d] decodes to an Equal element", i), fmt.Sprintf("err=%v", err))
		}
	}
	// batch normalisation
	var nerr error
	if !timed(r, "c19.panic", "banderwagon.BatchNormalize", desc, func() { nerr = banderwagon.BatchNormalize(els) }) {
		return
	}
	if nerr != nil {
		vio(r, "c19.normalize", "banderwagon.BatchNormalize", desc, "no error (all elements are valid)", nerr.Error())
		return
	}
	for i := range els {
		p := elToRef(els[i])
		single := before[i]
		single.Normalize()
		switch {
		case p.Z.Cmp(bi(1)) != 0:
			vio(r, "c19.normalize", "banderwagon.BatchNormalize", desc, fmt.Sprintf("element %d has Z = 1", i), elString(els[i]))
		case !ref.SameClass(p, refs[i]) || !ref.OnCurve(p):
			vio(r, "c19.normalize", "banderwagon.BatchNormalize", desc, fmt.Sprintf("element %d keeps its value", i), elString(els[i]))
		case !els[i].Equal(&before[i]):
			vio(r, "c19.normalize", "banderwagon.BatchNormalize", desc, fmt.Sprintf("element %d Equal to its former value", i), "not Equal")
		case *els[i] != single:
			vio(r, "c19.normalize", "banderwagon.BatchNormalize", desc, fmt.Sprintf("element %d identical to Normalize(): %s", i, elString(&single)), elString(els[i]))
		}
	}
}

// c19Error: one un-normalisable element (Z = 0) at position bad: BatchNormalize must fail without modifying anything.
func c19Error(r *core.Result, vals []banderwagon.Element, bad int, desc string) {
	L := len(vals)
	store := make([]banderwagon.Element, L)
	els := make([]*banderwagon.Element, L)
	for i := range vals {
		store[i] = vals[i]
		els[i] = &store[i]
	}
	store[bad] = banderwagon.Element{}
	before := append([]banderwagon.Element(nil), store...)
	var err error
	if !guard(r, "c19.panic", "banderwagon.BatchNormalize", desc, func() { err = banderwagon.BatchNormalize(els) }) {
		return
	}
	r.Evals++
	r.Nontrivial++
	if err == nil {
		vio(r, "c19.error", "banderwagon.BatchNormalize", desc, "an error (element with Z = 0)", "nil")
	}
	for i := range store {
		if store[i] != before[i] {
			vio(r, "c19.error", "banderwagon.BatchNormalize", desc, "no element modified when the call fails", fmt.Sprintf("element %d modified", i))
			break
		}
	}
	// the same batch without the bad element, right after the failed call: nothing of it may be left behind
	good := append([]banderwagon.Element(nil), vals...)
	ptrs := make([]*banderwagon.Element, L)
	for i := range good {
		ptrs[i] = &good[i]
	}
	if !guard(r, "c19.panic", "banderwagon.BatchNormalize", desc+", then the valid batch", func() { err = banderwagon.BatchNormalize(ptrs) }) {
		return
	}
	r.Evals++
	if err != nil {
		vio(r, "c19.error", "banderwagon.BatchNormalize", desc+", then the same batch without the bad element", "success", "error: "+err.Error())
		return
	}
	for i := range good {
		if !good[i].Equal(&vals[i]) || good[i].Bytes() != vals[i].Bytes() {
			vio(r, "c19.batch", "banderwagon.BatchNormalize", desc+", then the same batch without the bad element", fmt.Sprintf("element %d unchanged as a group element", i), "changed")
			break
		}
	}
}

func init() {
	core.Register(&core.Check{
		ID: "C19", Level: "model_checking",
		Rule:   "lists over 6 element values (identity normalised and as rescaled (0,-1), G rescaled, G flipped, SRS[5] rescaled+flipped, 2G): ALL lists of length <= 3 (4 thorough) with ALL pointer-aliasing patterns (set partitions of the positions), lengths {0,1,15,16,17,31,32,33,255,256,257,300,511,512,513,1000,1025} with duplicate pointers at stride patterns, each x NumCPU {1,2,3,16,17}; an un-normalisable element at EACH position; BatchNormalize additionally under the controlled scheduler: every map-iteration permutation of <= 4 distinct pointers x every schedule of Execute's workers (DPOR, unbounded); oracle: position-wise equality with Bytes/BytesUncompressedTrusted/MapToScalarField/Normalize and the reference encoding (read through the caller's own result variables, pre-filled with garbage), Z = 1 and Equal after BatchNormalize, bit-identical elements after a failed call; a state is a decision point of the explored schedule/permutation tree",
		Assume: []string{"valid elements except the deliberately un-normalisable one", "scheduling points = visible synchronisation operations; map order owned through the vsched.MapKeys seam"},
		Units:  c19Units,
	})
}

func c19Units(ctx *core.Ctx) []core.Unit {
	var us []core.Unit
	cpus := []int{1, 2, 3, 16, 17}
	us = append(us, core.Unit{Name: "all lists of length <= 3 x aliasing patterns x NumCPU", Run: func(ctx *core.Ctx, r *core.Result) {
		needRef()
		vals := c19Values()
		defer setCPU(0)
		partitions := map[int][][]int{0: {{}}, 1: {{0}}, 2: {{0, 0}, {0, 1}}, 3: {{0, 0, 0}, {0, 0, 1}, {0, 1, 0}, {0, 1, 1}, {0, 1, 2}},
			4: {{0, 0, 0, 0}, {0, 0, 0, 1}, {0, 0, 1, 0}, {0, 1, 0, 0}, {0, 1, 1, 1}, {0, 0, 1, 1}, {0, 1, 0, 1}, {0, 1, 1, 0}, {0, 0, 1, 2}, {0, 1, 0, 2}, {0, 1, 2, 0}, {0, 1, 1, 2}, {0, 1, 2, 1}, {0, 1, 2, 2}, {0, 1, 2, 3}}}
		maxL := 3
		if ctx.Thorough() {
			maxL = 4
		}
		for L := 0; L <= maxL; L++ {
			for _, part := range partitions[L] {
				nb := 0
				for _, b := range part {
					if b+1 > nb {
						nb = b + 1
					}
				}
				idx := make([]int, nb)
				for {
					lv := make([]banderwagon.Element, L)
					for i := 0; i < L; i++ {
						lv[i] = vals[idx[part[i]]]
					}
					for _, cpu := range cpus {
						if !setCPU(cpu) {
							setCPU(0)
						}
						c19List(r, lv, part, fmt.Sprintf("values %v pointer partition %v NumCPU=%d", pickIdx(idx, part), part, cpu))
						if !vsched.Instrumented {
							break
						}
					}
					p := 0
					for p < nb {
						idx[p]++
						if idx[p] < len(vals) {
							break
						}
						idx[p] = 0
						p++
					}
					if p == nb {
						break
					}
				}
			}
		}
		r.Sample(map[string]interface{}{"list": "values [G(proj), identity as (0,-1) rescaled, G(proj)] with pointers [a,b,a]", "cpus": cpus})
	}})
	us = append(us, core.Unit{Name: "long lists with duplicate pointers x NumCPU", Run: func(ctx *core.Ctx, r *core.Result) {
		needRef()
		c := conf()
		defer setCPU(0)
		for _, L := range []int{0, 1, 15, 16, 17, 31, 32, 33, 255, 256, 257, 300, 511, 512, 513, 1000, 1025} {
			for _, stride := range []int{0, 1, 2, 16, 17} {
				vals := make([]banderwagon.Element, L)
				block := make([]int, L)
				for i := 0; i < L; i++ {
					block[i] = i
					src := i
					if stride > 0 && i >= stride && i%3 == 0 {
						block[i] = i - stride // share the pointer of an earlier position
						src = i - stride
						for block[src] != src {
							src = block[src]
						}
						block[i] = src
					}
					if src%11 == 7 {
						vals[i].SetIdentity()
						vals[i] = reprOf(vals[i], src%nRepr)
					} else {
						vals[i] = reprOf(c.SRS[(src*29)%256], src%nRepr)
					}
				}
				for _, cpu := range cpus {
					if !setCPU(cpu) {
						setCPU(0)
					}
					c19List(r, vals, block, fmt.Sprintf("length %d, duplicate-pointer stride %d, NumCPU=%d", L, stride, cpu))
					if !vsched.Instrumented {
						break
					}
				}
			}
		}
	}})
	us = append(us, core.Unit{Name: "un-normalisable element at each position", Run: func(ctx *core.Ctx, r *core.Result) {
		needRef()
		c := conf()
		defer setCPU(0)
		for _, L := range []int{1, 2, 3, 4, 5, 16, 17, 33, 64, 300} {
			vals := make([]banderwagon.Element, L)
			for i := range vals {
				vals[i] = reprOf(c.SRS[i%256], 1+i%3)
			}
			if L >= 5 {
				// both representatives of the identity class, in projective form, take part in the failing batch
				vals[1] = reprOf(func() banderwagon.Element { var e banderwagon.Element; e.SetIdentity(); return e }(), reprProj)
				vals[3] = reprOf(func() banderwagon.Element { var e banderwagon.Element; e.SetIdentity(); return e }(), reprProjFlip)
			}
			for bad := 0; bad < L; bad++ {
				for _, cpu := range []int{1, 2, 16} {
					if !setCPU(cpu) {
						setCPU(0)
					}
					c19Error(r, vals, bad, fmt.Sprintf("length %d, Element{} at position %d, NumCPU=%d", L, bad, cpu))
					if !vsched.Instrumented {
						break
					}
				}
			}
		}
		r.Sample(map[string]interface{}{"list": "5 rescaled SRS points with the all-zero Element{} at position 3", "expected": "error, nothing modified"})
	}})
	for _, k := range []int{2, 3, 4} {
		for _, cpu := range []int{2, 4} {
			if k == 4 && cpu == 4 && !ctx.Thorough() {
				continue
			}
			k, cpu := k, cpu
			us = append(us, core.Unit{Name: fmt.Sprintf("BatchNormalize schedules and map orders: %d pointers, NumCPU=%d", k, cpu), Run: func(ctx *core.Ctx, r *core.Result) {
				if !vsched.Instrumented {
					r.Note("seam", "unavailable (fallback flavour)")
					return
				}
				needRef()
				c := conf()
				defer setCPU(0)
				setCPU(cpu)
				vals := make([]banderwagon.Element, k)
				want := ""
				for i := range vals {
					vals[i] = reprOf(c.SRS[i+40], 1+i%3)
					n := vals[i]
					n.Normalize()
					want += elString(&n) + "|"
				}
				body := func() string {
					store := append([]banderwagon.Element(nil), vals...)
					els := make([]*banderwagon.Element, 0, k+1)
					for i := range store {
						els = append(els, &store[i])
					}
					els = append(els, &store[0]) // a duplicate pointer
					if err := banderwagon.BatchNormalize(els); err != nil {
						return "error " + err.Error()
					}
					out := ""
					for i := range store {
						out += elString(&store[i]) + "|"
					}
					return out
				}
				st := core.Explore(r, core.SchedSpec{Name: fmt.Sprintf("BatchNormalize(%d distinct pointers + 1 duplicate) NumCPU=%d", k, cpu), API: "banderwagon.BatchNormalize", Check: "c19.schedule", Body: body, Expect: want, Mode: "dpor", Opt: explore.Options{DataBudget: -1, MaxExecs: 300000}})
				r.Nontrivial += int64(st.Complete)
				r.Note("distinct_outcomes", len(st.Outcomes))
			}})
		}
	}
	return us
}

func pickIdx(idx []int, part []int) []int {
	out := make([]int, len(part))
	for i, b := range part {
		out[i] = idx[b]
	}
	return out
}
